#!/bin/bash
# Offline installation of the machinery's third-party deps next to the repo's interpreter.
HERE="$(cd "$(dirname "${BASH_SOURCE[0]}")" && pwd)"
if [ ! -f "$HERE/.deps/.ok" ]; then
  rm -rf "$HERE/.deps"
  PIP_NO_INDEX=1 /venv/bin/pip install --quiet --no-index --find-links /opt/veriftools/wheels \
      --target "$HERE/.deps" deal icontract sympy mpmath jsonschema || exit 1
  touch "$HERE/.deps/.ok"
fi
exit 0
