#!/venv/bin/python
"""Runs the repository's pinned test-suite with every verification guard OFF and checks that every test
listed as stable_pass in /root/.vp/BASELINE.json still passes. Exit 0 iff so."""
import json, os, subprocess, sys, tempfile
import xml.etree.ElementTree as ET

base = json.load(open("/root/.vp/BASELINE.json")) if os.path.exists("/root/.vp/BASELINE.json") else {"stable_pass": []}
env = {k: v for k, v in os.environ.items() if k not in ("EASYFEA_VERIF",) and not k.startswith("VERIF_")}
env["PYTHONPATH"] = ""
with tempfile.TemporaryDirectory() as d:
    xml = os.path.join(d, "junit.xml")
    cmd = ["/venv/bin/python", "-m", "pytest", "-ra", "-q", "-p", "no:cacheprovider", "--timeout=900",
           "--continue-on-collection-errors", f"--junitxml={xml}"] + sys.argv[1:]
    rc = subprocess.run(cmd, cwd="/repo", env=env).returncode
    passed = set()
    for tc in ET.parse(xml).getroot().iter("testcase"):
        if not any(ch.tag in ("failure", "error", "skipped") for ch in tc):
            passed.add(f"{tc.get('classname')}::{tc.get('name')}")
missing = [t for t in base["stable_pass"] if t not in passed]
print(f"baseline: {len(base['stable_pass'])} stable tests, {len(passed)} passed now, {len(missing)} stable tests not passing")
for t in missing[:20]:
    print("  NOT PASSING:", t)
sys.exit(1 if missing else 0)
