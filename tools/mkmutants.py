#!/usr/bin/env python3
"""Maintenance helper: (re)generates /verif/mutants/<Cxx>/<name>.diff from the specs below.
Each spec is a realistic single-site edit of /repo (old -> new, old must occur exactly once).
Usage: mkmutants.py [Cxx ...]   (needs a clean /repo working tree; leaves it clean)"""
import os
import subprocess
import sys

R = "/repo/EasyFEA/"
SIMU = R + "Simulations/_simu.py"
GE = R + "FEM/_group_elem.py"
GAUSS = R + "FEM/_gauss.py"
BIL = R + "FEM/Operators/Bilinear.py"
SOLV = R + "Simulations/Solvers.py"
LAWS = R + "Models/Elastic/_laws.py"
MUT = R + "Models/_utils.py"
MESH = R + "FEM/_mesh.py"
LINALG = R + "FEM/_linalg.py"
ELBEAM = R + "FEM/Elems/_beam.py"

SPECS = {
    "C01": [
        ("jacobian_transposed_invF", GE, "        invF_e_pg = FeArray.asfearray(Inv(F_e_pg))", "        invF_e_pg = FeArray.asfearray(Inv(F_e_pg)).T"),
        ("B_3d_yz_row_swapped", GE, "            B_e_pg[:, :, 3, columnsY] = dNdz * cM\n            B_e_pg[:, :, 3, columnsZ] = dNdy * cM", "            B_e_pg[:, :, 3, columnsY] = dNdy * cM\n            B_e_pg[:, :, 3, columnsZ] = dNdz * cM"),
        ("B_shear_factor", GE, "cM = 1 / np.sqrt(2)", "cM = 1 / 2"),
        ("dirichlet_values_not_subtracted", SOLV, "    bi -= Aic @ xc\n", "    bi -= Aic @ (xc * 0.999999)\n"),
    ],
    "C02": [
        ("seg5_rigi_3pts", GAUSS, """        elif elemType == ElemType.SEG5:
            if matrixType == MatrixType.rigi:
                nPg = 4""", """        elif elemType == ElemType.SEG5:
            if matrixType == MatrixType.rigi:
                nPg = 3"""),
        ("quad8_mass_4pts", GAUSS, """            elif matrixType == MatrixType.mass:
                nPg = 9
            else:
                raise ValueError("unknown matrixType")
            xis, etas, weights = Gauss._Quadrangle(nPg)""", """            elif matrixType == MatrixType.mass:
                nPg = 4
            else:
                raise ValueError("unknown matrixType")
            xis, etas, weights = Gauss._Quadrangle(nPg)"""),
        ("hexa20_8pts", GAUSS, """        elif elemType == ElemType.HEXA20:
            nPg = 27""", """        elif elemType == ElemType.HEXA20:
            nPg = 8"""),
        ("seg4_mass_3pts", GAUSS, """            elif matrixType == MatrixType.mass:
                nPg = 4
            elif matrixType == MatrixType.beam:
                nPg = 6""", """            elif matrixType == MatrixType.mass:
                nPg = 3
            elif matrixType == MatrixType.beam:
                nPg = 6"""),
        ("beam_mass_rotary_term", R + "Models/Beam/_beam.py", "            M = np.diag([A, A, 0])", "            M = np.diag([A, A, -1e-3 * A])"),
    ],
    "C03": [
        ("complex_imag_dropped", SIMU, "            ) + 1j * np.bincount(inv, weights=data.imag, minlength=nnz)", "            ) + 0j * np.bincount(inv, weights=data.imag, minlength=nnz)"),
        ("rows_cols_swapped", SIMU, """                list_rows.append(groupElem.Get_rows_e(dof_n).ravel())
                list_cols.append(groupElem.Get_columns_e(dof_n).ravel())""", """                list_rows.append(groupElem.Get_columns_e(dof_n).ravel())
                list_cols.append(groupElem.Get_rows_e(dof_n).ravel())"""),
        ("slot_order_C_M", SIMU, """        M = self.__Assemble_csr(
            {g: KCMF[2] for g, KCMF in dict_KCMF.items()}, dof_n, Ndof, True
        )""", """        M = self.__Assemble_csr(
            {g: KCMF[2] if KCMF[2] is not None else KCMF[1] for g, KCMF in dict_KCMF.items()}, dof_n, Ndof, True
        )"""),
        ("int32_inv_overflow_like_wrong_dtype", SIMU, "        inv = np.searchsorted(canon, rows.astype(np.int64) * ncol + cols).astype(", "        inv = np.searchsorted(canon, rows.astype(np.int64) * ncol + cols, side='right').astype("),
    ],
    "C04": [
        ("bc_init_keeps_lagrange_size", SIMU, "        if len(getattr(self, \"_Simu__Bc_Lagrange\", [])) > 0:\n", "        if len(getattr(self, \"_Simu__Bc_Lagrange\", [])) > 1e9:\n"),
        ("orphan_diag_missing", SIMU, "            diag[orphanDofs] = 1.0\n            A = A + sparse.diags(diag, format=\"csr\")", "            diag[orphanDofs] = 0.0\n            A = A + sparse.diags(diag, format=\"csr\")"),
        ("callable_z_is_y", SIMU, "                values_eval[:] = values(coord[:, 0], coord[:, 1], coord[:, 2])", "                values_eval[:] = values(coord[:, 0], coord[:, 1], coord[:, 1])"),
        ("duplicates_last_wins", SIMU, """            x = sparse.csr_matrix(
                (dofsValues, (dofs, np.zeros_like(dofs))),
                shape=(size, 1),
                dtype=np.float64,
            )
""", """            x = sparse.lil_matrix((size, 1), dtype=np.float64)
            x[dofs, 0] = dofsValues
            x = x.tocsr()
"""),
        ("lagrange_value_not_scaled", SOLV, "            b[i] = values[0]", "            b[i] = lagrangeBc.dofsValues[0]"),
        ("newton_dirichlet_not_incremental", SIMU, "            dofsValues -= u_dofs\n", "            dofsValues -= 0.5 * u_dofs\n"),
        ("hinged_ties_rotation", R + "Simulations/_beam.py", """        elif beamModel.dim == 2:
            unknowns = ["x", "y"]
        elif beamModel.dim == 3:
            unknowns = ["x", "y", "z"]
            if unknowns""", """        elif beamModel.dim == 2:
            unknowns = ["x", "y", "rz"]
        elif beamModel.dim == 3:
            unknowns = ["x", "y", "z"]
            if unknowns"""),
    ],
    "C05": [
        ("hht_history_coef", SIMU, "            coefC = dt * (alpha - 1) * (gamma / (2 * beta) - 1)", "            coefC = dt * (alpha - 1) * (gamma / beta - 1)"),
        ("newmark_corrector_gamma", SIMU, """            vt_np1 = v_n + dt * (1 - gamma) * a_n

            a_np1 = (u_np1 - ut_np1) / (beta * dt**2)""", """            vt_np1 = v_n + dt * (1 - beta) * a_n

            a_np1 = (u_np1 - ut_np1) / (beta * dt**2)"""),
        ("midpoint_coefK", SIMU, "            coefK = 0.5\n            coefC = 1 / dt", "            coefK = 1\n            coefC = 1 / dt"),
        ("hht_newmark_K_shift_dropped", SIMU, "            b -= alpha * K @ u_n\n", "            b -= 0 * alpha * K @ u_n\n"),
        ("euler_implicit_history_v", SIMU, "            b += (1 / dt * M) @ v_n\n", "            b += (1 / dt * M) @ (0 * v_n)\n"),
        ("parabolic_predictor", SIMU, """            ut_np1 = u_n + (1 - alpha) * dt * v_n

            b += 1 / (alpha * dt) * C @ ut_np1""", """            ut_np1 = u_n + alpha * dt * v_n

            b += 1 / (alpha * dt) * C @ ut_np1"""),
        ("evaluate_hht_at", SIMU, "            a_t = (1 - alpha) * a_np1 + alpha * a_n\n\n        elif self.algo == AlgoType.midpoint:", "            a_t = a_np1\n\n        elif self.algo == AlgoType.midpoint:"),
        ("explicit_update_uses_new_v", SIMU, "            u_np1 = u_n + dt * v_n\n            v_np1 = v_n + dt * a_np1", "            v_np1 = v_n + dt * a_np1\n            u_np1 = u_n + dt * v_np1"),
        ("hht_newmark_gamma_free", SIMU, "            gamma = 1 / 2 + alpha\n", "            gamma = gamma\n"),
    ],
    "C06": [
        ("seg4_dddN_sign", R + "FEM/Elems/_seg.py", "        dddN3 = [lambda r: 81 / 8]\n        dddN4 = [lambda r: -81 / 8]", "        dddN3 = [lambda r: -81 / 8]\n        dddN4 = [lambda r: 81 / 8]"),
        ("quad8_ddN_entry", R + "FEM/Elems/_quad.py", "        ddN7 = [lambda r, s: -s - 1, lambda r, s: 0]", "        ddN7 = [lambda r, s: -s + 1, lambda r, s: 0]"),
        ("tri10_ddN_entry", R + "FEM/Elems/_tri.py", "        ddN7 = [lambda r, s: 0, lambda r, s: 27 * r]", "        ddN7 = [lambda r, s: 0, lambda r, s: 27 * s]"),
        ("tri15_dddN_entry", R + "FEM/Elems/_tri.py", "        dddN7 = [lambda r, s: 256 * s, lambda r, s: 0]", "        dddN7 = [lambda r, s: 128 * s, lambda r, s: 0]"),
        ("prism15_ddN_entry", R + "FEM/Elems/_prism.py", "        ddN7 = [lambda r, s, t: 4 * t - 4, lambda r, s, t: 0, lambda r, s, t: 0]", "        ddN7 = [lambda r, s, t: 4 * t + 4, lambda r, s, t: 0, lambda r, s, t: 0]"),
        ("eb2_hermite_ddN", ELBEAM, "        ddN2 = [lambda r: 3 * r / 4 - 1 / 4]", "        ddN2 = [lambda r: 3 * r / 4 + 1 / 4]"),
        ("eb3_hermite_slope_scale", ELBEAM, "        N2 = lambda r: r**2 * (r - 1) ** 2 * (r + 1) / 8", "        N2 = lambda r: r**2 * (r - 1) ** 2 * (r + 1) / 4"),
        ("hexa20_N_bubble_added", R + "FEM/Elems/_hexa.py", "        N1 = lambda r, s, t: (r - 1) * (s - 1) * (t - 1) * (r + s + t + 2) / 8", "        N1 = lambda r, s, t: (r - 1) * (s - 1) * (t - 1) * (r + s + t + 2) / 8 + (r**2 - 1) * (s**2 - 1) * (t**2 - 1) / 8"),
    ],
    "C07": [
        ("tri12_abscissa_digit", GAUSS, "            c = 0.310352451033785", "            c = 0.310352451133785"),
        ("tetra15_weight", GAUSS, "            p4: float = 5 / 567", "            p4: float = 5 / 576"),
        ("quad9_center_weight", GAUSS, "                64 / 81,", "                60 / 81,"),
        ("hexa27_abscissa", GAUSS, "            a = np.sqrt(3 / 5)\n            c1: float = 5 / 9\n            c2: float = 8 / 9\n\n            x = [-a] * 9", "            a = np.sqrt(3 / 4)\n            c1: float = 5 / 9\n            c2: float = 8 / 9\n\n            x = [-a] * 9"),
        ("prism_rule_keeps_sum", GAUSS, "            yc = [1 / 3, 0.6, 0.2, 0.2] * 2\n            zc = [1 / 3, 0.2, 0.6, 0.2] * 2", "            yc = [1 / 3, 0.6, 0.2, 0.2] * 2\n            zc = [1 / 3, 0.2, 0.6, 0.25] * 2"),
        ("tri6_rigi_1pt", GAUSS, """        elif elemType == ElemType.TRI6:
            if matrixType == MatrixType.rigi:
                nPg = 3""", """        elif elemType == ElemType.TRI6:
            if matrixType == MatrixType.rigi:
                nPg = 1"""),
    ],
    "C08": [
        ("inverse_map_cost_in_length_units", R + "FEM/_group_elem.py", "                        J = (N[0, 0] @ coordElemBase[:, :dim] - xP) / h_e  # cost function", "                        J = (N[0, 0] @ coordElemBase[:, :dim] - xP)  # cost function"),
        ("pixel_range_excludes_upper_bound", R + "FEM/_group_elem.py", "                np.floor(coordElem[:, 0].max()) + 1,\n", "                np.ceil(coordElem[:, 0].max()),\n"),
        ("candidate_elements_not_sorted", R + "FEM/_group_elem.py", "        elements_e = np.sort(np.asarray(elements_e, dtype=int))\n", "        elements_e = np.asarray(elements_e, dtype=int)\n"),
        ("rotate_uses_radians", R + "Geoms/_utils.py", "    theta *= np.pi / 180\n", "    theta *= np.pi / 200\n"),
        ("normals_cross_flipped", GE, "            normals_e_pg = np.cross(dxdr_e_pg, dxds_e_pg)", "            normals_e_pg = np.cross(dxds_e_pg, dxdr_e_pg)"),
        ("normals_2d_flipped", GE, "            normals_e_pg = np.cross((0, 0, 1), dxdr_e_pg)", "            normals_e_pg = np.cross(dxdr_e_pg, (0, 0, 1))"),
        ("pointsInElem_2d_tol_sign", GE, "            test_n_i = cross_n_i @ n_i >= -tol", "            test_n_i = cross_n_i @ n_i >= tol"),
        ("mapping_origin_dropped", GE, "                    xiP = xiOrigin + (xP_n - x0) @ np.asarray(invF_e_pg[e, 0])", "                    xiP = (xP_n - x0) @ np.asarray(invF_e_pg[e, 0])"),
        ("translate_no_notify", MESH, """        newCoord = oldCoord + np.array([dx, dy, dz])
        for groupElem in self.dict_groupElem.values():
            groupElem.coord = newCoord
        self._Notify("The mesh has been modified")""", """        newCoord = oldCoord + np.array([dx, dy, dz])
        for groupElem in self.dict_groupElem.values():
            groupElem.coord = newCoord"""),
    ],
    "C09": [
        ("surfload_2d_no_thickness", SIMU, """            dofsValues, dofs, nodes = self.__Bc_lineLoad(
                problemType, nodes, values, unknowns
            )
            # multiplied by thickness
            dofsValues *= self.model.thickness""", """            dofsValues, dofs, nodes = self.__Bc_lineLoad(
                problemType, nodes, values, unknowns
            )
            # multiplied by thickness
            dofsValues *= 1.0"""),
        ("integration_uses_rigi_rule", SIMU, """            # Get the coordinates of the Gauss points if you need to devaluate the function
            matrixType = MatrixType.mass""", """            # Get the coordinates of the Gauss points if you need to devaluate the function
            matrixType = MatrixType.rigi"""),
        ("elements_not_exclusive", SIMU, "            elements = groupElem.Get_Elements_Nodes(nodes, exclusively=True)\n            if elements.shape[0] == 0:\n                continue\n            connect = groupElem.connect[elements]\n            Ne = elements.shape[0]\n            list_nodesUsed", "            elements = groupElem.Get_Elements_Nodes(nodes, exclusively=False)\n            if elements.shape[0] == 0:\n                continue\n            connect = groupElem.connect[elements]\n            Ne = elements.shape[0]\n            list_nodesUsed"),
        ("point_load_not_split", SIMU, "            eval_n /= len(nodes)\n", "            eval_n /= 1\n"),
        ("pressure_thickness_dropped", SIMU, "            magnitude *= self.model.thickness\n", "            magnitude *= 1.0\n"),
        ("beam_hermitian_load_wrong_row", R + "Simulations/_beam.py", "                N_e_pg[:, :, row, :],", "                N_e_pg[:, :, min(row, 1), :],"),
        ("beam_line_load_rows_in_beam_axes", R + "Simulations/_beam.py", '        N_e_pg = np.einsum("eji,epjn->epin", R_e, np.asarray(N_e_pg))', '        N_e_pg = np.asarray(N_e_pg)'),
        ("beam_line_load_rotation_not_transposed", R + "Simulations/_beam.py", '        N_e_pg = np.einsum("eji,epjn->epin", R_e, np.asarray(N_e_pg))', '        N_e_pg = np.einsum("eij,epjn->epin", R_e, np.asarray(N_e_pg))'),
    ],
    "C10": [
        ("beam_P_not_transposed", ELBEAM, "            P[elems] = beam._Calc_P().T\n", "            P[elems] = beam._Calc_P()\n"),
        ("pmat_D2_3d_entry", MUT, "                [p21 * p33 + p31 * p23, p11 * p33 + p31 * p13, p11 * p23 + p21 * p13],  # type: ignore", "                [p21 * p33 + p31 * p23, p11 * p33 - p31 * p13, p11 * p23 + p21 * p13],  # type: ignore"),
        ("beam_yaxis_handedness", R + "Models/Beam/_beam.py", "        k = Normalize(np.cross(i, j))\n\n        J = np.array([i, j, k]).T", "        k = Normalize(np.cross(j, i))\n\n        J = np.array([i, j, k]).T"),
        ("beam_line_load_rows_in_beam_axes", R + "Simulations/_beam.py", '        N_e_pg = np.einsum("eji,epjn->epin", R_e, np.asarray(N_e_pg))', '        N_e_pg = np.asarray(N_e_pg)'),
        ("timoshenko_shear_sign_3d", ELBEAM, "            B_e_pg[:, :, 5, idx_ry] += Nu_pg  # +ry", "            B_e_pg[:, :, 5, idx_ry] -= Nu_pg  # +ry"),
    ],
    "C11": [
        ("walpole_ragged_coefficients", LAWS, "        ci = np.array(np.broadcast_arrays(c1, c2, c3, c4, c5))\n", "        ci = np.array([c1, c2, c3, c4, c5])\n"),
        ("plane_stress_uses_C", LAWS, "                c = np.linalg.inv(s)\n\n            else:", "                c = global_cM[x, :][:, x] if len(shape) == 2 else np.linalg.inv(s)\n\n            else:"),
        ("iso_lambda_plane_stress", LAWS, "            lmbda = E * v / (1 - v**2)\n", "            lmbda = E * v / (1 - v)\n"),
        ("ortho_c13", LAWS, "        return -E1 * E2 * E3 * (v12 * v23 + v13) / self.__get_cij_denominator()", "        return -E1 * E2 * E3 * (v12 * v13 + v23) / self.__get_cij_denominator()"),
        ("trans_Gt_formula", LAWS, "        Gt = Et / (2 * (1 + vt))\n", "        Gt = Et / (2 * (1 + self.vl))\n"),
        ("param_set_without_update", R + "Utilities/_params.py", "        if isinstance(instance, Updatable):\n            instance.Need_Update()", "        if isinstance(instance, Updatable) and not isinstance(value, float):\n            instance.Need_Update()"),
        ("apply_pmat_toLocal_same_as_global", MUT, '        i1 = "ji"\n        id2 = "kl"', '        i1 = "ij"\n        id2 = "kl"'),
        ("aniso_2d_embedding_index", LAWS, "        idx = np.array([0, 1, 5])\n        if dim == 2:", "        idx = np.array([0, 1, 3])\n        if dim == 2:"),
        ("pmat_2d_B_entry", MUT, "        B = np.array([[p11 * p12, p21 * p22]])", "        B = np.array([[p11 * p12, p21 * p12]])"),
    ],
    "C12": [
        ("align_pads_leading", LINALG, "                op[(slice(None), slice(None)) + (None,) * (nt - rank)]", "                op[(slice(None), slice(None)) + (None,) * max(nt - rank - 1, 0)]"),
        ("matmul_12_subscript", LINALG, '            return FeArray.asfearray(np.einsum("...i,...ij->...j", self, other))', '            return FeArray.asfearray(np.einsum("...i,...ji->...j", self, other))'),
        ("ddot_order", LINALG, "        end = (idx1 + idx2).replace(idx1[-1], \"\").replace(idx1[-2], \"\")\n        return f\"...{idx1},...{idx2}->...{end}\"", "        end = (idx1 + idx2).replace(idx1[-1], \"\").replace(idx1[-2], \"\")\n        return f\"...{idx1},...{idx2[1] + idx2[0] + idx2[2:]}->...{end}\""),
        ("det3_sign", LINALG, "            - a12 * ((a21 * a33) - (a31 * a23))", "            + a12 * ((a21 * a33) - (a31 * a23))"),
        ("inv3_adj_entry", LINALG, "        adj[..., 1, 2] = -det12", "        adj[..., 1, 2] = det12"),
        ("T_rank3_axes", LINALG, "            axes = tuple(range(2)) + tuple(range(n - 1, 1, -1))", "            axes = tuple(range(2)) + tuple(range(2, n - 2)) + (n - 1, n - 2)"),
        ("keeps_fe_axes_negative", LINALG, "    return all(a >= 2 if a >= 0 else a >= 2 - ndim for a in axes)", "    return all(a >= 2 if a >= 0 else a >= 1 - ndim for a in axes)"),
        ("tensorprod_sym", LINALG, '            p2 = np.einsum("...il,...jk->...ijkl", A, B)', '            p2 = np.einsum("...il,...kj->...ijkl", A, B)'),
        ("fast_path_ignores_subclass", LINALG, "            return res.view(FeArray)\n        feShape = _FeShape(inputs)", "            return res\n        feShape = _FeShape(inputs)"),
    ],
    "C13": [
        ("field_grad_transposed", R + "FEM/_field.py", "            newArray = FeArray.zeros(Ne, nPg, dof_n, dim, dtype=float)\n            newArray[..., dof, :] = array", "            newArray = FeArray.zeros(Ne, nPg, dim, dof_n, dtype=float)\n            newArray[..., :, dof] = array"),
        ("bilinear_uses_mass_weights", R + "FEM/_forms.py", "        dX_e_pg = groupElem.Get_weightedJacobian_e_pg(field.matrixType)\n\n        # loop over u dofs\n        for i in dofs:\n\n            # activate node and dof for u", "        dX_e_pg = groupElem.Get_weightedJacobian_e_pg(MatrixType.mass) if groupElem.Get_gauss(MatrixType.mass).nPg == groupElem.Get_gauss(field.matrixType).nPg else groupElem.Get_weightedJacobian_e_pg(field.matrixType)\n        dX_e_pg = dX_e_pg * (1 + 1e-3 * (field.dof_n == 3))\n\n        # loop over u dofs\n        for i in dofs:\n\n            # activate node and dof for u"),
        ("bilinear_transposed_storage", R + "FEM/_forms.py", "                data[:, j, i] = np.reshape(values_e, groupElem.Ne)", "                data[:, i, j] = np.reshape(values_e, groupElem.Ne)"),
        ("sym_grad_no_half", R + "FEM/_field.py", "    return 0.5 * (grad.T + grad)", "    return 0.5 * grad.T + grad * 0.5000001"),
        ("weakforms_thickness_on_F_missing", R + "Simulations/_weakforms.py", "            F_e = computeF.Integrate_e(field) * thickness", "            F_e = computeF.Integrate_e(field)"),
        ("linear_assemble_cols", R + "FEM/_forms.py", "        rows = groupElem.Get_assembly_e(dof_n).ravel()\n        columns = np.zeros_like(rows)", "        rows = np.sort(groupElem.Get_assembly_e(dof_n), axis=1).ravel()\n        columns = np.zeros_like(rows)"),
    ],
    "C14": [
        ("coord_setter_no_notify", MESH, '        # as Translate / Rotate / Symmetry do: the simulations observing the mesh must reassemble\n        self._Notify("The mesh has been modified")', '        # as Translate / Rotate / Symmetry do: the simulations observing the mesh must reassemble'),
        ("symmetry_no_notify", MESH, '        newCoord = Symmetry(oldCoord, point, n)\n        for groupElem in self.dict_groupElem.values():\n            groupElem.coord = newCoord\n        self._Notify("The mesh has been modified")', '        newCoord = Symmetry(oldCoord, point, n)\n        for groupElem in self.dict_groupElem.values():\n            groupElem.coord = newCoord'),
        ("group_coord_keeps_cache", GE, "        self.__coord = coord[self.nodes]\n        self._InitMatrix()", "        self.__coord = coord[self.nodes]"),
        ("new_mesh_not_observed", SIMU, "            # simulation will look for modifications of the new mesh too\n            mesh._Add_observer(self)\n", ""),
        ("param_same_sign_no_update", R + "Utilities/_params.py", "        instance.__dict__[self.__name] = value\n        if isinstance(instance, Updatable):\n            instance.Need_Update()", "        old = instance.__dict__.get(self.__name)\n        instance.__dict__[self.__name] = value\n        if isinstance(instance, Updatable) and not (isinstance(old, float) and isinstance(value, float) and abs(value - old) <= 1e-3 * abs(old)):\n            instance.Need_Update()"),
        ("model_update_no_notify", MUT, '        if value:\n            self._Notify("The model has been modified.")', '        if value and not self.needUpdate:\n            self._Notify("The model has been modified.")'),
        ("rayleigh_no_update", R + "Simulations/_elastic.py", "        self.__coefK = coefK\n        self.Need_Update()", "        self.__coefK = coefK"),
        ("behavior_eigen_once", R + "Models/InElastic/_behavior.py", "        if self.__eigen is None or not np.array_equal(self.__eigen_C, C):", "        if self.__eigen is None:"),
        ("inelastic_state_survives_mesh", R + "Simulations/_inelastic.py", "        if self.mesh is mesh:\n            # the internal variables live on the Gauss points of the mesh they were integrated on\n            self.__z = {}\n            self.__zOld = {}", "        if self.mesh is mesh:\n            self.__z = {}"),
        ("phasefield_material_not_observed", R + "Simulations/_phasefield.py", "        self.phaseFieldModel.material._Add_observer(self)\n", ""),
        ("mesh_moved_keeps_simu_cache", SIMU, "            # the nodes moved: values cached per group of elements (e.g. element mass matrices) are stale\n            clear_cached_computed_values(self)\n", ""),
        ("set_iter_keeps_matrices", SIMU, "        self.__Init_Sols_n()\n\n        self.Need_Update()  # need to reconstruct matrices", "        self.__Init_Sols_n()"),
    ],
    "C15": [
        ("save_iter_writes_into_caller_dict", R + "Simulations/_elastic.py", "        iter = {} if iter is None else iter.copy()\n\n        iter[\"displacement\"]", "        iter = {} if iter is None else iter\n\n        iter[\"displacement\"]"),
        ("thermal_save_iter_writes_into_caller_dict", R + "Simulations/_thermal.py", "        iter = {} if iter is None else iter.copy()\n", "        iter = {} if iter is None else iter\n"),
        ("weakforms_set_iter_requires_rates", R + "Simulations/_weakforms.py", "            v = results.get(\"v\", np.zeros_like(u))\n            self._Set_solutions(self.problemType, u, v)\n", "            v = results[\"v\"]\n            self._Set_solutions(self.problemType, u, v)\n"),
        ("getter_returns_live_array", SIMU, "        arr = self.__dict_u_n[problemType].copy()\n        if not asCsrMatrix:\n            return arr\n        Ndof = self.__Get_Ndof(problemType)\n        rows = np.arange(arr.size, dtype=int)\n        cols = np.zeros_like(rows)\n        return sparse.csr_matrix((arr, (rows, cols)), shape=(Ndof, 1))\n\n    def __Set_u_n", "        arr = self.__dict_u_n[problemType]\n        if not asCsrMatrix:\n            return arr\n        Ndof = self.__Get_Ndof(problemType)\n        rows = np.arange(arr.size, dtype=int)\n        cols = np.zeros_like(rows)\n        return sparse.csr_matrix((arr, (rows, cols)), shape=(Ndof, 1))\n\n    def __Set_u_n"),
        ("set_iter_skips_mesh_switch", SIMU, "        if indexMesh != self.__indexMesh:\n            self.__indexMesh = indexMesh\n            self.__Update_mesh(indexMesh)", "        if indexMesh > self.__indexMesh:\n            self.__indexMesh = indexMesh\n            self.__Update_mesh(indexMesh)"),
        ("disk_entry_follows_folder", SIMU, "            self.__list_results.append(path)\n", "            self.__list_results.append(Folder.os.path.relpath(path, self.folder))\n"),
        ("elastic_accel_saved_as_speed", R + "Simulations/_elastic.py", "            iter[\"accel\"] = self.accel", "            iter[\"accel\"] = self.speed"),
        ("thermal_dot_not_restored", R + "Simulations/_thermal.py", "        if self.algo == AlgoType.parabolic and \"thermalDot\" in results:\n            v = results[\"thermalDot\"]", "        if self.algo == AlgoType.parabolic and \"thermaldot\" in results:\n            v = results[\"thermalDot\"]"),
        ("inelastic_set_iter_keeps_state", R + "Simulations/_inelastic.py", "        self.__zOld = {et: a.copy() for et, a in results.get(\"state\", {}).items()}\n", "        self.__zOld = {et: a.copy() for et, a in results.get(\"State\", self.__zOld).items()}\n"),
        ("phasefield_history_not_restored", R + "Simulations/_phasefield.py", "        if \"psiP_history\" in results:", "        if \"psiP_history\" in results and resetAll:"),
        ("phasefield_damage_restored_from_live", R + "Simulations/_phasefield.py", "        self._Set_solutions(damageType, results[damageType])", "        self._Set_solutions(damageType, results.get(\"Damage\", self.damage))"),
        ("mesh_save_drops_tags", MESH, "            dict_nodes_tags = groupElem._dict_nodes_tags\n", "            dict_nodes_tags = {t: n for t, n in groupElem._dict_nodes_tags.items() if not t.startswith(\"P\")}\n"),
        ("hyperelastic_speed_saved_stale", R + "Simulations/_hyperelastic.py", "            iter[\"speed\"] = self._Get_v_n(self.problemType)", "            iter[\"speed\"] = self._Get_a_n(self.problemType)"),
        ("weakforms_v_saved_as_u", R + "Simulations/_weakforms.py", "            iter[\"u\"] = self.u\n            iter[\"v\"] = self.v\n\n        elif", "            iter[\"u\"] = self.u\n            iter[\"v\"] = self.u\n\n        elif"),
    ],
    "C16": [
        ("phasefield_counters_set_by_solve_only", R + "Simulations/_phasefield.py", "        self.__Niter = 0\n        self.__convIter = 0.0\n        self.__timeIter = 0.0\n", "        pass\n"),
        ("elastic_vy_reads_vx", R + "Simulations/_elastic.py", "        elif result in [\"vx\", \"vy\", \"vz\"]:\n            values_n = self.speed.reshape(Nn, -1)\n            values = values_n[:, self.__indexResult(result)]", "        elif result in [\"vx\", \"vy\", \"vz\"]:\n            values_n = self.speed.reshape(Nn, -1)\n            values = values_n[:, min(self.__indexResult(result), 0)]"),
        ("elastic_accel_norm_of_speed", R + "Simulations/_elastic.py", "        elif result == \"accel_norm\":\n            val_n = self.accel.reshape(Nn, -1)", "        elif result == \"accel_norm\":\n            val_n = self.speed.reshape(Nn, -1)"),
        ("vm3d_shear_factor", MUT, "                    + 6 * (xy**2 + yz**2 + xz**2)", "                    + 3 * (xy**2 + yz**2 + xz**2)"),
        ("vm2d_sign", MUT, "            vm = np.sqrt(xx**2 + yy**2 - xx * yy + 3 * xy**2)", "            vm = np.sqrt(xx**2 + yy**2 + xx * yy + 3 * xy**2)"),
        ("component_xz_yz_swapped", MUT, "        elif \"yz\" in result:\n            result_e_pg = yz\n        elif \"xz\" in result:\n            result_e_pg = xz", "        elif \"yz\" in result:\n            result_e_pg = xz\n        elif \"xz\" in result:\n            result_e_pg = yz"),
        ("mandel_coef_not_removed_3d", MUT, "        field_e_pg[:, :, 3:] *= 1 / coef", "        field_e_pg[:, :, 4:] *= 1 / coef"),
        ("node_values_divides_by_all_elements", MESH, "            values_n = (connect_n_e @ values_e) * 1 / elements_n", "            values_n = (connect_n_e @ values_e) * 1 / np.maximum(elements_n, 2)"),
        ("element_values_first_group_only", SIMU, "                values_n = values.reshape(Nn, -1)\n                values_e = np.concatenate(\n                    [\n                        np.mean(values_n[groupElem.connect], axis=1)\n                        for groupElem in mesh.Get_list_groupElem(mesh.dim)\n                    ]\n                )\n                return values_e.reshape(-1 if is1d else (Ne, -1))", "                values_n = values.reshape(Nn, -1)\n                values_e = np.concatenate(\n                    [\n                        np.mean(values_n[groupElem.connect[:, : groupElem.nbCorners]], axis=1)\n                        for groupElem in mesh.Get_list_groupElem(mesh.dim)\n                    ]\n                )\n                return values_e.reshape(-1 if is1d else (Ne, -1))"),
        ("wdef_not_halved_thickness", R + "Simulations/_elastic.py", "            values = self._Calc_Psi_Elas(returnScalar=False)\n            onNodes = False", "            values = self._Calc_Psi_Elas(returnScalar=False, matrixType=MatrixType.mass)\n            onNodes = False"),
        ("reaction_drops_damping", SIMU, "        elif self.algo in AlgoType.Get_Hyperbolic_Types():\n            reaction[dofs] += C[dofs] @ self._Get_v_n(problemType)\n            reaction[dofs] += M[dofs] @ self._Get_a_n(problemType)", "        elif self.algo in AlgoType.Get_Hyperbolic_Types():\n            reaction[dofs] += M[dofs] @ self._Get_a_n(problemType)"),
        ("thermal_dot_reads_thermal", R + "Simulations/_thermal.py", "        elif result == \"thermalDot\":\n            values = self.thermalDot", "        elif result == \"thermalDot\":\n            values = self.thermal"),
        ("beam_cz_index", R + "Simulations/_beam.py", "            if dim == 2:\n                return 2\n            elif dim == 3:\n                return 5\n            else:\n                raise ValueError(\"result error\")\n        elif result == \"N\":", "            if dim == 2:\n                return 2\n            elif dim == 3:\n                return 4\n            else:\n                raise ValueError(\"result error\")\n        elif result == \"N\":"),
        ("phasefield_stress_undamaged", R + "Simulations/_phasefield.py", "                    self._Calc_Sigma_e_pg(Eps, groupElem=groupElem) if isStress else Eps", "                    self._Calc_Sigma_e_pg(Eps, groupElem=groupElem) if isStress and \"vm\" not in res else Eps"),
        ("inelastic_p_unaveraged", R + "Simulations/_inelastic.py", "                self.__Get_state(groupElem, MatrixType.rigi)[..., slot.start], axis=1", "                self.__Get_state(groupElem, MatrixType.rigi)[..., slot.start][:, :1], axis=1"),
        ("hyperelastic_exy_index", R + "Simulations/_hyperelastic.py", "            values_n = self.accel.reshape(Nn, -1)\n            values = values_n[:, self.__indexResult(result)]", "            values_n = self.speed.reshape(Nn, -1)\n            values = values_n[:, self.__indexResult(result)]"),
    ],
    "C17": [
        ("amor_dev_uses_3", R + "Models/_phasefield.py", "            np.eye(IxI.shape[0]) - 1 / dim * IxI\n        )\n        cM_e_pg = bulk * (Rm_e_pg * IxI)", "            np.eye(IxI.shape[0]) - 1 / 3 * IxI\n        )\n        cM_e_pg = bulk * (Rm_e_pg * IxI)"),
        ("miehe_cM_uses_projP", R + "Models/_phasefield.py", "            cM_e_pg = lamb * (Rm_e_pg * IxI) + 2 * mu * projM_e_pg", "            cM_e_pg = lamb * (Rm_e_pg * IxI) + 2 * mu * (projM_e_pg + 1e-6 * projP_e_pg)"),
        ("miehe_trace_sign", R + "Models/_phasefield.py", "            cP_e_pg = lamb * (Rp_e_pg * IxI) + 2 * mu * projP_e_pg\n            cM_e_pg = lamb * (Rm_e_pg * IxI) + 2 * mu * projM_e_pg", "            cP_e_pg = lamb * (Rm_e_pg * IxI) + 2 * mu * projP_e_pg\n            cM_e_pg = lamb * (Rp_e_pg * IxI) + 2 * mu * projM_e_pg"),
        ("stress_plane_strain_coef", R + "Models/_phasefield.py", "                    sP_e_pg = ((1 + v) / E * projP_e_pg) - (\n                        v * (1 + v) / E * Rp_e_pg * IxI\n                    )", "                    sP_e_pg = ((1 + v) / E * projP_e_pg) - (\n                        v / E * Rp_e_pg * IxI\n                    )"),
        ("nocross_keeps_cross", R + "Models/_phasefield.py", "            elif self.split == self.SplitType.AnisotStrain_NoCross:\n                cP_e_pg = Cpp\n                cM_e_pg = Cmm + Cpm + Cmp", "            elif self.split == self.SplitType.AnisotStrain_NoCross:\n                cP_e_pg = Cpp + Cpm\n                cM_e_pg = Cmm + Cmp"),
        ("he_projector_transform_inverted", R + "Models/_phasefield.py", "        projP_e_pg = inv_sqrtC @ projPt_e_pg @ sqrtC\n        projM_e_pg = inv_sqrtC @ projMt_e_pg @ sqrtC", "        projP_e_pg = sqrtC @ projPt_e_pg @ inv_sqrtC\n        projM_e_pg = sqrtC @ projMt_e_pg @ inv_sqrtC"),
        ("eigen2d_per_element", R + "Models/_phasefield.py", "                M1[elems, pdgs] = m1_tot[elems, pdgs]", "                M1[elems] = m1_tot[elems]"),
        ("eigen3d_no_repeated_fallback", R + "Models/_phasefield.py", "            repeated = gap**2 * sqrt_g_e_pg <= 1e-6 * frobenius**3", "            repeated = frobenius == 0"),
        ("eigen3d_m3_uses_first_vector", R + "Models/_phasefield.py", "                M3[repeated] = vects[:, :, 2, None] * vects[:, None, :, 2]", "                M3[repeated] = vects[:, :, 1, None] * vects[:, None, :, 1]"),
        ("history_not_enforced", R + "Simulations/_phasefield.py", "            psiP_e_pg[elements, gaussPoints] = old_psiPlus_e_pg[elements, gaussPoints]", "            psiP_e_pg[elements, gaussPoints] = 0.5 * (psiP_e_pg + old_psiPlus_e_pg)[elements, gaussPoints]"),
        ("historydamage_not_stored", R + "Simulations/_phasefield.py", "            self._Set_solutions(self.ProblemTypes.damage, d_np1)\n            self.__updatedDisplacement = False\n", ""),
        ("history_single_buffer", R + "Simulations/_phasefield.py", "            old_psiPlus_e_pg = self.__old_psiP_e_pg.get(groupElem.elemType)", "            old_psiPlus_e_pg = next(iter(self.__old_psiP_e_pg.values()), None)"),
        ("at1_source_not_clamped", R + "Models/_phasefield.py", "            absF = np.abs(f)\n            f = (f + absF) / 2", "            absF = np.abs(f)\n            f = (f + absF * (self.solver != self.SolverType.BoundConstrain)) / (2 - (self.solver == self.SolverType.BoundConstrain))"),
    ],
    "C18": [
        ("geometric_tangent_dropped_in_quadrature", R + "FEM/Operators/NonLinear.py", "        \"ep,epji,epjk,epkl->eil\", wJ_e_pg, B_t, d2Wde_quad, B_np1\n    ) + __geometric_tangent(wJ_e_pg, state_t, dWde_quad)", "        \"ep,epji,epjk,epkl->eil\", wJ_e_pg, B_t, d2Wde_quad, B_np1\n    ) + 0.5 * __geometric_tangent(wJ_e_pg, state_t, dWde_quad)"),
        ("pk2_thickness_on_residual_only", R + "FEM/Operators/NonLinear.py", "    if dim == 2:\n        thickness = material.thickness\n        tangent_e *= thickness\n        residual_e *= thickness\n\n    return __reorder_dofs(dim, nPe, tangent_e, residual_e)\n\n\ndef GonzalezStressTensor", "    if dim == 2:\n        thickness = material.thickness\n        residual_e *= thickness\n\n    return __reorder_dofs(dim, nPe, tangent_e, residual_e)\n\n\ndef GonzalezStressTensor"),
        ("follower_pressure_tangent_sign", R + "FEM/Operators/NonLinear.py", "    K_e[active] = -K_active\n    R_e[active] = F_active", "    K_e[active] = K_active\n    R_e[active] = F_active"),
        ("contact_tangent_ignores_active_set", R + "FEM/Operators/NonLinear.py", "    H_e_pg = (gap_e_pg < 0).astype(float)  # active-set indicator", "    H_e_pg = (gap_e_pg < 1e9).astype(float)  # active-set indicator"),
        ("kelvinvoigt_no_material_like_term", R + "FEM/Operators/NonLinear.py", "    Kgeo_e = thickness * (A_mat + A_geo)", "    Kgeo_e = thickness * (A_geo)"),
        ("midpoint_coefM", SIMU, "            coefK = 0.5\n            coefC = 1 / dt\n            coefM = 2 / dt**2", "            coefK = 0.5\n            coefC = 1 / dt\n            coefM = 4 / dt**2"),
        ("neohookean_d2W_term", R + "Models/HyperElastic/_laws.py", "        d2WdI3dI3 = 4 * I1 * K / (9 * I3 ** (7 / 3))\n\n        d2W = 4 * (dWdI1 * d2I1dC + dWdI3 * d2I3dC) + 4 * (\n            d2WdI1dI3 * TensorProd(dI1dC, dI3dC)\n            + d2WdI3dI1 * TensorProd(dI3dC, dI1dC)", "        d2WdI3dI3 = 4 * I1 * K / (9 * I3 ** (7 / 3))\n\n        d2W = 4 * (dWdI1 * d2I1dC + dWdI3 * d2I3dC) + 4 * (\n            d2WdI1dI3 * TensorProd(dI1dC, dI3dC)\n            + d2WdI3dI1 * TensorProd(dI1dC, dI3dC)"),
        ("mooney_W_constant", R + "Models/HyperElastic/_laws.py", "        W = K * (I1 / I3 ** (1 / 3) - 3)", "        W = K * (I1 / I3 ** (1 / 3) - 3) + 1e-3 * K"),
        ("state_F_transposed", R + "Models/HyperElastic/_state.py", "        F_e_pg = np.eye(3) + grad_e_pg\n", "        F_e_pg = np.eye(3) + grad_e_pg.T\n"),
    ],
    "C19": [
        ("bound_dgamma_dropped", R + "Models/InElastic/_behavior.py", "            u_e_pg[..., nz] = np.maximum(u_e_pg[..., nz], 0.0)", "            u_e_pg[..., nz] = u_e_pg[..., nz] * 1.0"),
        ("recall_sign", R + "Models/InElastic/_behavior.py", "                r_e_pg[..., B] = u_e_pg[..., B] - dG_e_pg * (\n                    N_e_pg - component.recall * z_e_pg[..., B]\n                )", "                r_e_pg[..., B] = u_e_pg[..., B] - dG_e_pg * (\n                    N_e_pg + component.recall * z_e_pg[..., B]\n                )"),
        ("jacobian_missing_hardening_slope", R + "Models/InElastic/_behavior.py", "            J_e_pg[..., nz, A.start] = -dR_e_pg", "            J_e_pg[..., nz, A.start] = -0.5 * dR_e_pg"),
        ("tangent_branch_term_dropped", R + "Models/InElastic/_behavior.py", "            C_alg = C_alg - branch.g * (\n                C_e_pg @ dudeps[..., layout.slots[f\"{Slot.eps_v}{i}\"], :]\n            )", "            C_alg = C_alg - 0.9 * branch.g * (\n                C_e_pg @ dudeps[..., layout.slots[f\"{Slot.eps_v}{i}\"], :]\n            )"),
        ("condense_symmetrised", R + "Models/InElastic/_behavior.py", "        return C_in - TensorProd(c_iz, c_zi) / c_zz", "        return C_in - TensorProd(c_iz, c_iz) / c_zz"),
        ("plane_stress_tol_loose", R + "Models/InElastic/_behavior.py", "    _planeStress_tol: float = 1e-8  # relative to the yield scale", "    _planeStress_tol: float = 1e-3  # relative to the yield scale"),
        ("spectral_plastic_strain_from_trial", R + "Models/InElastic/_behavior.py", "        z_e_pg[..., P] = eps6_e_pg - Cinv_e_pg @ res.sig", "        z_e_pg[..., P] = eps6_e_pg - Cinv_e_pg @ (0.999 * res.sig + 0.001 * sigTr_e_pg)"),
        ("integrate_writes_state", R + "Models/InElastic/_behavior.py", "        z_e_pg = (zOld_e_pg + u[..., :nz]).copy()", "        zOld_e_pg += u[..., :nz]\n        z_e_pg = zOld_e_pg"),
        ("simu_commits_on_assembly", R + "Simulations/_inelastic.py", "            self.__z[groupElem.elemType] = z_e_pg\n", "            self.__z[groupElem.elemType] = z_e_pg\n            self.__zOld[groupElem.elemType] = z_e_pg\n"),
        ("druckerprager_normal_no_pressure_term", R + "Models/InElastic/Yield.py", "        return _Normal_J2(sig_e_pg) + eta * _kelvin.ONE", "        return _Normal_J2(sig_e_pg) + 0.5 * eta * _kelvin.ONE"),
        ("voce_slope", R + "Models/InElastic/IsotropicHardening.py", "        lambda p: Q * b * np.exp(-b * p),", "        lambda p: Q * b * np.exp(-b * p) * 0.8,"),
        ("viscoelastic_rate_sign", R + "Models/InElastic/_behavior.py", "            r_e_pg[..., slot] = u_e_pg[..., slot] - (dt / branch.tau) * (\n                eel_e_pg - z_e_pg[..., slot]\n            )", "            r_e_pg[..., slot] = u_e_pg[..., slot] + (dt / branch.tau) * (\n                eel_e_pg - z_e_pg[..., slot]\n            )"),
    ],
    "C20": [
        ("ghost_search_own_type_nodes_only", R + "FEM/_mesher.py", "            nodes_arr = np.array(list(dict_rank_nodes[rank]), dtype=int)", "            nodes_arr = np.array(list(nodes), dtype=int)"),
        ("ghost_search_vertices_only", R + "FEM/_mesher.py", "                mask = np.isin(other_connect, nodes_arr).any(axis=1)", "                mask = np.isin(other_connect[:, : max(other_connect.shape[1] // 2, 1)], nodes_arr).any(axis=1)"),
        ("ghost_elements_not_recorded", R + "FEM/_mesher.py", "                elements[idx_r], nodes_arr, rank, elements[list(ghost_idx)]", "                elements[idx_r], nodes_arr, rank, elements[list(ghost_idx)][:-1]"),
        ("node_claimed_twice", R + "FEM/_mesher.py", "                *(dict_rank_nodes[r] for r in range(Nproc) if r != rank)", "                *(dict_rank_nodes[r] for r in range(Nproc) if r < rank)"),
        ("partition_data_unsorted", GE, "        elements = np.sort(np.asarray(elements, dtype=int))", "        elements = np.asarray(elements, dtype=int)"),
        ("merge_not_transitive", MESH, "                _, labels = connected_components(graph, directed=False)", "                labels = np.arange(N)\n                labels[pairs[:, 1]] = labels[pairs[:, 0]]\n                labels = np.unique(labels, return_inverse=True)[1]"),
        ("merge_mapping_offset", MESH, "            mapping = [old_to_new[off : off + s] for off, s in zip(offsets, sizes)]", "            mapping = [old_to_new[off : off + s] for off, s in zip(offsets[::-1], sizes)]"),
        ("merge_keeps_duplicate_elements", MESH, "                _, unique_idx = np.unique(connect_view, return_index=True)\n                connect = connect[unique_idx]", "                _, unique_idx = np.unique(connect_view[: len(connect_view) // 2 + 1], return_index=True)\n                connect = np.vstack([connect[unique_idx], connect[len(connect_view) // 2 + 1 :]])"),
        ("owned_nodes_first_group_only", MESH, "        return np.unique(\n            np.concatenate(\n                [groupElem._Get_partitioned_data()[3] for groupElem in list_groupElem]\n            )\n        )", "        return list_groupElem[0]._Get_partitioned_data()[3]"),
    ],
}


def run(cmd):
    return subprocess.run(cmd, capture_output=True, text=True, cwd="/repo")


def main():
    want = [a.upper() for a in sys.argv[1:]] or list(SPECS)
    if run(["git", "diff", "--quiet"]).returncode != 0:
        sys.exit("/repo is dirty")
    for prop in want:
        os.makedirs(f"/verif/mutants/{prop}", exist_ok=True)
        for name, path, old, new in SPECS[prop]:
            s = open(path).read()
            n = s.count(old)
            if n != 1:
                print(f"!! {prop}/{name}: anchor occurs {n} times in {path}")
                continue
            open(path, "w").write(s.replace(old, new))
            d = run(["git", "diff"]).stdout
            run(["git", "checkout", "--", "."])
            open(f"/verif/mutants/{prop}/{name}.diff", "w").write(d)
            print(f"ok {prop}/{name}")


if __name__ == "__main__":
    main()
