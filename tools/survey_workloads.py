#!/usr/bin/env python3
"""Maintenance helper (never used at check time): runs every example script of /repo/examples, copied to a scratch directory,
headless, under the global monitors named in MONS (default: all) with a time cap per script, and prints what each monitor saw.
Used to admit a monitor to the 'suite' workloads (DESIGN 3.4): it has to be silent here and over the repository's tests
(`cd /repo && VERIFMON_MONITORS=... VERIFMON_OUT=/tmp/x/t PYTHONPATH=/verif:/verif/.deps /venv/bin/python -m pytest -p no:cacheprovider
-p verifmon.monitors.plugin -n 6 tests --deselect tests/Utilities`).

usage: MONS=stale,perturb tools/survey_workloads.py [cap seconds] [glob under examples, default */*.py]"""
import glob
import json
import os
import shutil
import signal
import subprocess
import sys
import tempfile
import time
from concurrent.futures import ThreadPoolExecutor

ROOT = os.path.dirname(os.path.dirname(os.path.abspath(__file__)))
cap = float(sys.argv[1]) if len(sys.argv) > 1 else 120
pattern = sys.argv[2] if len(sys.argv) > 2 else "**/*.py"
mons = os.environ.get("MONS", "law,assembly,bc,timestep,integrate,fearray,phasefield,location,history,stale")
root = tempfile.mkdtemp(prefix="survey-")
shutil.copytree("/repo/examples", root + "/examples")
os.makedirs(root + "/out")
scripts = sorted(glob.glob(root + "/examples/" + pattern, recursive=True))
env = dict(os.environ, PYTHONPATH=f"{ROOT}:{ROOT}/.deps", VERIFMON_MONITORS=mons, MPLBACKEND="Agg")


def run(s):
    name = os.path.relpath(s, root + "/examples").replace("/", "__")
    e = dict(env, VERIFMON_OUT=f"{root}/out/{name}")
    t = time.time()
    p = subprocess.Popen(["/venv/bin/python", "-m", "verifmon.monitors.runscript", s], cwd=os.path.dirname(s), env=e, stdout=subprocess.DEVNULL, stderr=subprocess.DEVNULL)
    try:
        p.wait(cap)
        st = f"exit{p.returncode}"
    except subprocess.TimeoutExpired:
        p.send_signal(signal.SIGTERM)
        try:
            p.wait(20)
            st = "capped"
        except subprocess.TimeoutExpired:
            p.kill()
            p.wait()
            st = "killed"
    return name, st, round(time.time() - t, 1)


try:
    with ThreadPoolExecutor(6) as ex:
        res = list(ex.map(run, scripts))
    agg = {}
    for name, st, t in res:
        info = ""
        for f in glob.glob(f"{root}/out/{name}.*.json"):
            d = json.load(open(f))
            n = sum(r["n"] for r in d["records"].values())
            nf = sum(r["failed"] for r in d["records"].values())
            status = [e for e in d["monitor_errors"] if e.startswith("script-status")]
            merr = [e for e in d["monitor_errors"] if not e.startswith("script-status")]
            info = f"evaluations={n} failed={nf} {status} monitor_errors={merr[:2]}"
            for k, r in d["records"].items():
                a = agg.setdefault(k, {"n": 0, "failed": 0, "worst": 0.0, "w": []})
                a["n"] += r["n"]
                a["failed"] += r["failed"]
                a["worst"] = max(a["worst"], r["worst"])
                a["w"] += r["witness"][:1]
        print(f"{name:60s} {st:8s} {t:6.1f}s {info}")
    print()
    for k, a in sorted(agg.items()):
        print(f"{k:70s} n={a['n']:7d} failed={a['failed']} worst={a['worst']:.2e}", a["w"][:1] if a["failed"] else "")
finally:
    shutil.rmtree(root, ignore_errors=True)
