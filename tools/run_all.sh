#!/bin/bash
# usage: tools/run_all.sh [tier] [seed]   — runs every claimed check, prints one line per property with the exit code.
cd /verif
T="${1:-quick}"; S="${2:-0}"
for p in $(python3 -c "import json;print(' '.join(c['property_id'] for c in json.load(open('MANIFEST.json'))['checks']))"); do
  out=$(VERIF_SEED=$S ./check $p --tier $T 2>&1); rc=$?
  echo "$p rc=$rc $(echo "$out" | grep -E "^\[$p\]" | sed 's/.*cases=/cases=/')"
  [ $rc -ne 0 ] && echo "$out" | grep -E "VIOLATION|INCONCLUSIVE" | cut -c1-220 | head -5
done
