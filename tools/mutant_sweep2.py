#!/usr/bin/env python3
"""Maintenance helper: run mutants in parallel in scratch worktrees (never touches /repo).
usage: mutant_sweep2.py [--tier quick] [--jobs 6] [Cxx ... | Cxx/name ...]
Each worker owns a worktree /tmp/mut_w<i> at /repo's HEAD; a mutant is applied there, the property's check runs with
VERIF_REPO=<worktree> and its own replay directory, the worktree is reverted. Results are merged into mutants/results-<tier>.tsv."""
import glob, os, subprocess, sys
from concurrent.futures import ThreadPoolExecutor
from queue import Queue

args = sys.argv[1:]
tier, jobs = "quick", 6
sel = []
while args:
    a = args.pop(0)
    if a == "--tier":
        tier = args.pop(0)
    elif a == "--jobs":
        jobs = int(args.pop(0))
    else:
        sel.append(a)
todo = []
for s in sel or sorted(d for d in os.listdir("/verif/mutants") if d.startswith("C")):
    if "/" in s:
        todo.append((s.split("/")[0], f"/verif/mutants/{s}.diff"))
    else:
        todo += [(s, m) for m in sorted(glob.glob(f"/verif/mutants/{s}/*.diff"))]
head = subprocess.run("git -C /repo rev-parse HEAD", shell=True, capture_output=True, text=True).stdout.strip()
workers = Queue()
for i in range(jobs):
    wt = f"/tmp/mut_w{i}"
    if not os.path.isdir(wt):
        subprocess.run(f"git -C /repo worktree add --detach {wt} HEAD", shell=True, capture_output=True)
    subprocess.run(f"git -C {wt} checkout -q -- . && git -C {wt} checkout -q --detach {head}", shell=True, capture_output=True)
    workers.put(wt)


def one(job):
    prop, diff = job
    wt = workers.get()
    try:
        name = os.path.basename(diff)[:-5]
        ap = subprocess.run(["git", "apply", diff], cwd=wt, capture_output=True, text=True)
        if ap.returncode != 0:
            return prop, name, 0, "exit=9(patch-does-not-apply)"
        env = dict(os.environ, VERIF_REPO=wt, VERIF_REPLAYS=wt + "/.replays")
        c = subprocess.run(["./check", prop, "--tier", tier, "--no-evidence"], cwd="/verif", env=env, capture_output=True, text=True, timeout=6000)
        return prop, name, int(c.returncode == 1 and "VIOLATION" in c.stdout), f"exit={c.returncode}"
    finally:
        subprocess.run("git checkout -q -- . && rm -rf .replays", cwd=wt, shell=True)
        workers.put(wt)


rows = {}
out = f"/verif/mutants/results-{tier}.tsv"
if os.path.exists(out):
    for l in open(out):
        p = l.rstrip("\n").split("\t")
        if len(p) >= 3:
            rows[(p[0], p[1])] = l.rstrip("\n")
with ThreadPoolExecutor(jobs) as ex:
    for prop, name, caught, status in ex.map(one, todo):
        print(prop, name, caught, status, flush=True)
        rows[(prop, name)] = f"{prop}\t{name}\t{caught}\t{status}"
open(out, "w").write("\n".join(rows[k] for k in sorted(rows)) + "\n")
for i in range(jobs):
    subprocess.run(f"git -C /repo worktree remove --force /tmp/mut_w{i}", shell=True, capture_output=True)
missed = [k for k, v in rows.items() if v.split("\t")[2] != "1"]
print(f"{len(rows)} mutants in the table, {len(missed)} not reported: {missed}")
