#!/usr/bin/env python3
"""Maintenance helper: confirm a breaking change written by a sub-agent and run our check on it, WITHOUT touching /repo.

usage: seed_eval2.py <Cxx> <letter> [--recheck] [tier ...]
Reads /tmp/seed_<Cxx>/seed_<X>/{patch.diff,demo.py,notes.md} (scratch worktree /tmp/seed_<Cxx>, first moved to /repo's HEAD);
writes /verif/seeded/<Cxx>_<X>/.  Steps, all inside the scratch worktree: demo passes on the clean tree; patch applies; demo
fails with it; the repository's tests (minus tests/Utilities, which need absent packages) pass with it; then
`VERIF_REPO=<worktree> ./check <Cxx> --tier ...` (the monitors import EasyFEA from the worktree) until a tier reports a violation;
the worktree is reverted afterwards.  --recheck: skip the confirmation, re-run the check only (patch taken from /verif/seeded)."""
import json, os, shutil, subprocess, sys

args = [a for a in sys.argv[1:] if not a.startswith("--")]
recheck = "--recheck" in sys.argv
prop, which = args[0], args[1]
tiers = args[2:] or ["quick"]
wt = f"/tmp/seed_{prop}"
sd = f"{wt}/seed_{which}"
out = f"/verif/seeded/{prop}_{which}"
env = dict(os.environ, PYTHONPATH=wt, MPLBACKEND="Agg")
env.pop("VERIF_REPO", None)


def run(cmd, cwd=wt, timeout=5000, env=env):
    return subprocess.run(cmd, cwd=cwd, env=env, capture_output=True, text=True, timeout=timeout, shell=isinstance(cmd, str))


head = subprocess.run("git rev-parse HEAD", cwd="/repo", shell=True, capture_output=True, text=True).stdout.strip()
if not os.path.isdir(wt):
    assert run(f"git -C /repo worktree add --detach {wt} HEAD", cwd="/").returncode == 0
assert run("git status --porcelain EasyFEA").stdout.strip() == "", "scratch worktree not clean"
if run("git rev-parse HEAD").stdout.strip() != head:
    assert run(f"git checkout -q --detach {head}").returncode == 0, "cannot move the scratch worktree to /repo's HEAD"

if recheck:
    meta = json.load(open(f"{out}/meta.json"))
    meta.setdefault("history", []).append({"caught_by": meta.get("caught_by"), "check_results": meta.get("check_results")})
    patch = f"{out}/patch.diff"
else:
    meta = {"property": prop, "seed": which, "repo_head": head[:7]}
    patch = f"{sd}/patch.diff"
    r0 = run(["/venv/bin/python", f"seed_{which}/demo.py"])
    meta["demo_clean_exit"] = r0.returncode
ap = run(["git", "apply", patch])
if ap.returncode != 0:
    ap = run(["git", "apply", "--3way", patch])
    run("git reset -q")
meta["applies_to_repo_head"] = ap.returncode == 0
if ap.returncode != 0:
    meta["confirmed"] = False
    print(json.dumps(meta, indent=1), ap.stderr[-400:])
    run("git checkout -- EasyFEA")
    sys.exit(1)
try:
    if not recheck:
        r1 = run(["/venv/bin/python", f"seed_{which}/demo.py"])
        meta["demo_patched_exit"] = r1.returncode
        meta["demo_patched_tail"] = (r1.stdout + r1.stderr)[-400:]
        t = run("/venv/bin/python -m pytest -q -p no:cacheprovider -n 4 --timeout=1800 --deselect tests/Utilities 2>&1 | tail -3")
        meta["tests_with_patch"] = t.stdout.strip().splitlines()[-1] if t.stdout.strip() else "?"
        ok = meta["demo_clean_exit"] == 0 and meta["demo_patched_exit"] != 0 and "failed" not in meta["tests_with_patch"] and "passed" in meta["tests_with_patch"]
        meta["confirmed"] = ok
        if not ok:
            print(json.dumps(meta, indent=1))
            sys.exit(1)
        os.makedirs(out, exist_ok=True)
        # the patch is stored as it applies to /repo's HEAD now
        open(f"{out}/patch.diff", "w").write(run("git diff -- EasyFEA").stdout)
        for f in ("demo.py", "notes.md", "observations.md"):
            if os.path.exists(f"{sd}/{f}"):
                shutil.copy(f"{sd}/{f}", f"{out}/{f}")
    results = {}
    cenv = dict(os.environ, VERIF_REPO=wt)
    for tier in tiers:
        c = subprocess.run(["./check", prop, "--tier", tier, "--no-evidence"], cwd="/verif", env=cenv, capture_output=True, text=True, timeout=5000)
        viol = [l.split("# key=")[1][:160] for l in c.stdout.splitlines() if l.startswith("VIOLATION") and "# key=" in l]
        results[tier] = {"exit": c.returncode, "violations": viol[:6], "n_violation_keys": len(viol)}
        if c.returncode == 2:
            results[tier]["inconclusive"] = [l[:300] for l in c.stdout.splitlines() if l.startswith("INCONCLUSIVE")][:2]
        if c.returncode == 1:
            break
finally:
    run("git checkout -- EasyFEA")
meta["check_results"] = results
meta["caught_by"] = next((t for t, r in results.items() if r["exit"] == 1), None)
meta["evaluated_with"] = "tools/seed_eval2.py (scratch worktree at /repo HEAD, VERIF_REPO)"
json.dump(meta, open(f"{out}/meta.json", "w"), indent=1)
print(prop, which, "caught_by:", meta["caught_by"], json.dumps(results)[:500])
