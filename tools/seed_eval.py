#!/usr/bin/env python3
"""Maintenance helper: verify a seeded breaking change produced by a sub-agent and run our checks on it.

usage: seed_eval.py <Cxx> <A|B> [tier ...]   (reads /tmp/seed_<Cxx>/seed_<X>; writes /verif/seeded/<Cxx>_<X>/)
Steps: (1) in the scratch worktree: demo passes on clean tree, fails with the patch, repository tests (minus tests/Utilities)
pass with the patch; (2) apply the patch to /repo, run ./check <Cxx> for each tier until one reports a violation, revert."""
import json, os, shutil, subprocess, sys

prop, which = sys.argv[1], sys.argv[2]
tiers = sys.argv[3:] or ["quick", "thorough"]
wt = f"/tmp/seed_{prop}"
sd = f"{wt}/seed_{which}"
out = f"/verif/seeded/{prop}_{which}"
env = dict(os.environ, PYTHONPATH=wt, MPLBACKEND="Agg")


def run(cmd, cwd=wt, timeout=3000, env=env):
    return subprocess.run(cmd, cwd=cwd, env=env, capture_output=True, text=True, timeout=timeout, shell=isinstance(cmd, str))


meta = {"property": prop, "seed": which}
if os.path.exists(f"{out}/meta.json") and json.load(open(f"{out}/meta.json")).get("confirmed"):
    meta = json.load(open(f"{out}/meta.json"))
    meta.setdefault("history", []).append({"caught_by": meta.get("caught_by"), "check_results": meta.get("check_results")})
    RECHECK = True
else:
    RECHECK = False
if not RECHECK:
  assert run("git status --porcelain EasyFEA").stdout.strip() == "", "scratch worktree not clean"
if not RECHECK:
  r0 = run(["/venv/bin/python", f"seed_{which}/demo.py"])
  meta["demo_clean_exit"] = r0.returncode
  assert run(["git", "apply", f"seed_{which}/patch.diff"]).returncode == 0, "patch does not apply in scratch worktree"
  try:
      r1 = run(["/venv/bin/python", f"seed_{which}/demo.py"])
      meta["demo_patched_exit"] = r1.returncode
      meta["demo_patched_tail"] = (r1.stdout + r1.stderr)[-400:]
      t = run("/venv/bin/python -m pytest -q -p no:cacheprovider -n 12 --timeout=900 --deselect tests/Utilities 2>&1 | tail -3")
      meta["tests_with_patch"] = t.stdout.strip().splitlines()[-1] if t.stdout.strip() else "?"
  finally:
      run("git checkout -- EasyFEA")
  ok = meta["demo_clean_exit"] == 0 and meta["demo_patched_exit"] != 0 and "failed" not in meta["tests_with_patch"] and "passed" in meta["tests_with_patch"]
  meta["confirmed"] = ok
  print(json.dumps(meta, indent=1))
  if not ok:
      sys.exit(1)
  os.makedirs(out, exist_ok=True)
  for f in ("patch.diff", "demo.py", "notes.md"):
      if os.path.exists(f"{sd}/{f}"):
          shutil.copy(f"{sd}/{f}", f"{out}/{f}")
# ---- our checks against the change ---------------------------------------------------------------
assert subprocess.run("git diff --quiet", cwd="/repo", shell=True).returncode == 0, "/repo dirty"
ap = subprocess.run(["git", "apply", f"{out}/patch.diff"], cwd="/repo", capture_output=True, text=True)
meta["applies_to_repo_head"] = ap.returncode == 0
results = {}
if ap.returncode == 0:
    try:
        for tier in tiers:
            c = subprocess.run(["./check", prop, "--tier", tier, "--no-evidence"], cwd="/verif", capture_output=True, text=True, timeout=3000)
            viol = [l.split("# key=")[1][:160] for l in c.stdout.splitlines() if l.startswith("VIOLATION") and "# key=" in l]
            results[tier] = {"exit": c.returncode, "violations": viol[:6], "n_violation_keys": len(viol)}
            if c.returncode == 1:
                break
    finally:
        subprocess.run("git checkout -- .", cwd="/repo", shell=True)
meta["check_results"] = results
meta["caught_by"] = next((t for t, r in results.items() if r["exit"] == 1), None)
json.dump(meta, open(f"{out}/meta.json", "w"), indent=1)
print("caught_by:", meta["caught_by"], json.dumps(results)[:600])
