#!/usr/bin/env python3
"""Maintenance helper (never used at check time): add an entry to known_findings.json.
usage: kf.py <property> <key> <open|fixed> <commit|-> <summary> [witness]"""
import json, sys
p = "/verif/known_findings.json"
d = json.load(open(p))
prop, key, status, commit, summary = sys.argv[1:6]
wit = sys.argv[6] if len(sys.argv) > 6 else ""
d["findings"] = [e for e in d["findings"] if not (e["property"] == prop and e["key"] == key)]
e = {"property": prop, "key": key, "status": status}
if commit != "-":
    e["commit"] = commit
e["summary"] = (f"fixed: property={prop} {commit} " if status == "fixed" else "") + summary
e["witness"] = wit
d["findings"].append(e)
json.dump(d, open(p, "w"), indent=1)
