#!/bin/bash
# usage: tools/mutant_sweep.sh [tier] [Cxx ...]  — runs every mutant of the given properties (default: all) against its property's check;
# merges into mutants/results-<tier>.tsv (rows of properties not re-run are kept)
# writes mutants/results-<tier>.tsv (property, mutant, caught = 1 when the check exits 1 with a VIOLATION line).
cd /verif
T="${1:-quick}"; shift
PROPS="${@:-$(ls mutants | grep '^C')}"
OUT=mutants/results-$T.tsv
touch $OUT
for c in $PROPS; do
  for m in mutants/$c/*.diff; do
    n=$(basename $m .diff)
    out=$(bash tools/mutant.sh $m $c $T 2>&1)
    rc=$(echo "$out" | grep -o "exit=[0-9]*" | cut -d= -f2)
    v=$(echo "$out" | grep -c VIOLATION)
    echo -e "$c\t$n\t$([ "$rc" = "1" ] && echo 1 || echo 0)\texit=$rc" | tee -a $OUT
  done
done
# keep the last result per (property, mutant); rows of mutants that were not re-run stay
python3 - "$OUT" <<'PY'
import sys
rows = {}
for l in open(sys.argv[1]):
    p = l.rstrip("\n").split("\t")
    if len(p) >= 3:
        rows[(p[0], p[1])] = l.rstrip("\n")
open(sys.argv[1], "w").write("\n".join(rows[k] for k in sorted(rows)) + "\n")
PY
