#!/bin/bash
# usage: tools/mutant_sweep.sh [tier] [Cxx ...]  — runs every mutant of the given properties (default: all) against its property's check;
# writes mutants/results-<tier>.tsv (property, mutant, caught = 1 when the check exits 1 with a VIOLATION line).
cd /verif
T="${1:-quick}"; shift
PROPS="${@:-$(ls mutants | grep '^C')}"
OUT=mutants/results-$T.tsv
: > $OUT
for c in $PROPS; do
  for m in mutants/$c/*.diff; do
    n=$(basename $m .diff)
    out=$(bash tools/mutant.sh $m $c $T 2>&1)
    rc=$(echo "$out" | grep -o "exit=[0-9]*" | cut -d= -f2)
    v=$(echo "$out" | grep -c VIOLATION)
    echo -e "$c\t$n\t$([ "$rc" = "1" ] && echo 1 || echo 0)\texit=$rc" | tee -a $OUT
  done
done
