#!/usr/bin/env python3
"""Maintenance helper: print the source lines of a property's anchored functions that the last run (evidence file) did not execute.
usage: PYTHONPATH=/verif:/verif/.deps /venv/bin/python tools/missed_lines.py Cxx [label ...]"""
import dis, importlib, json, linecache, sys
from verifmon.coverage import LineObserver

prop = sys.argv[1]
only = set(sys.argv[2:])
mod = importlib.import_module(f"verifmon.props.{prop.lower()}")
obs = LineObserver()
obs.watch_named(mod.anchors())
ev = json.load(open(f"/verif/evidence/{prop}.json"))["coverage"]["anchor_coverage"]
for code, label in obs.codes.items():
    if only and label not in only:
        continue
    lines = {ln for _, ln in dis.findlinestarts(code) if ln is not None} - {code.co_firstlineno}
    miss = sorted(set(ev.get(label, {}).get("lines_missed", lines)) & lines)
    if miss:
        print(f"== {label}  {code.co_filename}:{code.co_firstlineno}  missed {len(miss)}/{len(lines)}")
        for ln in miss:
            print(f"   {ln}: {linecache.getline(code.co_filename, ln).rstrip()}")
