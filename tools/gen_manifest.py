#!/usr/bin/env python3
"""Regenerates /verif/MANIFEST.json from the table below (maintenance helper, not used at check time).
A property is claimed iff verifmon/props/cXX.py exists AND it has an entry in CLAIMS."""
import json
import os

ROOT = os.path.dirname(os.path.dirname(os.path.abspath(__file__)))

CLAIMS = {
    "C01": ("closed-form oracle (linear field, constant strain/stress/energy, analytic measure) on generated patch-test executions of the real Solve()/Result() pipeline: every element type, law, dimension, mesh class (unstructured, concave, organised, affine, reflected, renumbered, mixed groups) and beam theory",
            "trusts numpy/scipy/gmsh; meshes <= 400 elements; direct solver; beams along x (generic directions: C10)",
            "reference-model oracle at the Solve/Result boundary over seeded workloads"),
    "C02": ("dense eigen-decomposition of the assembled K, C, M restricted to used dofs: symmetry, PSD, exact kernel content and dimension against analytically built rigid modes, SPD mass, total mass against analytic / harness-side measures, for every element type incl. 1-4 element patches, beams at generic inclination, heterogeneous densities",
            "n <= 2500 dofs; zero threshold 1e-9*lambda_max; connected meshes",
            "reference-model oracle (dense spectrum + analytic rigid modes) at Get_K_C_M_F"),
    "C03": ("every Assembly() of real simulations of all seven types and of a harness-defined _Simu subclass with random element data (dof_n 1-6, complex, None slots, boundary and empty groups, Lagrange conditions, mesh replacement, cached-map reuse) is compared with a dense explicit-loop scatter-add of the dictionary captured during that very call; renumbered meshes give the permuted system and solution",
            "dense reference, Ndof <= 1500; tolerance 1e-11",
            "reference-model monitor installed on _Simu.Assembly (captures Construct_local_matrix_system output) + operation histories"),
    "C04": ("shadow model of generated boundary-condition programs (overlapping sets, dofs entered 1-3 times, constants/arrays/callables) checked against the solution returned by Solve(): constrained values, free-dof residual of the assembled system, orphan nodes, all installed back-ends (scipy, cg, bicg, gmres, lgmres, lsq_linear) judged by the residual they promise, Lagrange and beam-connection paths against an independent dense KKT solve, Newton-incremental solves with non-zero and repeated prescribed values",
            "direct 1e-9 / iterative 1e-4 relative residual; pypardiso/petsc not installed; dense KKT reference <= 600 dofs",
            "shadow-model oracle of the BC program + residual monitor at the Solve boundary"),
    "C05": ("every executed step of seeded step histories (all 7 algorithms, dt over 4 decades of the fundamental period, random alpha/beta/gamma, arbitrary prior states, switching algorithm and dt between steps, Elastic with Rayleigh damping, Thermal, Beam, WeakForms, ProbeSimu) is judged against an executable model of the documented schemes: corrector relations, discrete equation of motion at the evaluation point on free dofs, weights = derivatives of the evaluation states, evaluation states themselves; offline energy checker over undamped histories; Newton-incremental path against the direct one",
            "loads constant within a step; parameter ranges as accepted by the setters minus singular end points; energy verdict only when round-off leaves a 1e-6 margin",
            "reference-model oracle (executable time-scheme model) at Solve entry/exit + energy trace checker"),
    "C06": ("complete enumeration (exhaustive: true): every tabulated callable of the 19 Lagrange element types (N and derivative tables 1-4) and of the 4 Hermite families is executed on sympy symbols; the observed polynomials are compared coefficient-wise with the Kronecker property, partition of unity, reproduction of all monomials up to the element order and with the exact derivatives of the observed N; the evaluation path (Get_*_pg for every matrix type, physical gradients on random affine elements) is tied to the tables numerically",
            "coefficient tolerance 1e-9 relative; observations of executions of the real callables, not a proof about source text",
            "polynomial-ring execution of the real table callables (identity between polynomials) + evaluation-path monitor"),
    "C07": ("complete enumeration (exhaustive: true) of every tabulated rule x every monomial up to its documented degree against exact rational integrals (points inside, total weight, exactness; measured degree reported), of every (element type, matrix type) pair of the factory, plus seeded straight-sided meshes incl. general quads/hexas for measure, centroid, per-element measures and low-degree moments, and 1-4 element patches for the rank of the stiffness rule",
            "documented degrees transcribed from the docstrings at the pinned commit; tolerance 1e-12 relative to the reference measure",
            "reference-model oracle (exact rational monomial integrals, analytic polygon moments) on the real Gauss / Integrate_e callables"),
    "C08": ("analytic measure / centroid of generated polygons and extrusions before and after Translate / Rotate / Symmetry applied to the mesh object (generic angles, repeated), observer notification, connectivity unchanged; boundary normals: unit length, closure, flux of the position vector and per-face-class outwardness against the adjacent volume element, as meshed / mirrored / mirrored twice and rotated; embedded surfaces; point location singly and in batches (several points per element, batch size == dim, edge and node points) against polynomial nodal fields on simplices, affine images and general quads/hexas; Calc_projector on linear fields",
            "polynomial degree limited to what the element space contains on its geometry; general quads/hexas judged at 1e-6 (scipy least_squares default tolerance inside the inverse map)",
            "reference-model oracle (analytic geometry, polynomial fields) + pre/post invariant monitor on the mesh motions"),
    "C09": ("nodal load vectors produced by add_lineLoad / add_surfLoad / add_volumeLoad / add_pressureLoad / add_neumann and the Hermitian beam line load are observed through Bc_vector_Neumann and compared with exact integrals (force resultant and first moments about a random point) of polynomial densities given as constants, nodal arrays and callables, on straight edges, planar faces and whole domains of every element type, for every simulation type accepting the load, with stray nodes in the selection and random thickness",
            "density degree within the exactness of the element's mass rule; pressure judged by magnitude and collinearity (sign follows the C08 orientation finding)",
            "reference-model oracle (exact polynomial integrals) on the recorded Neumann vector"),
    "C10": ("twin execution: every generated problem (Elastic 2D/3D with all four laws and rotated material axes, Thermal incl. embedded surfaces and lines, HyperElastic, Beam EB/Timoshenko members and welded frames, static and one Newmark step) is solved together with its image under a random proper or improper rigid motion, built either from transformed arrays or by moving the mesh object; vectors must rotate, scalars and energies must not change, beam rotations transform as axial vectors; single cantilevers are also compared with the closed-form member response",
            "Dirichlet data on all components of constrained nodes; triclinic laws moved by proper rotations only; tolerance 1e-8 (1e-6 hyperelastic)",
            "twin-execution oracle (metamorphic relation between two real solutions) + closed-form member response"),
    "C11": ("every law class (Isotropic, TransverselyIsotropic, Orthotropic, Anisotropic) with seeded admissible moduli, default / orthonormal / unnormalised axes, homogeneous / per-element / per-Gauss-point parameters, 3D / plane stress / plane strain is compared with an independent tensor-algebra model (textbook compliance, full 4th-order rotation, plane reductions, Voigt<->Kelvin-Mandel scaling): SPD, C.S = I, reduction of the 3D law, notation and axis-length independence; Get_Pmat / Apply_Pmat against an independently built change-of-basis matrix; parameter-write sequences against fresh objects; Walpole decompositions",
            "relative tolerance 1e-10; constructor rejections by the law's own admissibility assertions are counted, not failed",
            "reference-model oracle (independent tensor algebra) at the C / S / Get_Pmat read boundary + fresh-twin comparison after writes"),
    "C12": ("every arithmetic operator, @, dot, ddot, .T, reducers (positive / negative / tuple axes, method and numpy-function form), Det / Inv / Trace / Transpose / TensorProd / Norm, einsum / where / linalg.solve / det / inv / eigh, ufunc out= / where= forms, reshape / integrate, FeArray.broadcast and Field objects on either side, for operands field / constant in every order and tensor ranks 0-4 on 14 shape classes (Ne == nPg == dim collisions, size-1 axes, controls), plus random expression trees of depth <= 4, is compared with an explicit double loop over (e, p) of plain numpy on plain slices; the result type is compared with the (Ne, nPg)-axes rule",
            "elementwise arithmetic between operands of equal rank or with a rank-0 operand; square tensor axes d in {1,2,3,4}",
            "reference-model oracle (explicit per-(e,p) loop) on executed FeArray expressions"),
    "C13": ("a grammar of user forms (diffusion, anisotropic and non-symmetric diffusion, scalar and vector advection, scalar and vector mass, isotropic elasticity in five algebraically equal spellings, scalar and vector sources), each in several spellings and with constant / per-element / per-Gauss-point / coordinate-dependent coefficients, is integrated with BiLinearForm / LinearForm.Integrate_e on every element type and both quadrature rules and compared with the built-in operator (or, for non-symmetric forms, with a first-principles einsum reference on the same shape-function tables); Assemble against the loop scatter-add; WeakForms simulations against the dedicated Thermal / Elastic ones (static, parabolic, hyperbolic) and against the analytic advection-diffusion solution",
            "groups <= 40 elements; same matrixType on both sides; time-dependent twins on element types where both rules integrate the stiffness exactly",
            "reference-model oracle (built-in operators / first-principles einsum / dedicated simulations) on executed user forms"),
    "C14": ("random histories of public mutations (model / material parameter writes incl. relative changes down to 1e-7, density, Rayleigh damping, Translate / Rotate / Symmetry, coordinate assignment, mesh replacement by another or by a same-connectivity mesh, Bc_Init + re-add, time-scheme switches, Save_Iter / Set_Iter across meshes, load-step commits of the non-linear kinds, a model shared by two simulations) are applied to one live simulation of every kind (Elastic iso / anisotropic, Thermal, Beam, WeakForms, PhaseField, HyperElastic static and dynamic, InElastic); after each mutation burst K, C, M, F, Solve, velocity and Svm of the live object are compared with a brand-new simulation built from the recorded final configuration; a mismatch only counts when a second twin perturbed by one unit of round-off agrees with the first (conditioning guard)",
            "sequences <= 22 operations; meshes <= ~60 elements; non-linear kinds are compared from the zero state and not after a committed load step until the mesh is replaced (internal variables cannot be handed to a new simulation through the public interface); beam meshes are not moved",
            "differential oracle (fresh-twin reference execution) over recorded mutation histories of live simulation objects"),
    "C15": ("a shadow history kept by the monitor (deep copies of every solution vector, every Results_Available() result in node and element form, mesh coordinates / connectivities / tags, the Get_results dict, plus a deep copy of the whole live object taken when the iteration was saved) is compared, over random interleavings of load step + Solve / Save_Iter / folder changes (two scratch folders and memory) / Set_Iter / Get_results / Result(iter=) / mesh replacement / writes into getter arrays / Save + Load_Simu (also re-saved elsewhere and moved to another folder) / Mesh.Save + Load_Mesh, with what the live or loaded object gives back: restored fields, mesh, results, purity of reads, immutability of stored iterations under later solves, and - for internal variables - the recorded next load step replayed from the restored object against the same step replayed from the deep copy",
            "histories <= 24 operations on meshes <= ~60 elements; the time scheme is fixed within a history; client writes into arrays returned by Get_results are not exercised; InElastic Save/Load is a recorded known finding (closures cannot be pickled)",
            "trace checker against a shadow history (deep-copied observations + reference continuation on a deep copy) over recorded save / restore histories"),
    "C16": ("every name of Results_Available() of every simulation kind (Elastic static / dynamic, Thermal, Beam EB / Timoshenko 1-3D, WeakForms dof_n 1-3, PhaseField, HyperElastic static / dynamic, InElastic with a committed plastic state) is requested in node and element form on states the harness wrote itself (mutually different random u, v, a; affine displacements) and held against a relation table: components and norms against the harness' own arrays; element form = mean over the element's nodes, node form = mean over the surrounding elements (recomputed from the connectivity, mixed-group meshes and hand-built grids whose node / element counts divide one another included); tensor components against the tensor result, per-Gauss-point fields, the closed-form strain of the affine state and C : strain; von Mises taken by the harness at every integration point then averaged; constants through the conversions; Wdef = u'Ku/2 = sum(Wdef_e); Calc_Reaction = K u + C v + M a on arbitrary states and the reaction / applied-load balance on equilibrium states (Newmark for the dynamic balance)",
            "meshes <= ~60 elements; 2-D equivalent stress = in-plane von Mises of the advertised 3-component tensor; error estimator (ZZ1), hyperelastic energy W and crack energy are only required to be finite, retrievable and convertible; beam section stresses are compared with the simulation's own Gauss-point field",
            "relation-table oracle evaluated at the Result() boundary on harness-written states"),
    "C17": ("states: strain arrays whose Gauss points mix, inside one element, zero / +-hydrostatic / +-uniaxial / two equal largest or smallest / pure shear / nearly repeated (gap 1e-14..1e-6) / generic tensors, axis-aligned and rotated, are given to Calc_C, Calc_Sigma_e_pg and Calc_psi_e_pg of all 14 splits (isotropic, transversely isotropic, orthotropic and fully anisotropic laws; plane stress, plane strain, 3-D) and compared with an independent numpy.linalg.eigh decomposition of the tensor each split decomposes: finiteness, sigma+ + sigma- = C:eps, C+ + C- = C, psi+ + psi- = eps:C:eps/2, the split's psi+ / psi- / sigma+ written from the positive parts, P+ v against the eigh positive part. histories: load / unload / reload / compression programs and load-free runs on small meshes (single and mixed element groups) for the three irreversibility solvers x AT1 / AT2 x eight splits; after each Solve + Save_Iter the stored history field (per Gauss point), the driving energy per element and, for the damage-based solvers, the nodal damage are compared with the previous saved step; zero loading keeps the damage at zero",
            "homogeneous materials; nearly repeated principal values held to 1e-6 instead of 1e-9; histories <= 8 load steps on meshes <= ~50 elements; AT1 from the virgin state with the History / HistoryDamage solvers is a recorded known finding (singular damage system)",
            "reference-model oracle (independent eigen-decomposition) on executed split routines + monotonicity trace checker over saved phase-field histories"),
    "C18": ("laws (NeoHookean, MooneyRivlin, CiarletGeymonat, SaintVenantKirchhoff, HolzapfelOgden with random fibres, an AutoDiff user energy; 2-D plane strain and 3-D): on homogeneous deformations u = (F - I)X of a real mesh (random F, det F in [0.6, 1.8]) central finite differences in the Green-Lagrange strain of the observed W and dWde against Compute_dWde / Compute_d2Wde, major symmetry, twin states (QF - I)X for random rotations, W = 0 and stress = 0 in the reference configuration. operators (PK2, Gonzalez consistent / simplified, TimeQuadrature fixed 1-9 points and adaptive with coefK in {0.5, 1, 1-alpha}, ActiveStress, KelvinVoigt, FollowingPressure, PenaltyContact against an analytic plane) on random displacement pairs of 1-6-element groups of 13 element types: returned tangent against finite differences of the returned residual with the documented scaling, internal force against the finite difference of the element energy, discrete power balance R.du = dW, zero-step consistency of every quadrature rule, C = dR/dv and R = C v. assembly: the Newton matrix coefK K + coefC C + coefM M of the simulation against finite differences of its complete residual for elliptic / newmark / hht / hht_newmark / midpoint / euler_implicit x pointwise / gonzalez / quadrature stresses with viscosity and active stress. dynamics: free motion of unconstrained bodies under midpoint with the gonzalez, simplified-tangent gonzalez, adaptive and fixed quadrature stresses: kinetic + stored energy at every converged step against the initial one",
            "finite-difference step 1e-6, derivative tolerance 1e-6; meshes of one cell (operators) to ~12 elements (dynamics); 30-120 time steps; energy drift tolerance 1e-8 (1e-7 adaptive quadrature); adaptive rules that hit the documented 33-point cap are not judged; contact only against a plane",
            "finite-difference and invariance oracles on executed constitutive / operator routines + energy trace checker over simulated free-motion histories"),
    "C19": ("the real Behavior.Integrate is driven along seeded strain paths (random walks, reversals, non-proportional turns, 0.05-5 yield strains per step) on batches of independent Gauss points for constructor-accepted combinations of {VonMises, Hill with random anisotropy, DruckerPrager} x {none, Linear, Voce, Swift} x {none, Prager, Armstrong-Frederick, Chaboche 2-3} x {rate-independent, Norton, Perzyna} x {0-2 Maxwell branches} x {3-D, plane strain, plane stress} x {auto, newton}; the harness commits the trial state itself and evaluates after every converged step, from the configured surface / hardening callables and the elastic stiffness: f(sigma - X, R) <= tol and = 0 when flowing (overstress when viscoplastic), dp >= 0, tr(eps_p) = 0, plastic and branch dissipation >= 0, sigma = d(psi)/d(eps) rebuilt in 6-D from the returned state, sigma_zz = 0 under plane stress, the algorithmic tangent against Richardson-extrapolated central differences of Integrate with an error estimate, both local solvers against each other, bit-identical arguments and repeatability; materials without a surface against C : eps and viscoelastic superposition; at simulation level Solve without Save_Iter leaves the committed state and a repeated Solve unchanged, Save_Iter advances it, Set_Iter onto an iteration saved before any Solve restores the virgin state",
            "paths of 14 (quick) / 25-60 (thorough) steps on 6-12 points; steps the integration reports as not converged (mask, plane-stress assertion or singular local Jacobian) are retried five times smaller, else not judged; tangent judged away from the onset of flow and where the two difference quotients agree to a third of the tolerance (2e-5; 3e-4 under plane stress)",
            "invariant and reference-model oracles on every step of executed integration histories (trace checker) + purity snapshots of the arguments"),
    "C20": ("partition: the same gmsh model (rectangles, random polygons, triangular domains that leave two main-dimension element types, extrusions with PRISM / HEXA; 12 element types) is meshed whole and split by Mesher._Mesh_Get_Meshes through the public generators for part counts from 2 to the element count; from the global connectivity the harness checks one owner per element of every group and per node, part = owned elements + every element touching an owned node (and the recorded ghost elements), global numbering / coordinates / connectivity rows / element tags, two builds and a build in another process with other hash seeds giving the same split; Elastic and Thermal simulations are then assembled on every part alone and on the whole mesh: K, C, M, F on the rows of the owned dofs, owned-row energies and reactions summed over the parts. merge: Mesh.Merge with return_mapping on the parts of a split (inverse of the split), conforming blocks, four blocks around a point / edge (three or more coincident copies), disjoint meshes, mergePoints off, a single mesh: coordinates through the mapping, mapped connectivities once each, node counts against distinct positions",
            "single process (MPI collectives unreachable, as the repository's own partition tests); meshes <= ~300 elements, part counts <= 40 (and = Ne for two triangle meshes)",
            "set-algebra and differential oracles (part vs whole-mesh assembly) on executed partition / merge routines"),
}


SUITE = {
    "C02": ("assembly", "K of Elastic / Thermal / Beam simulations symmetric at every Assembly"),
    "C03": ("assembly", "K, C, M, F of every Assembly equal the scatter-add of the element arrays built during that call"),
    "C04": ("bc", "after every solve of a problem type the solution carries the prescribed Dirichlet values"),
    "C05": ("timestep", "after every solve under a time scheme the stored rates follow the documented scheme from the previous state and the new solution; equation of motion on the free dofs for the linear kinds"),
    "C15": ("history", "every stored iteration keeps the digest it was saved with, verified at later Save_Iter / Set_Iter calls; the entry just saved holds the live primary fields"),
    "C17": ("phasefield", "the two parts returned by a split are finite and add up to the undamaged stress / energy; between consecutive saved steps the history energy (History) and the nodal damage (damage-based solvers) do not decrease - incl. the repository's crack-propagation examples, ~900 saved steps"),
    "C08": ("location", "the reference coordinates returned by the point location reproduce the query point through the element's own shape functions and nodes (thorough tier, repository tests only)"),
    "C09": ("loads", "constant distributed loads on straight-sided linear elements: the nodal forces a call adds sum, per unknown, to intensity x measure of the loaded region (from the element vertices) x thickness where the call applies it"),
    "C16": ("results", "displacement components and norm are those of the solution held; stress-like results come with one value per node or per element as asked"),
    "C11": ("law", "every freshly updated elastic law is symmetric, positive definite, C.S = I"),
    "C12": ("fearray", "FeArray @ / dot / ddot between two fields equal the per-point product at sampled points, result typed as a field"),
    "C14": ("stale", "matrices served from a simulation's cache equal those a deep copy told that everything changed assembles anew - while a fault injector re-assigns, before every other solve of the workload, one numeric parameter of the model / material / beams through its public attribute with a relative change of 1e-6"),
    "C19": ("integrate", "Behavior.Integrate leaves its arguments untouched, is finite where converged, never decreases p"),
}


def main():
    props = [json.loads(l) for l in open(os.path.join(ROOT, "properties.jsonl"))]
    checks, na, served = [], [], []
    for p in props:
        pid = p["id"]
        have = os.path.exists(os.path.join(ROOT, "verifmon", "props", pid.lower() + ".py"))
        if have and pid in CLAIMS:
            text, note, tech = CLAIMS[pid]
            if pid in SUITE:
                text += ("; in addition the repository's own tests and example scripts run unedited (examples headless, drawing stubbed) with the global monitor '"
                         + SUITE[pid][0] + "' installed on the real functions (" + SUITE[pid][1] + "): quick = short examples, thorough = test directories and example families")
                tech += " + global invariant monitor over the repository's tests and example scripts as workload"
            served.append(pid)
            checks.append({
                "property_id": pid,
                "quick_cmd": f"./check {pid} --tier quick",
                "thorough_cmd": f"./check {pid} --tier thorough",
                "evidence_file": f"evidence/{pid}.json",
                "replay_cmd_template": f"./check {pid} --replay {{path}}",
                "engine": "verifmon",
                "level_claimed": {"category": "exploration", "text": text + "; held on the executions listed in the evidence, nothing more",
                                  "design_ref": f"DESIGN.md §6 {pid}"},
                "level_note": note,
                "technique": "runtime monitoring: " + tech,
            })
        else:
            na.append({"property_id": pid, "reason": "check not built yet at this commit (work in progress, see DESIGN.md §8); not a claim that the technique cannot apply"})
    m = {
        "version": 1,
        "setup_cmd": "./setup.sh",
        "hooks": {
            "guard": "EASYFEA_VERIF",
            "enable": "no source hooks in /repo: monitors wrap the real functions at run time; EASYFEA_VERIF=1 (exported by ./check) only switches on the run-time monitors of /verif/verifmon/monitors",
            "baseline_off_cmd": "/verif/tools/baseline_off.py -n 8",
            "source_commits": [],
            "add_only": True,
        },
        "engines": [{"name": "verifmon", "path": "verifmon/", "serves_properties": served,
                     "kind_free_text": "runtime monitors: reference-model oracles, invariant hooks, trace checkers, sys.monitoring coverage observers; cases sharded over subprocesses with watchdogs"}],
        "checks": checks,
        "not_applicable": na,
        "notes": "Exit 0 held / 1 VIOLATION / 2 INCONCLUSIVE. known_findings.json lists genuine defects (open ones print KNOWN-FINDING). See DESIGN.md.",
    }
    json.dump(m, open(os.path.join(ROOT, "MANIFEST.json"), "w"), indent=1)
    print("claimed:", served)


if __name__ == "__main__":
    main()
