#!/bin/bash
# usage: tools/mutant.sh <patch.diff> <Cxx> [tier]   — applies the patch to /repo, runs the check, reverts.
set -u
P="$(realpath "$1")"; C="$2"; T="${3:-quick}"
cd /repo || exit 9
if ! git diff --quiet; then echo "repo has uncommitted changes; abort"; exit 9; fi
git apply "$P" || { echo "patch does not apply"; exit 9; }
cd /verif && ./check "$C" --tier "$T" --no-evidence 2>&1 | grep -E "VIOLATION|INCONCLUSIVE|verdict|KNOWN" | sed 's/replay=[^ ]*//' | head -4
rc=${PIPESTATUS[0]}
git -C /repo checkout -- . 
echo "exit=$rc"
