"""known_findings.json: committed list of genuine defects, keyed by mechanism (never written at run time).

Entry: {"property": "C08", "key": "C08/normals-outward/2D/as-meshed", "status": "open"|"fixed",
        "commit": "<sha>" (fixed only), "summary": "...", "witness": "..."}

Only ``open`` entries suppress a failure (-> KNOWN-FINDING line); ``fixed`` entries suppress nothing.
Matching is exact on the key string.
"""

from __future__ import annotations

import json
import os

PATH = os.path.join(os.path.dirname(os.path.dirname(os.path.abspath(__file__))), "known_findings.json")


def load(prop: str) -> dict[str, dict]:
    if not os.path.exists(PATH):
        return {}
    with open(PATH) as f:
        data = json.load(f)
    out = {}
    for e in data.get("findings", []):
        if e.get("property") == prop and e.get("status") == "open":
            out[e["key"]] = e
    return out
