"""Runner:  python -m verifmon.runner <Cxx> [--tier quick|thorough] [--seed N] [--replay file] [--jobs N]

Shards the cases of a property over subprocesses, aggregates the recorded checks into a
three-valued verdict, classifies failures against known_findings.json, writes evidence.

Exit codes: 0 held (possibly with KNOWN-FINDING lines), 1 VIOLATION, 2 INCONCLUSIVE.
"""

from __future__ import annotations

import argparse
import importlib
import json
import math
import os
import re
import shutil
import subprocess
import sys
import tempfile
import time

from . import findings
from .coverage import merge_reports
from .core import jsonable

ROOT = os.path.dirname(os.path.dirname(os.path.abspath(__file__)))


def _fnum(x) -> float:
    if isinstance(x, (int, float)):
        return float(x)
    try:
        return float(x)
    except Exception:  # noqa: BLE001
        return math.inf


def replay(mod, path: str) -> int:
    from .worker import run_one

    with open(path) as f:
        data = json.load(f)
    case = data["case"] if "case" in data else data
    if hasattr(mod, "setup_worker"):
        mod.setup_worker()
    res = run_one(mod, case, 3600)
    bad = [c for c in res["checks"] if not c["ok"]]
    print(json.dumps({k: res[k] for k in ("status", "error", "sig", "events", "notes")}, indent=1))
    for c in res["checks"]:
        flag = "ok  " if c["ok"] else "FAIL"
        print(f"{flag} {c['oracle']:40s} err={c['err']} tol={c['tol']} key={c['key']}")
        if not c["ok"]:
            print("     detail:", json.dumps(c.get("detail"))[:1500])
    known = findings.load(mod.PROP)
    new = [c for c in bad if c["key"] not in known]
    if res["status"] != "ok":
        print(f"INCONCLUSIVE property={mod.PROP} reason={res['status']}")
        return 2
    if new:
        print(f"VIOLATION property={mod.PROP} replay={path}")
        return 1
    return 0


def main(argv: list[str]) -> int:
    ap = argparse.ArgumentParser()
    ap.add_argument("prop")
    ap.add_argument("--tier", default=os.environ.get("VERIF_TIER", "quick"), choices=["quick", "thorough"])
    ap.add_argument("--seed", type=int, default=int(os.environ.get("VERIF_SEED", "0") or 0))
    ap.add_argument("--replay", default=None)
    ap.add_argument("--jobs", type=int, default=int(os.environ.get("VERIF_JOBS", "16")))
    ap.add_argument("--only", default=None, help="regex on case id (debugging)")
    ap.add_argument("--no-evidence", action="store_true")
    args = ap.parse_args(argv)

    prop = args.prop.upper()
    t0 = time.time()
    try:
        mod = importlib.import_module(f"verifmon.props.{prop.lower()}")
    except Exception as e:  # noqa: BLE001
        print(f"INCONCLUSIVE property={prop} reason=cannot-import-driver:{e!r}")
        return 2

    if args.replay:
        return replay(mod, args.replay)

    try:
        cases = mod.cases(args.tier, args.seed)
    except Exception as e:  # noqa: BLE001
        import traceback

        traceback.print_exc()
        print(f"INCONCLUSIVE property={prop} reason=case-generation-failed:{e!r}")
        return 2
    for i, c in enumerate(cases):
        c.setdefault("id", f"{prop}-{i:05d}")
        c.setdefault("seed", args.seed)
        c.setdefault("tier", args.tier)
    if args.only:
        rx = re.compile(args.only)
        cases = [c for c in cases if rx.search(c["id"])]

    # ---- shard (round-robin keeps expensive neighbours apart) --------------------------------
    jobs = max(1, min(args.jobs, len(cases)))
    shards = [cases[i::jobs] for i in range(jobs)]
    tmp = tempfile.mkdtemp(prefix=f"verifmon-{prop}-")
    shard_timeout = int(getattr(mod, "TIMEOUT_SHARD", {"quick": 900, "thorough": 5400})[args.tier])
    procs = []
    env = dict(os.environ)
    env["VERIF_TMP"] = tmp
    for i, sh in enumerate(shards):
        cp = os.path.join(tmp, f"cases{i}.json")
        op = os.path.join(tmp, f"out{i}.jsonl")
        with open(cp, "w") as f:
            json.dump(sh, f)
        log = open(os.path.join(tmp, f"log{i}.txt"), "w")
        p = subprocess.Popen(
            [sys.executable, "-m", "verifmon.worker", prop, cp, op],
            stdout=log,
            stderr=subprocess.STDOUT,
            cwd=tmp,
            env=env,
        )
        procs.append((p, op, log, len(sh), i))

    results: list[dict] = []
    cov_reports: list[dict] = []
    summaries: list[dict] = []
    missing_anchors: set[str] = set()
    inconclusive: list[str] = []
    deadline = time.time() + shard_timeout
    for p, op, log, n, i in procs:
        try:
            p.wait(timeout=max(1, deadline - time.time()))
        except subprocess.TimeoutExpired:
            p.kill()
            p.wait()
            inconclusive.append(f"shard{i}-timeout")
        log.close()
        got = 0
        if os.path.exists(op):
            with open(op) as f:
                for line in f:
                    try:
                        r = json.loads(line)
                    except json.JSONDecodeError:
                        continue
                    if "__coverage__" in r:
                        cov_reports.append(r["__coverage__"])
                        missing_anchors.update(r.get("missing_anchors", []))
                        summaries.append(r.get("summary", {}))
                    else:
                        results.append(r)
                        got += 1
        if got < n:
            tail = ""
            try:
                with open(os.path.join(tmp, f"log{i}.txt")) as f:
                    tail = f.read()[-600:]
            except OSError:
                pass
            inconclusive.append(f"shard{i}-lost-{n - got}-cases(rc={p.returncode}):{tail!r}")

    # ---- optional cross-case (offline) checkers ------------------------------------------------
    if hasattr(mod, "finalize"):
        try:
            extra = mod.finalize(results, args.tier)
            if extra:
                results.extend(extra)
        except Exception as e:  # noqa: BLE001
            inconclusive.append(f"finalize-failed:{e!r}")

    # ---- aggregate ---------------------------------------------------------------------------
    known = findings.load(prop)
    oracle_stats: dict[str, dict] = {}
    events: dict[str, int] = {}
    warns: dict[str, int] = {}
    fails_by_key: dict[str, list] = {}
    sigs_nontrivial: set[str] = set()
    sigs_all: set[str] = set()
    samples = []
    bad_cases = []
    for r in results:
        if r.get("status") != "ok":
            bad_cases.append({"id": r["case"].get("id"), "status": r["status"], "error": (r.get("error") or "")[-700:]})
        if r.get("sig"):
            sigs_all.add(r["sig"])
            if r.get("nontrivial"):
                sigs_nontrivial.add(r["sig"])
        for k, v in (r.get("events") or {}).items():
            events[k] = events.get(k, 0) + v
        for k, v in (r.get("warnings") or {}).items():
            warns[k] = warns.get(k, 0) + v
        for c in r.get("checks", []):
            st = oracle_stats.setdefault(c["oracle"], {"count": 0, "failed": 0, "worst_margin": 0.0})
            st["count"] += 1
            tol = _fnum(c["tol"])
            err = _fnum(c["err"])
            if c["ok"]:
                if tol > 0 and math.isfinite(err):
                    st["worst_margin"] = max(st["worst_margin"], err / tol)
            else:
                st["failed"] += 1
                fails_by_key.setdefault(c["key"], []).append((r, c))
    for st in oracle_stats.values():
        st["worst_margin"] = float(f"{st['worst_margin']:.3e}")

    # samples: a few passing non-trivial cases with distinct signatures
    seen_s = set()
    for r in results:
        if r.get("sample") and r.get("sig") not in seen_s and r.get("status") == "ok":
            seen_s.add(r.get("sig"))
            samples.append({"id": r["case"].get("id"), "sig": r.get("sig"), **r["sample"],
                            "checks": [{"oracle": c["oracle"], "err": c["err"], "tol": c["tol"]} for c in r["checks"][:6]]})
        if len(samples) >= 8:
            break

    # minimum oracle evaluations
    mins = getattr(mod, "MIN_EVALS", {})
    if callable(mins):
        mins = mins(args.tier)
    for oracle, n in mins.items():
        got = oracle_stats.get(oracle, {}).get("count", 0)
        if got < n and not args.only:
            inconclusive.append(f"oracle-{oracle}-evaluated-{got}<{n}")
    if bad_cases:
        frac = len(bad_cases) / max(1, len(results))
        max_frac = float(getattr(mod, "MAX_INCONCLUSIVE_FRACTION", 0.0))
        if frac > max_frac:
            inconclusive.append(f"{len(bad_cases)}-cases-not-ok:{bad_cases[0]}")
    if missing_anchors:
        inconclusive.append("anchors-not-found:" + ",".join(sorted(missing_anchors)))
    coverage = merge_reports(cov_reports)
    req = getattr(mod, "REQUIRED_COVERAGE", [])
    if not args.only:
        for label in req:
            if coverage.get(label, {}).get("lines_seen", 0) == 0:
                inconclusive.append(f"anchor-never-executed:{label}")
    if not results:
        inconclusive.append("no-case-ran")

    # ---- verdict -----------------------------------------------------------------------------
    violations = []
    known_seen = []
    rdir = os.path.join(os.environ.get("VERIF_REPLAYS") or os.path.join(ROOT, "replays"), prop)
    if not args.only:
        shutil.rmtree(rdir, ignore_errors=True)  # witnesses of this run only
    os.makedirs(rdir, exist_ok=True)
    for key, lst in sorted(fails_by_key.items()):
        if key in known:
            known_seen.append((key, len(lst)))
            print(f"KNOWN-FINDING: property={prop} {key}: {known[key].get('summary', '')} [{len(lst)} failing checks this run]")
            continue
        r, c = lst[0]
        safe = re.sub(r"[^A-Za-z0-9_.-]+", "_", key)[:120]
        path = os.path.join(os.environ.get("VERIF_REPLAYS") or os.path.join(ROOT, "replays"), prop, f"{safe}.json")
        with open(path, "w") as f:
            json.dump({"property": prop, "key": key, "case": r["case"], "failed_check": c,
                       "n_failing_checks_with_this_key": len(lst), "sample": r.get("sample")}, f, indent=1)
        violations.append((key, path, len(lst), c))

    wall = time.time() - t0
    verdict = "violated" if violations else ("inconclusive" if inconclusive else "held")

    if not args.no_evidence and not args.only:
        ev = {
            "property_id": prop,
            "tier": args.tier,
            "seed": args.seed,
            "level": "exploration",
            "coverage": {
                "evaluations": len(results),
                "distinct_nontrivial": len(sigs_nontrivial),
                "distinct_signatures": len(sigs_all),
                "rule": getattr(mod, "RULE", ""),
                "samples": samples,
                "exhaustive": bool(getattr(mod, "EXHAUSTIVE", False)),
                "oracle_evaluations": oracle_stats,
                "events_by_type": dict(sorted(events.items())),
                "anchor_coverage": {k: {"lines_seen": v["lines_seen"], "lines_total": v["lines_total"], "lines_missed": v.get("missed", [])} for k, v in coverage.items()},
                "known_findings_seen": [{"key": k, "failing_checks": n} for k, n in known_seen],
                "inconclusive": inconclusive,
                "inconclusive_cases": bad_cases[:10],
                "warnings_captured": warns,
                "worker_summaries": jsonable(summaries[:4]),
                "verdict": verdict,
            },
            "assumptions": list(getattr(mod, "ASSUMPTIONS", [])),
            "wall_s": round(wall, 2),
            "violations": len(violations),
        }
        os.makedirs(os.path.join(ROOT, "evidence"), exist_ok=True)
        with open(os.path.join(ROOT, "evidence", f"{prop}.json"), "w") as f:
            json.dump(ev, f, indent=1)

    shutil.rmtree(tmp, ignore_errors=True)

    nchecks = sum(s["count"] for s in oracle_stats.values())
    slow = sorted(((r.get("wall_s", 0), r["case"].get("id")) for r in results if "case" in r), reverse=True)[:3]
    if slow and slow[0][0] > 10:
        print("    slowest cases:", ", ".join(f"{i} {t:.1f}s" for t, i in slow))
    print(f"[{prop}] tier={args.tier} seed={args.seed} cases={len(results)} checks={nchecks} "
          f"distinct_nontrivial={len(sigs_nontrivial)} known={len(known_seen)} wall={wall:.1f}s verdict={verdict}")
    for name, st in sorted(oracle_stats.items()):
        print(f"    {name:44s} n={st['count']:6d} failed={st['failed']:5d} worst_margin={st['worst_margin']}")
    if violations:
        for key, path, n, c in violations:
            print(f"VIOLATION property={prop} replay={path}   # key={key} oracle={c['oracle']} err={c['err']} tol={c['tol']} ({n} failing checks)")
        return 1
    if inconclusive:
        for why in inconclusive:
            print(f"INCONCLUSIVE property={prop} reason={why[:900]}")
        return 2
    return 0


if __name__ == "__main__":
    sys.exit(main(sys.argv[1:]))
