"""Shard worker:  python -m verifmon.worker <Cxx> <cases.json> <out.jsonl>

Runs the cases of one shard in this process; one JSON line per case, one final line with the
line-coverage report. A per-case watchdog (SIGALRM) turns a hang into an *inconclusive* case.
"""

from __future__ import annotations

import importlib
import json
import os
import signal
import sys
import time
import traceback

from . import coverage as cov
from .core import Ctx, HarnessError, MonitoredFailure, raised_in_repo


class CaseTimeout(Exception):
    pass


def _alarm(signum, frame):
    raise CaseTimeout()


def run_one(mod, case: dict, timeout: int) -> dict:
    ctx = Ctx(mod.PROP, case)
    t0 = time.time()
    signal.signal(signal.SIGALRM, _alarm)
    signal.alarm(timeout)
    status, error = "ok", None
    try:
        mod.run_case(case, ctx)
    except MonitoredFailure:
        pass  # failure already recorded by ctx.monitored
    except CaseTimeout:
        status, error = "timeout", f"watchdog {timeout}s"
    except HarnessError as e:
        status, error = "harness_error", f"HarnessError: {e}"
    except Exception as e:  # noqa: BLE001
        tb = "".join(traceback.format_exception(type(e), e, e.__traceback__))
        if raised_in_repo(e.__traceback__) and not isinstance(e, (MemoryError, KeyboardInterrupt)):
            # the real code raised outside an explicitly monitored block: the scenario only performs
            # operations the property says are supported, so this is an observation, not a harness bug
            ctx._record(
                "no-exception",
                False,
                float("inf"),
                0.0,
                ctx.default_key + "/raised",
                {"raised": type(e).__name__, "message": str(e)[:300], "where": tb[-900:]},
            )
        else:
            status, error = "harness_error", tb[-1500:]
    finally:
        signal.alarm(0)
    res = ctx.result(status, error)
    res["wall_s"] = round(time.time() - t0, 4)
    return res


def main(argv: list[str]) -> int:
    prop, cases_path, out_path = argv[:3]
    mod = importlib.import_module(f"verifmon.props.{prop.lower()}")
    with open(cases_path) as f:
        cases = json.load(f)
    timeout = int(getattr(mod, "TIMEOUT_CASE", 120))

    obs = cov.LineObserver()
    missing: list[str] = []
    if hasattr(mod, "anchors"):
        try:
            missing = obs.watch_named(mod.anchors())
        except Exception as e:  # noqa: BLE001
            missing = [f"anchors() failed: {e!r}"]
        obs.start()

    if hasattr(mod, "setup_worker"):
        mod.setup_worker()

    with open(out_path, "w") as out:
        for case in cases:
            res = run_one(mod, case, int(case.get("timeout", timeout)))
            out.write(json.dumps(res) + "\n")
            out.flush()
        obs.stop()
        extra = {}
        if hasattr(mod, "worker_summary"):
            try:
                extra = mod.worker_summary()
            except Exception as e:  # noqa: BLE001
                extra = {"error": repr(e)}
        out.write(json.dumps({"__coverage__": obs.report(), "missing_anchors": missing, "summary": extra}) + "\n")
    return 0


if __name__ == "__main__":
    os.environ.setdefault("MPLBACKEND", "Agg")
    sys.exit(main(sys.argv[1:]))
