"""C19 — history-dependent material integration is admissible, dissipative and consistent.

The monitor drives the real ``Behavior.Integrate`` along seeded strain paths (random walks, cycles, reversals,
non-proportional segments; 0.05 - 5 yield strains per step) for every constructor-accepted combination of yield surface,
isotropic / kinematic hardening, rate law, Maxwell branches, dimension / plane assumption and local solver, on batches of
independent Gauss points, committing the trial state itself after every converged step (as ``Save_Iter`` does). After each
step the oracles - written by the harness from the *configured* surface, hardening laws and elastic stiffness, never from
the integration routine - are evaluated on the returned stress and state:

* admissibility f(sigma - X, R(p)) <= tol (rate-independent), increments of p >= 0, p monotone, tr(eps_p) = 0 (von Mises,
  Hill), dissipation >= 0 (plastic, kinematic recall and Maxwell branches separately);
* stress = d(psi)/d(eps) at the returned state (6-D stress rebuilt from C, eps_p and the branch strains);
* algorithmic tangent against central finite differences of ``Integrate`` itself at the same committed state, in steps that
  stay in one regime; both local solvers against each other; sigma_zz = 0 under plane stress; no internal variables =>
  sigma = C : eps and tangent = C;
* purity: ``Integrate`` leaves its arguments bit-identical and is repeatable;
* simulation level: ``Solve`` without ``Save_Iter`` does not move the committed state (two identical solves, ``Result('p')``
  unchanged), ``Save_Iter`` advances it, ``Set_Iter`` on an iteration saved before any ``Solve`` brings back the virgin state.
"""

from __future__ import annotations

import numpy as np

from EasyFEA import Models, Simulations
from EasyFEA.FEM import FeArray
from EasyFEA.Models import InElastic as IE

from . import _suite
from ..core import Ctx, quiet, relerr
from . import _sims

PROP = "C19"
NUM = 19
RULE = (
    "cases = (yield surface, isotropic hardening, kinematic hardening, rate law, number of Maxwell branches, dimension / plane "
    "assumption, local solver) x seeded strain paths on batches of independent Gauss points; plus simulation-level call "
    "sequences. Signature = the configuration tuple. Non-trivial iff the path holds >= 3 plastic steps, >= 1 elastic unloading "
    "and a direction change of the strain increment."
)
ASSUMPTIONS = [
    "admissibility tolerance 1e-6 sigma_y (the local solver iterates to 1e-10 relative), plane-stress tolerance max(1e-6 sigma_y, 1e-8 C_zz)",
    "tangent compared with Richardson-extrapolated central finite differences (steps 2e-3 and 1e-3 yield strains, five times larger under plane stress) where their disagreement is below a third of the tolerance only where the +-h neighbours flow / do not flow like the centre (the return map is not differentiable across the yield surface)",
    "steps the integration reports as not converged are not judged and not committed (the property says 'all step sizes that converge')",
    "dissipation = sigma : d(eps_p) - sum X_i : d(alpha_i) - R dp with the end-of-step forces (backward Euler), >= -1e-9 sigma_y |d eps_p|",
]
TIMEOUT_CASE = 600
MIN_EVALS = {"admissible": 100, "p-monotone": 100, "tangent-vs-fd": 20, "pure": 100, "solvers-agree": 10, "committed-state-untouched": 2}
REQUIRED_COVERAGE = ["Integrate", "spectral_Solve", "Flow"]
IDX_2D = [0, 1, 5]
ZZ = 2
DEBUG = False


def anchors():
    from EasyFEA.Models.InElastic import _behavior, _spectral
    from EasyFEA.Simulations import _inelastic

    B = _behavior.Behavior
    return [
        ("Integrate", B, "Integrate"), ("Flow", B, "_Behavior__Flow"), ("Spectral", B, "_Behavior__Spectral"), ("spectral_Solve", _spectral, "Solve"),
        ("spectral_Tangent", _spectral, "Tangent"), ("Plane_stress", B, "_Behavior__Plane_stress_strain"), ("Condense", B, "_Behavior__Condense"),
        ("Simu_Construct", _inelastic.InElastic, "Construct_local_matrix_system"), ("Simu_Save_Iter", _inelastic.InElastic, "Save_Iter"),
        ("Simu_Set_Iter", _inelastic.InElastic, "Set_Iter"),
    ]


SURF = ["VonMises", "Hill", "DruckerPrager"]
HARD = ["none", "Linear", "Voce", "Swift"]
KIN = ["none", "Prager", "AF", "Chaboche2", "Chaboche3"]
RATE = ["none", "Norton", "Perzyna"]
DIMS = ["3D", "2D-pe", "2D-ps"]


def cases(tier: str, seed: int) -> list[dict]:
    rng = np.random.default_rng([seed, NUM, 999])
    out = []
    n = 60 if tier == "quick" else 500
    combos = [(s, h, k, r, b, d) for s in SURF for h in HARD for k in KIN for r in RATE for b in (0, 1, 2) for d in DIMS]
    pick = rng.permutation(len(combos))[:n]
    for i in pick:
        s, h, k, r, b, d = combos[i]
        out.append({"fam": "path", "surf": s, "hard": h, "kin": k, "rate": r, "branches": b, "dims": d, "solver": str(rng.choice(["auto", "newton"]))})
    # directed: reducible configurations (spectral return) in every dimension, and the configurations a plane-stress tangent is sensitive to
    for d in DIMS:
        for s in ("VonMises", "Hill"):
            for h in ("none", "Linear", "Voce"):
                out.append({"fam": "path", "surf": s, "hard": h, "kin": "none", "rate": "none", "branches": 0, "dims": d, "solver": "auto"})
        out.append({"fam": "path", "surf": "VonMises", "hard": "Linear", "kin": "AF", "rate": "none", "branches": 0, "dims": d, "solver": "auto"})
        # elastic constants changed mid-path: reducible (spectral return) and general configurations
        out.append({"fam": "path", "surf": "VonMises", "hard": "Linear", "kin": "none", "rate": "none", "branches": 0, "dims": d, "solver": "auto", "retune": True})
        out.append({"fam": "path", "surf": "Hill", "hard": "Voce", "kin": "none", "rate": "none", "branches": 0, "dims": d, "solver": "auto", "retune": True})
        out.append({"fam": "path", "surf": "VonMises", "hard": "none", "kin": "Prager", "rate": "none", "branches": 1, "dims": d, "solver": "newton", "retune": True})
        out.append({"fam": "path", "surf": "DruckerPrager", "hard": "Linear", "kin": "none", "rate": "Norton", "branches": 0, "dims": d, "solver": "auto", "retune": True})
        out.append({"fam": "path", "surf": "VonMises", "hard": "none", "kin": "Chaboche2", "rate": "none", "branches": 0, "dims": d, "solver": "newton"})
        out.append({"fam": "elastic", "dims": d, "branches": 0})
        out.append({"fam": "elastic", "dims": d, "branches": 2})
    ns = 2 if tier == "quick" else 10
    for r in range(ns):
        for dim, et in ((2, "QUAD4"), (2, "TRI3"), (3, "HEXA8")):
            out.append({"fam": "simulation", "dim": dim, "et": et, "kin": ["none", "AF"][r % 2]})
    for i, c in enumerate(out):
        tag = "-".join(str(c.get(k)) for k in ("surf", "hard", "kin", "rate", "branches", "dims", "solver", "dim", "et") if c.get(k) is not None)
        c["id"] = f"C19-{i:05d}-{c['fam']}-{tag}"
        c["index"] = i
    for c in _suite.suite_cases(PROP, tier):
        c["index"] = len(out)
        out.append(c)
    return out


# ------------------------------------------------------------------------------------------
def build(case, rng):
    """-> behaviour, and the pieces the oracles are written from."""
    E, v = float(rng.uniform(500, 2000)), float(rng.uniform(0.15, 0.4))
    el = Models.Elastic.Isotropic(3, E=E, v=v)
    sy = float(rng.uniform(2, 10))
    cfg = {"E": E, "v": v, "sy": sy, "C": np.asarray(el.C, float)}
    surf = case.get("surf")
    ys = hard = kin = rate = None
    if surf == "VonMises":
        ys = IE.Yield.VonMises(sy)
    elif surf == "Hill":
        F, G, H = rng.uniform(0.3, 0.8, 3)
        L, M, N = rng.uniform(1.0, 2.0, 3)
        ys = IE.Yield.Hill(sy, float(F), float(G), float(H), float(L), float(M), float(N))
    elif surf == "DruckerPrager":
        cfg["eta"] = float(rng.uniform(0.02, 0.15))
        ys = IE.Yield.DruckerPrager(sy, cfg["eta"])
    h = case.get("hard", "none")
    if h == "Linear":
        hard = IE.IsotropicHardening.Linear(float(rng.uniform(0.01, 0.2)) * E)
    elif h == "Voce":
        hard = IE.IsotropicHardening.Voce(float(rng.uniform(0.3, 2)) * sy, float(rng.uniform(20, 300)))
    elif h == "Swift":
        hard = IE.IsotropicHardening.Swift(float(rng.uniform(2, 8)) * sy, float(rng.uniform(0.1, 0.5)))
    k = case.get("kin", "none")
    if k == "Prager":
        kin = IE.KinematicHardening.Prager(float(rng.uniform(0.02, 0.2)) * E)
    elif k == "AF":
        kin = IE.KinematicHardening.ArmstrongFrederick(float(rng.uniform(0.05, 0.3)) * E, float(rng.uniform(50, 500)))
    elif k.startswith("Chaboche"):
        n = int(k[-1])
        kin = IE.KinematicHardening.Chaboche(*[(float(rng.uniform(0.02, 0.3)) * E, float(rng.choice([0.0, rng.uniform(20, 800)]))) for _ in range(n)])
    r = case.get("rate", "none")
    if r == "Norton":
        rate = IE.ViscoPlastic.Norton(float(10 ** rng.uniform(-4, 0)), float(rng.uniform(1, 4)), sy)
    elif r == "Perzyna":
        rate = IE.ViscoPlastic.Perzyna(float(10 ** rng.uniform(0, 4)), float(rng.uniform(1, 3)), sy)
    nb = case.get("branches", 0)
    gs = rng.uniform(0.05, 0.3, nb)
    branches = [IE.ViscoElastic.Maxwell(float(g), float(10 ** rng.uniform(-1, 1))) for g in gs]
    dims = case["dims"]
    dim = 3 if dims == "3D" else 2
    kw = dict(yieldSurface=ys, hardening=hard, kinematic=kin, rate=rate, branches=branches, planeStress=(dims == "2D-ps"))
    if case.get("solver"):
        kw["solver"] = case["solver"]
    with quiet():
        beh = IE.Behavior(dim, el, **kw)
    cfg.update(ys=ys, hard=hard if hard is not None else IE.IsotropicHardening.Linear(0.0), kin=(() if kin is None else ((kin,) if isinstance(kin, IE.KinematicHardening.KinematicHardening) else tuple(kin))),
               rate=rate, branches=branches, dim=dim, ps=(dims == "2D-ps"), kw=kw, el=el)
    return beh, cfg


def fe(a):
    return FeArray.asfearray(np.array(a, dtype=float, copy=True))


def sig6_from_state(cfg, beh, eps6, z):
    """sigma = d(psi)/d(eps) in 6-D Kelvin from the elastic stiffness, the plastic strain and the branch strains."""
    C = cfg["C"]
    sl = beh.layout.slots
    eel = eps6.copy()
    if "eps_p" in sl:
        eel = eel - z[..., sl["eps_p"]]
    sig = eel @ C.T
    for i, br in enumerate(cfg["branches"]):
        sig = sig - br.g * (z[..., sl[f"eps_v{i}"]] @ C.T)
    return sig


def run_path(case, ctx, rng):
    key0 = f"C19/{case['surf']}/{case['hard']}/{case['kin']}/{case['rate']}/b{case['branches']}/{case['dims']}" + ("/retuned" if case.get("retune") else "")
    ctx.default_key = key0
    with ctx.monitored("no-exception", key0 + "/build/raised"):
        beh, cfg = build(case, rng)
    dim, ps, sy, C = cfg["dim"], cfg["ps"], cfg["sy"], cfg["C"]
    nd = 6 if dim == 3 else 3
    Ne, nPg = int(rng.integers(3, 7)), 2
    nsteps = 14 if case["tier"] == "quick" else int(rng.integers(25, 60))
    ey = sy / cfg["E"]
    rate_dep = cfg["rate"] is not None or len(cfg["branches"]) > 0
    dt = float(10 ** rng.uniform(-2, 1)) if rate_dep else 0.0
    sl = beh.layout.slots
    Czz = float(C[ZZ, ZZ])
    # twin with the other local solver
    twin = None
    if cfg["ys"] is not None:
        other = "newton" if case.get("solver", "auto") == "auto" else "auto"
        with quiet():
            twin = IE.Behavior(dim, cfg["el"], **dict(cfg["kw"], solver=other))
    eps = np.zeros((Ne, nPg, nd))
    z = np.asarray(beh.State_zeros(Ne, nPg), float).copy()
    direction = rng.normal(size=(Ne, nPg, nd))
    direction /= np.linalg.norm(direction, axis=-1, keepdims=True)
    nplastic, nunload, nturn = 0, 0, 0
    was_plastic = np.zeros((Ne, nPg), bool)
    to6 = (lambda a: a) if dim == 3 else (lambda a: _embed(a))

    def integrate(b, e, zo, eo):
        with quiet(), np.errstate(all="ignore"):
            s, Ct, zn, cv = b.Integrate(fe(e), fe(zo), dt, fe(eo))
        return np.asarray(s, float), np.asarray(Ct, float), np.asarray(zn, float), np.asarray(cv, bool)

    with ctx.monitored("no-exception", key0 + "/raised"):
        for k in range(nsteps):
            if case.get("retune") and k == nsteps // 2:
                # the elastic constants are changed in the middle of the path (temperature-dependent moduli, a parameter study on one
                # object): every later step is integrated with the law as it now is. The harness takes the new stiffness from a
                # law of its own, so that nothing it reads can refresh what the behaviour keeps.
                with quiet():
                    cfg["E"] = cfg["E"] * float(rng.uniform(0.5, 0.8))
                    cfg["v"] = float(np.clip(cfg["v"] + rng.uniform(-0.1, 0.08), 0.05, 0.45))
                    cfg["el"].E = cfg["E"]
                    cfg["el"].v = cfg["v"]
                    cfg["C"] = np.asarray(Models.Elastic.Isotropic(3, E=cfg["E"], v=cfg["v"]).C, float)
                C = cfg["C"]
                Czz = float(C[ZZ, ZZ])
                ctx.event("elastic-constants-changed-mid-path")
            # path program: keep / turn / reverse the direction; step size 0.05 - 5 yield strains
            u = rng.random((Ne, nPg))
            newdir = rng.normal(size=(Ne, nPg, nd))
            newdir /= np.linalg.norm(newdir, axis=-1, keepdims=True)
            direction = np.where((u < 0.25)[..., None], -direction, np.where((u > 0.8)[..., None], newdir, direction))
            nturn += int((u < 0.25).sum() + (u > 0.8).sum())
            mag = ey * 10 ** rng.uniform(np.log10(0.05), np.log10(5), size=(Ne, nPg, 1))
            eps_new = eps + mag * direction
            e_in, z_in, eo_in = eps_new.copy(), z.copy(), eps.copy()
            try:
                sig, Calg, znew, conv = integrate(beh, e_in, z_in, eo_in)
            except (AssertionError, np.linalg.LinAlgError) as e:
                # the plane-stress iteration reports a step it cannot converge by an assertion for the whole batch (and a
                # singular local Jacobian surfaces as LinAlgError): "all step sizes that converge" - retry the step five times
                # smaller, else give the step up
                if isinstance(e, AssertionError) and "did not converge" not in str(e):
                    raise
                ctx.event("batch-step-not-converged" if isinstance(e, AssertionError) else "batch-step-singular-jacobian")
                eps_new = eps + 0.2 * (eps_new - eps)
                e_in = eps_new.copy()
                try:
                    sig, Calg, znew, conv = integrate(beh, e_in, z_in, eo_in)
                except (AssertionError, np.linalg.LinAlgError) as e2:
                    if isinstance(e2, AssertionError) and "did not converge" not in str(e2):
                        raise
                    ctx.event("batch-step-given-up")
                    continue
            # ---- purity -------------------------------------------------------------------------------
            ctx.require("pure", np.array_equal(e_in, eps_new) and np.array_equal(z_in, z) and np.array_equal(eo_in, eps), key0 + "/arguments-modified", step=k)
            sig2, _, znew2, conv2 = integrate(beh, eps_new, z, eps)  # (converged once with the same arguments)
            ctx.require("pure", np.array_equal(conv, conv2) and np.array_equal(sig2[conv], sig[conv]) and np.array_equal(znew2[conv], znew[conv]), key0 + "/not-repeatable", step=k)
            fin = np.isfinite(sig).all(axis=-1) & np.isfinite(znew).all(axis=-1)
            ok = conv & fin
            ctx.require("finite", bool((fin | ~conv).all()), key0 + "/non-finite-but-converged", step=k)
            if not ok.any():
                ctx.event("step-not-converged", int((~ok).sum()))
                continue
            if (~ok).any():
                ctx.event("step-not-converged", int((~ok).sum()))
            m = ok
            # ---- 6-D strain / stress at the returned state -------------------------------------------------
            if dim == 3:
                eps6 = eps_new
            elif not ps:
                eps6 = _embed(eps_new)
            else:
                with quiet(), np.errstate(all="ignore"):
                    eps6 = np.asarray(beh.Compute_strain_6d(fe(eps_new), fe(z), dt), float)
            s6 = sig6_from_state(cfg, beh, eps6, znew)
            ret6 = sig if dim == 3 else s6.copy()
            if dim == 2:
                ctx.check("stress-from-state", float(np.abs(s6[m][:, IDX_2D] - sig[m]).max()) / sy, 1e-7, key0 + "/sigma=dpsi/deps", step=k)
            else:
                ctx.check("stress-from-state", float(np.abs(s6[m] - sig[m]).max()) / sy, 1e-8, key0 + "/sigma=dpsi/deps", step=k)
            if ps:
                ctx.check("plane-stress", float(np.abs(s6[m][:, ZZ]).max()), max(1e-6 * sy, 1e-8 * Czz), key0 + "/sigma_zz=0", step=k)
            # ---- internal variables ---------------------------------------------------------------------------
            if "p" in sl:
                p_old, p_new = z[..., sl["p"]][..., 0], znew[..., sl["p"]][..., 0]
                dp = p_new - p_old
                ctx.check("p-monotone", float(np.max(-dp[m])), 1e-12, key0 + "/dp>=0", step=k)
                ep_old, ep_new = z[..., sl["eps_p"]], znew[..., sl["eps_p"]]
                dep = ep_new - ep_old
                plastic = dp > 1e-14
                if case["surf"] in ("VonMises", "Hill"):
                    tr = ep_new[..., :3].sum(axis=-1)
                    ctx.check("traceless", float(np.abs(tr[m]).max()), 1e-12 + 1e-10 * float(np.abs(ep_new[m]).max()), key0 + "/tr(eps_p)=0", step=k)
                # back stress and hardening force from the configured laws
                X = np.zeros_like(s6)
                dissX = np.zeros(s6.shape[:2])
                for i, comp in enumerate(cfg["kin"]):
                    a_old, a_new = z[..., sl[f"alpha{i}"]], znew[..., sl[f"alpha{i}"]]
                    Xi = comp.modulus * a_new
                    X = X + Xi
                    dissX += np.einsum("...i,...i->...", Xi, a_new - a_old)
                R = np.asarray(cfg["hard"].R(fe(p_new)), float)
                with quiet(), np.errstate(all="ignore"):
                    f = np.asarray(cfg["ys"].f(fe(ret6 - X), fe(R)), float)
                if cfg["rate"] is None:
                    ctx.check("admissible", float(np.max(f[m])) / sy, 1e-6, key0 + "/f<=0", step=k)
                    # consistency: where the material flowed the stress sits on the surface
                    if (plastic & m).any():
                        ctx.check("on-surface-when-flowing", float(np.abs(f[plastic & m]).max()) / sy, 1e-6, key0 + "/f=0-when-dp>0", step=k)
                else:
                    # viscoplastic: flow only under overstress
                    if (plastic & m).any():
                        ctx.check("overstress-when-flowing", float(np.max(-f[plastic & m])) / sy, 1e-6, key0 + "/f>=0-when-dp>0", step=k)
                D = np.einsum("...i,...i->...", ret6, dep) - dissX - R * dp
                # (round-off level "flow" of elastic steps is not flow: absolute floor 1e-10 sigma_y eps_y)
                ctx.check("dissipation", float(np.max(-D[m] - 1e-9 * sy * np.linalg.norm(dep[m], axis=-1))) / (sy * ey), 1e-10, key0 + "/plastic-dissipation>=0", step=k)
                nplastic += int((plastic & m).sum())
                nunload += int((was_plastic & ~plastic & m).sum())
                was_plastic = plastic
            for i, br in enumerate(cfg["branches"]):
                ev_old, ev_new = z[..., sl[f"eps_v{i}"]], znew[..., sl[f"eps_v{i}"]]
                eel = eps6 - (znew[..., sl["eps_p"]] if "eps_p" in sl else 0.0)
                sbr = br.g * ((eel - ev_new) @ C.T)
                Dv = np.einsum("...i,...i->...", sbr, ev_new - ev_old)
                ctx.check("dissipation", float(np.max(-Dv[m])) / (sy * ey), 1e-9, key0 + "/branch-dissipation>=0", step=k)
            # ---- both local solvers ---------------------------------------------------------------------------
            if twin is not None and k % 2 == 0:
                try:
                    st, _, zt, ct = integrate(twin, eps_new, z, eps)
                except (AssertionError, np.linalg.LinAlgError) as e:
                    if isinstance(e, AssertionError) and "did not converge" not in str(e):
                        raise
                    ct = np.zeros((Ne, nPg), bool)
                    st, zt = sig, znew
                both = m & ct
                if both.any():
                    ctx.check("solvers-agree", max(float(np.abs(st[both] - sig[both]).max()) / sy, float(np.abs(zt[both] - znew[both]).max()) / ey), 1e-6, key0 + "/auto=newton", step=k)
            # ---- algorithmic tangent against finite differences of Integrate ------------------------------------------------
            if k % 4 == 1 or k == nsteps - 1:
                # Difference quotients of a routine that iterates to a tolerance are only trustworthy in a window of step sizes:
                # below ~1e-4 yield strains the derivative of the last-iterate error of the local Newton (stopped at 1e-10) shows
                # (1e-4 relative); the plane-stress iteration leaves sigma_zz ~ 1e-9 C_zz, an in-plane noise of ~5e-7; above, the
                # curvature of the response (rate laws of exponent > 1) dominates. Two central differences (h, h/2) are therefore
                # combined by Richardson extrapolation and their disagreement is the error estimate: the tangent is judged only
                # at the points where that estimate is below a third of the tolerance.
                tolT = 3e-4 if ps else 2e-5
                h1 = (1e-2 if ps else 2e-3) * ey
                same = m.copy()
                flow0 = (znew[..., sl["p"]][..., 0] - z[..., sl["p"]][..., 0] > 1e-14) if "p" in sl else np.zeros((Ne, nPg), bool)
                if "p" in sl:
                    # away from the onset of flow, where the response has a kink: clearly flowing, or clearly inside the surface
                    dpz = znew[..., sl["p"]][..., 0] - z[..., sl["p"]][..., 0]
                    stepn = np.linalg.norm(eps_new - eps, axis=-1)
                    same &= np.where(flow0, dpz > 0.05 * stepn, f < -0.02 * sy)
                Ds = []
                for h in (h1, h1 / 2):
                    Cfd = np.zeros((Ne, nPg, nd, nd))
                    for j in range(nd):
                        ep_, em_ = eps_new.copy(), eps_new.copy()
                        ep_[..., j] += h
                        em_[..., j] -= h
                        try:
                            sp, _, zp, cp = integrate(beh, ep_, z, eps)
                            sm, _, zm, cm = integrate(beh, em_, z, eps)
                        except (AssertionError, np.linalg.LinAlgError) as e:
                            if isinstance(e, AssertionError) and "did not converge" not in str(e):
                                raise
                            same &= False
                            continue
                        Cfd[..., :, j] = (sp - sm) / (2 * h)
                        same &= cp & cm
                        if "p" in sl:
                            fp = zp[..., sl["p"]][..., 0] - z[..., sl["p"]][..., 0] > 1e-14
                            fm = zm[..., sl["p"]][..., 0] - z[..., sl["p"]][..., 0] > 1e-14
                            same &= (fp == flow0) & (fm == flow0)
                    Ds.append(Cfd)
                Dr = (4 * Ds[1] - Ds[0]) / 3
                scaleC = np.abs(Dr).max(axis=(-2, -1)) + 1e-300
                est = np.abs(Ds[1] - Ds[0]).max(axis=(-2, -1)) / scaleC
                trusted = same & (est < tolT / 3)
                ctx.event("tangent-fd-untrusted", int((same & ~trusted).sum()))
                if trusted.any():
                    err = np.abs(Calg[trusted] - Dr[trusted]).max(axis=(-2, -1)) / scaleC[trusted]
                    regime = "flowing" if ("p" in sl and flow0[trusted].any()) else "not-flowing"
                    ctx.check("tangent-vs-fd", float(err.max()), tolT, key0 + "/C_alg=dsigma/deps", step=k, regime=regime, fd_estimate=float(est[trusted].max()))
                    ctx.event("tangent-checked:" + regime, int(trusted.sum()))
            # ---- commit the converged points (what Save_Iter does) ------------------------------------------------------
            z = np.where(ok[..., None], znew, z)
            eps = np.where(ok[..., None], eps_new, eps)
    ctx.describe("/".join(str(case[k]) for k in ("surf", "hard", "kin", "rate", "branches", "dims", "solver")) + ("/retuned" if case.get("retune") else ""), nplastic >= 3 and nunload >= 1 and nturn >= 1,
                 plastic_steps=nplastic, unloadings=nunload, turns=nturn, dt=dt, **{k: case[k] for k in ("surf", "hard", "kin", "rate", "branches", "dims", "solver")})


def _embed(a):
    out = np.zeros(a.shape[:-1] + (6,))
    out[..., IDX_2D] = a
    return out


# ------------------------------------------------------------------------------------------
def run_elastic(case, ctx, rng):
    """No yield surface: sigma = C : eps exactly (with Maxwell branches: at dt -> the branch law)."""
    key0 = f"C19/elastic/b{case['branches']}/{case['dims']}"
    ctx.default_key = key0
    c2 = dict(case, surf=None, hard="none", kin="none", rate="none")
    with ctx.monitored("no-exception", key0 + "/build/raised"):
        beh, cfg = build(c2, rng)
    dim, ps, C = cfg["dim"], cfg["ps"], cfg["C"]
    nd = 6 if dim == 3 else 3
    eps = rng.normal(size=(5, 2, nd)) * 1e-2
    dt = 0.3 if cfg["branches"] else 0.0
    with ctx.monitored("no-exception", key0 + "/raised"):
        with quiet():
            sig, Calg, z, conv = beh.Integrate(fe(eps), None, dt)
    sig, Calg = np.asarray(sig, float), np.asarray(Calg, float)
    if not cfg["branches"]:
        if dim == 3:
            Cd = C
        elif not ps:
            Cd = C[np.ix_(IDX_2D, IDX_2D)]
        else:
            Cin, ciz, czz = C[np.ix_(IDX_2D, IDX_2D)], C[IDX_2D, ZZ], C[ZZ, ZZ]
            Cd = Cin - np.outer(ciz, ciz) / czz
        ctx.check("linear-elastic", relerr(sig, eps @ Cd.T), 1e-12, key0 + "/sigma=C:eps")
        ctx.check("linear-elastic", relerr(Calg, np.broadcast_to(Cd, Calg.shape)), 1e-12, key0 + "/tangent=C")
        ctx.require("linear-elastic", np.asarray(z).shape[-1] == 0, key0 + "/no-state")
        # the same answer as Models.Elastic in a simulation is C10 / C01 matter; here the law in the model dimension
        law2 = Models.Elastic.Isotropic(dim, E=cfg["E"], v=cfg["v"], planeStress=ps) if dim == 2 else cfg["el"]
        ctx.check("linear-elastic", relerr(Cd, np.asarray(law2.C, float)), 1e-12, key0 + "/C=Models.Elastic.C")
    else:
        # linear visco-elasticity: the response is linear in the strain (superposition) at fixed dt
        with quiet():
            s2 = np.asarray(beh.Integrate(fe(2.5 * eps), None, dt)[0], float)
        ctx.check("linear-elastic", relerr(s2, 2.5 * sig), 1e-11, key0 + "/viscoelastic-superposition")
    ctx.describe(f"elastic/b{case['branches']}/{case['dims']}", True)


# ------------------------------------------------------------------------------------------
def run_simulation(case, ctx, rng):
    dim, et = case["dim"], case["et"]
    key0 = "C19/simulation"
    ctx.default_key = key0
    with ctx.monitored("no-exception", key0 + "/build/raised"):
        with quiet():
            mesh, (Lx, Ly, h) = _sims.small_mesh(rng, dim, et, size=1.2)
            el = Models.Elastic.Isotropic(3, E=1000.0, v=0.3)
            kin = IE.KinematicHardening.ArmstrongFrederick(100.0, 100.0) if case["kin"] == "AF" else None
            beh = IE.Behavior(dim, el, yieldSurface=IE.Yield.VonMises(5.0), hardening=IE.IsotropicHardening.Linear(100.0), kinematic=kin)
            simu = Simulations.InElastic(mesh, beh)
    n0, nL = _sims.nodes_x(mesh, 0.0), _sims.nodes_x(mesh, Lx)
    un = simu.Get_unknowns()

    def load(lam):
        simu.Bc_Init()
        simu.add_dirichlet(n0, [0.0] * dim, un)
        simu.add_dirichlet(nL, [lam * 0.005 * Lx], [un[0]])

    def committed():
        return np.asarray(simu.Result("p", nodeValues=False), float).copy()

    try:
        with ctx.monitored("no-exception", key0 + "/raised"):
            with quiet():
                simu.Save_Iter()  # an iteration saved before any Solve: the virgin state
                p0 = committed()
                ctx.check("committed-state-untouched", float(np.abs(p0).max()), 0.0, key0 + "/virgin-p=0")
                lams = [float(rng.uniform(1.5, 3)), float(rng.uniform(3, 5)), float(rng.uniform(-1, 1)), float(rng.uniform(4, 6))]
                for k, lam in enumerate(lams):
                    load(lam)
                    pc = committed()
                    u1 = simu.Solve().copy()
                    ctx.check("committed-state-untouched", float(np.abs(committed() - pc).max()), 0.0, key0 + "/Solve-moves-committed-p", step=k)
                    # a second solve of the same step from the same committed state: identical (nothing advanced in between)
                    simu._Set_solutions(simu.problemType, simu.Get_results(-1)["displacement"].copy())
                    u2 = simu.Solve().copy()
                    ctx.check("committed-state-untouched", relerr(u2, u1), 1e-9, key0 + "/second-Solve-differs", step=k)
                    simu.Save_Iter()
                    pn = committed()
                    ctx.check("p-monotone", float(np.max(pc - pn)), 1e-12, key0 + "/p-decreased-on-Save_Iter", step=k)
                ctx.require("history-advanced", float(pn.max()) > 0, key0 + "/no-plasticity-reached")
                # back to the iteration saved before any Solve
                simu.Set_Iter(0)
                ctx.check("restore-virgin", float(np.abs(committed()).max()), 0.0, key0 + "/Set_Iter(0)-keeps-hardened-state")
                load(lams[0])
                u_again = simu.Solve().copy()
                first = simu.Get_results(1)["displacement"]
                ctx.check("restore-virgin", relerr(u_again, first), 1e-8, key0 + "/first-step-after-Set_Iter(0)")
    except AssertionError as e:  # Newton non-convergence of the global problem is not the matter here
        if "converge" not in str(e):
            raise
        ctx.event("global-newton-not-converged")
    ctx.describe(f"simulation/{dim}D/{et}/{case['kin']}", True)


def run_case(case: dict, ctx: Ctx) -> None:
    if case.get("fam") == "suite":
        return _suite.run_suite(case, ctx, PROP)
    rng = np.random.default_rng([case["seed"], NUM, case["index"]])
    {"path": run_path, "elastic": run_elastic, "simulation": run_simulation}[case["fam"]](case, ctx, rng)
