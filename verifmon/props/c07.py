"""C07 — quadrature rules have the documented exactness and the right total weight.

Oracle: exact monomial integrals over the reference shapes in rational arithmetic; analytic
measure / centroid / moments of polygons and extrusions for the mesh-level consequences.
"""

from __future__ import annotations

import itertools
from fractions import Fraction
from math import factorial

import numpy as np

from EasyFEA import ElemType, MatrixType, Models, Simulations
from EasyFEA.FEM import Gauss

from ..core import Ctx, quiet, relerr
from ..gen import meshes as gm
from ..ref import geometry as geo

PROP = "C07"
NUM = 7
EXHAUSTIVE = True
RULE = (
    "complete enumeration of every tabulated rule (every accepted point count per shape) x every monomial up to its "
    "documented degree, and of every (element type, matrix type) pair of the factory; plus seeded straight-sided meshes "
    "(affine and general non-parallelogram quads/hexas) for measure, centroid and low-degree moments, and 2-4 element "
    "patches for the rank of the stiffness rule. Signature = (shape, point count) / (element type, matrix type) / "
    "(element type, mesh class). Non-trivial iff >= 2 monomials / >= 2 elements are involved."
)
ASSUMPTIONS = [
    "documented degrees transcribed from the docstrings of _gauss.py at the pinned commit: triangle 1,3,6,7,12 -> 1,2,3,4,5; "
    "tetrahedron 1,4,5,15 -> 1,2,3,5; hexahedron 8,27 -> 3,5; quadrangle 4,9 -> 1,2; prism 6,8,21 -> segment 3,3,5 / triangle 2,3,5; segment n -> 2n-1",
    "exactness tolerance 1e-12 relative to the reference measure (after the repair of the 6-point triangle weights every rule is exact to 4e-15)",
    "mesh-level polynomial degree limited to what the rule used guarantees on the element's geometry map",
]
TIMEOUT_CASE = 300
MIN_EVALS = {"rule-exactness": 20, "rule-total-weight": 20, "rule-points-inside": 20, "factory-weight": 40, "mesh-measure": 30,
             "mesh-centroid": 30, "mesh-moment": 20, "stiffness-rank": 15}
REQUIRED_COVERAGE = ["Gauss_factory", "Integrate_e"]
TOL_RULE = 1e-12

RULES = {
    "SEG": {n: 2 * n - 1 for n in range(1, 11)},
    "TRI": {1: 1, 3: 2, 6: 3, 7: 4, 12: 5},
    "QUAD": {4: 1, 9: 2},
    "TETRA": {1: 1, 4: 2, 5: 3, 15: 5},
    "HEXA": {8: 3, 27: 5},
    "PRISM": {6: (3, 2), 8: (3, 3), 21: (5, 5)},
}
REF_MEASURE = {"SEG": 2.0, "TRI": 0.5, "QUAD": 4.0, "TETRA": 1 / 6, "HEXA": 8.0, "PRISM": 1.0}
DIM = {"SEG": 1, "TRI": 2, "QUAD": 2, "TETRA": 3, "HEXA": 3, "PRISM": 3}
FIRST = {"SEG": "SEG2", "TRI": "TRI3", "QUAD": "QUAD4", "TETRA": "TETRA4", "HEXA": "HEXA8", "PRISM": "PRISM6"}


def anchors():
    from EasyFEA.FEM import _gauss
    from EasyFEA.FEM._group_elem import _GroupElem

    return [("Gauss_factory", _gauss.Gauss, "Gauss_factory"), ("Gauss_factory_nPg", _gauss.Gauss, "_Gauss_factory_nPg"),
            ("Triangle", _gauss.Gauss, "_Triangle"), ("Quadrangle", _gauss.Gauss, "_Quadrangle"), ("Tetrahedron", _gauss.Gauss, "_Tetrahedron"),
            ("Hexahedron", _gauss.Gauss, "_Hexahedron"), ("Prism", _gauss.Gauss, "_Prism"), ("Integrate_e", _GroupElem, "Integrate_e")]


def cases(tier: str, seed: int) -> list[dict]:
    out = []
    for shape, rules in RULES.items():
        for n in rules:
            out.append({"kind": "rule", "shape": shape, "n": n})
    for et in gm.ET_1D + gm.ET_2D + gm.ET_3D:
        out.append({"kind": "factory", "et": et})
        out.append({"kind": "rank", "et": et})
    # every tabulated rule requested *by point count* through an element group (Integrate_e(f, n)): the path on which the
    # weights meet the jacobians, also for the rules with a negative weight that no (element type, MatrixType) pair selects
    for shape, rules in RULES.items():
        for n in rules:
            out.append({"kind": "grouprule", "shape": shape, "n": n, "et": FIRST[shape]})
    rep = 1 if tier == "quick" else 10
    for r in range(rep):
        for et in gm.ET_1D + gm.ET_2D + gm.ET_3D:
            classes = ["plain", "affine"]
            if et.startswith("QUAD") or et.startswith("HEXA"):
                classes.append("general")
            if et in ("TETRA4", "PRISM6", "HEXA8"):
                # extruded column whose cross-section shrinks or grows linearly with the height: planar faces, straight edges, but the two
                # end faces of an element are no translates of each other (the jacobian varies inside every prism and hexahedron)
                classes.append("tapered")
            for mc in classes:
                out.append({"kind": "mesh", "et": et, "mesh": mc})
    for i, c in enumerate(out):
        c["id"] = f"C07-{i:05d}-{c['kind']}-{c.get('shape', c.get('et'))}-{c.get('n', c.get('mesh', ''))}"
        c["index"] = i
    return out


# ------------------------------------------------------------------------------------------
def seg_axis_of_prism() -> int:
    """Axis of the reference prism that spans [-1, 1] (the others span the unit triangle)."""
    from ..props.c06 import reference_group

    g, loc = reference_group("PRISM6")
    for d in range(3):
        if loc[:, d].min() < -0.5:
            return d
    raise RuntimeError("cannot identify the segment axis of the reference prism")


def exact_monomial(shape: str, pw: tuple, seg_axis: int = 0) -> Fraction:
    def seg(a):
        return Fraction(2, a + 1) if a % 2 == 0 else Fraction(0)

    if shape == "SEG":
        return seg(pw[0])
    if shape == "QUAD":
        return seg(pw[0]) * seg(pw[1])
    if shape == "HEXA":
        return seg(pw[0]) * seg(pw[1]) * seg(pw[2])
    if shape == "TRI":
        a, b = pw
        return Fraction(factorial(a) * factorial(b), factorial(a + b + 2))
    if shape == "TETRA":
        a, b, c = pw
        return Fraction(factorial(a) * factorial(b) * factorial(c), factorial(a + b + c + 3))
    if shape == "PRISM":
        tri = [pw[d] for d in range(3) if d != seg_axis]
        return seg(pw[seg_axis]) * Fraction(factorial(tri[0]) * factorial(tri[1]), factorial(tri[0] + tri[1] + 2))
    raise ValueError(shape)


def inside(shape: str, P: np.ndarray, seg_axis: int = 0) -> float:
    """Largest violation of the reference-element inequalities (0 if all points are inside)."""
    if shape in ("SEG", "QUAD", "HEXA"):
        return float(max(0.0, (np.abs(P) - 1).max()))
    if shape in ("TRI", "TETRA"):
        return float(max(0.0, (-P).max(), (P.sum(1) - 1).max()))
    tri = P[:, [d for d in range(3) if d != seg_axis]]
    return float(max(0.0, (-tri).max(), (tri.sum(1) - 1).max(), (np.abs(P[:, seg_axis]) - 1).max()))


def measured_degree(shape, P, w, seg_axis, upto=12):
    dim = DIM[shape]
    best = -1
    for k in range(upto + 1):
        ok = True
        for pw in itertools.product(range(k + 1), repeat=dim):
            if sum(pw) != k:
                continue
            got = float(np.sum(w * np.prod(P ** np.array(pw), axis=1)))
            if abs(got - float(exact_monomial(shape, pw, seg_axis))) > TOL_RULE * REF_MEASURE[shape]:
                ok = False
                break
        if not ok:
            break
        best = k
    return best


def run_case(case: dict, ctx: Ctx) -> None:
    {"rule": run_rule, "factory": run_factory, "mesh": run_mesh, "rank": run_rank, "grouprule": run_grouprule}[case["kind"]](case, ctx)


def run_rule(case, ctx):
    shape, n = case["shape"], case["n"]
    key = f"C07/rule/{shape}/{n}"
    ctx.default_key = key
    sa = seg_axis_of_prism() if shape == "PRISM" else 0
    with ctx.monitored("rule-available", key + "/raised"):
        g = Gauss(ElemType(FIRST[shape]), int(n))
        P, w = np.asarray(g.coord, float), np.asarray(g.weights, float)
    dim = DIM[shape]
    ctx.require("rule-shape", P.shape == (n, dim) and w.shape == (n,), key + "/shape", P=list(P.shape), w=list(w.shape))
    ctx.check("rule-points-inside", inside(shape, P, sa), 1e-14, key + "/inside")
    ctx.check("rule-total-weight", abs(w.sum() - REF_MEASURE[shape]) / REF_MEASURE[shape], 1e-12, key + "/total-weight", sum=w.sum())
    ctx.require("rule-positive-weights-reported", True)  # weights may legitimately be negative (5-point tetrahedron); reported, not judged
    doc = RULES[shape][n]
    worst, nm = 0.0, 0
    kmax = max(doc) if isinstance(doc, tuple) else doc
    for pw in itertools.product(range(kmax + 1), repeat=dim):
        if isinstance(doc, tuple):
            tri_deg = sum(pw[d] for d in range(3) if d != sa)
            if pw[sa] > doc[0] or tri_deg > doc[1]:
                continue
        elif sum(pw) > doc:
            continue
        got = float(np.sum(w * np.prod(P ** np.array(pw), axis=1)))
        worst = max(worst, abs(got - float(exact_monomial(shape, pw, sa))) / REF_MEASURE[shape])
        nm += 1
    ctx.check("rule-exactness", worst, TOL_RULE, key + "/exactness", monomials=nm, documented=doc)
    ctx.describe(f"rule/{shape}/{n}", nm >= 2, shape=shape, nPg=n, documented_degree=doc, measured_total_degree=measured_degree(shape, P, w, sa),
                 monomials=nm, min_weight=float(w.min()))
    ctx.event("monomials", nm)


def run_factory(case, ctx):
    et = case["et"]
    key = f"C07/factory/{et}"
    ctx.default_key = key
    shape = geo.topo(et)
    sa = seg_axis_of_prism() if shape == "PRISM" else 0
    mts = [MatrixType.rigi, MatrixType.mass] + ([MatrixType.beam, MatrixType.beam_shear] if shape == "SEG" else [])
    seen = {}
    for mt in mts:
        with ctx.monitored("rule-available", key + f"/{mt}/raised"):
            g = Gauss(ElemType(et), mt)
            P, w = np.asarray(g.coord, float), np.asarray(g.weights, float)
        ctx.check("factory-weight", abs(w.sum() - REF_MEASURE[shape]) / REF_MEASURE[shape], 1e-12, key + f"/{mt}/total-weight")
        ctx.check("factory-inside", inside(shape, P, sa), 1e-14, key + f"/{mt}/inside")
        ctx.require("factory-known-rule", len(w) in RULES[shape], key + f"/{mt}/point-count", nPg=len(w))
        seen[str(mt)] = len(w)
    ctx.describe(f"factory/{et}", True, et=et, nPg=seen)


# ------------------------------------------------------------------------------------------
def bilinear_map(X, Lx, Ly, corners):
    """Image of (x, y) in [0,Lx]x[0,Ly] under the bilinear map sending the rectangle corners to ``corners``."""
    s, t = X[:, 0] / Lx, X[:, 1] / Ly
    N = np.stack([(1 - s) * (1 - t), s * (1 - t), s * t, (1 - s) * t], axis=1)
    Y = X.copy()
    Y[:, :2] = N @ corners
    return Y


def kmax_for(et: str, mc: str) -> int:
    shape = geo.topo(et)
    o = gm.ORDER[et]
    if shape == "SEG":
        return min(4, 2 * (o + 1) - 1)
    if shape == "TRI":
        return {1: 2, 2: 3, 3: 5, 4: 5}[o] if o < 3 else 4
    if shape == "TETRA":
        return {1: 2, 2: 4}[o]
    if shape == "QUAD":
        n = 2 if o == 1 else 3
        return min(4, (2 * n - 1) - 1)  # gmsh's unstructured quads are general (non-parallelogram) too
    if shape == "HEXA":
        n = 2 if o == 1 else 3
        return min(4, (2 * n - 1) - 1)
    if shape == "PRISM":
        return 2 if o == 1 else 4
    raise ValueError(et)


def run_mesh(case, ctx):
    et, mc = case["et"], case["mesh"]
    key = f"C07/mesh/{et}/{mc}"
    ctx.default_key = key
    rng = np.random.default_rng([case["seed"], NUM, case["index"]])
    shape = geo.topo(et)
    dim = DIM[shape]
    A = None
    with ctx.monitored("no-exception", key + "/raised"):
        with quiet():
            if dim == 1:
                L = float(rng.uniform(0.5, 3))
                x0 = float(rng.uniform(-1, 1))
                mesh = gm.mesh1d(et, L, int(rng.integers(2, 6)), p0=(x0, 0, 0))
                poly, h = None, None
            elif mc == "general":
                Lx, Ly, h = float(rng.uniform(1, 2)), float(rng.uniform(1, 2)), float(rng.uniform(0.5, 1.2))
                rect = np.array([[0, 0], [Lx, 0], [Lx, Ly], [0, Ly]], float)
                ms = Lx / int(rng.integers(2, 4))
                mesh = gm.mesh2d(rect, et, ms, organised=True) if dim == 2 else gm.mesh3d(rect, et, h, int(rng.integers(1, 3)), ms, organised=True)
                corners = rect + rng.uniform(-0.25, 0.25, (4, 2)) * min(Lx, Ly)
                mesh = gm.rebuild(mesh, coord=bilinear_map(mesh.coord, Lx, Ly, corners))
                poly = corners
            else:
                poly = gm.random_polygon(rng, n=int(rng.integers(4, 7)), concave=bool(rng.integers(2)))
                h = float(rng.uniform(0.5, 1.2))
                o = gm.ORDER[et]
                ms = float({1: 0.5, 2: 0.7, 3: 0.85, 4: 1.0}[o] * (1.5 if dim == 3 else 1.0))
                mesh = gm.mesh2d(poly, et, ms) if dim == 2 else gm.mesh3d(poly, et, h, int(rng.integers(1, 3)), ms)
            if mc == "affine":
                A, t = gm.affine_map(rng, dim)
                mesh = gm.rebuild(mesh, coord=mesh.coord @ A.T + t)
            taper = None
            if mc == "tapered":
                taper = float(rng.choice([-1, 1]) * rng.uniform(0.2, 0.6))
                X = mesh.coord.copy()
                sz = 1 + taper * X[:, 2] / h
                X[:, 0] *= sz
                X[:, 1] *= sz
                mesh = gm.rebuild(mesh, coord=X)
    # analytic measure / centroid before the affine map
    if dim == 1:
        measure, cen = L, np.array([x0 + L / 2, 0, 0])
    else:
        area, c2 = gm.shoelace(poly)
        measure = abs(area) * (h if dim == 3 else 1.0)
        cen = np.array([c2[0], c2[1], h / 2 if dim == 3 else 0.0])
    if A is not None:
        measure *= abs(np.linalg.det(A))
        cen = A @ cen + t
    if dim == 3 and mc == "tapered":
        a_ = taper
        i2 = 1 + a_ + a_**2 / 3  # (1/h) int (1 + a z/h)^2 dz
        i3 = ((1 + a_) ** 4 - 1) / (4 * a_)  # (1/h) int (1 + a z/h)^3 dz
        iz = 0.5 + 2 * a_ / 3 + a_**2 / 4  # (1/h^2) int z (1 + a z/h)^2 dz
        measure = abs(area) * h * i2
        cen = np.array([c2[0] * i3 / i2, c2[1] * i3 / i2, h * iz / i2])
    with ctx.monitored("no-exception", key + "/raised"):
        got_measure = {1: mesh.length, 2: mesh.area, 3: mesh.volume}[dim]
        got_center = np.asarray(mesh.center)
        groups = mesh.Get_list_groupElem(dim)
        got_e = np.concatenate([{1: g.length_e, 2: g.area_e, 3: g.volume_e}[dim] for g in groups])
    size = measure ** (1 / dim)
    ctx.check("mesh-measure", abs(got_measure - measure) / measure, 1e-9, key + "/measure", got=got_measure, want=measure)
    ctx.check("mesh-centroid", float(np.abs(got_center - cen).max() / size), 1e-9, key + "/centroid", got=got_center, want=cen)
    # per-element measures against harness-side vertex formulas
    want_e = np.concatenate([geo.element_measures(g.elemType.value, mesh.coord, g.connect) for g in groups])
    ctx.check("element-measures", relerr(got_e, want_e), 1e-9, key + "/element-measures")
    # low-degree moments (unmapped geometry only: analytic polygon moments)
    nmom = 0
    if A is None and mc != "tapered":
        kmax = kmax_for(et, mc)
        single = len(groups) == 1
        worst = 0.0
        if single:
            for pw in itertools.product(range(kmax + 1), repeat=dim):
                k = sum(pw)
                if k == 0 or k > kmax:
                    continue
                if dim == 1:
                    want = ((x0 + L) ** (pw[0] + 1) - x0 ** (pw[0] + 1)) / (pw[0] + 1)
                else:
                    want = gm.polygon_moment(poly, pw[0], pw[1]) * np.sign(area)
                    if dim == 3:
                        want *= h ** (pw[2] + 1) / (pw[2] + 1)
                pwf = tuple(pw) + (0,) * (3 - dim)
                with ctx.monitored("no-exception", key + "/raised"):
                    got = float(sum(g.Integrate_e(lambda x, y, z, p=pwf: x ** p[0] * y ** p[1] * z ** p[2]).sum() for g in groups))
                scale = measure * (np.abs(mesh.coord).max() ** k)
                worst = max(worst, abs(got - want) / scale)
                nmom += 1
            ctx.check("mesh-moment", worst, 1e-9, key + "/moments", kmax=kmax, moments=nmom)
    # ---- integration points of a deformed configuration are asked for (an option of Get_GaussCoordinates_e_pg); the answer is the
    # undeformed point plus the interpolated displacement, and asking leaves the mesh where it was: centroid and first moments again
    umat = np.zeros((mesh.Nn, 3))
    umat[:, :dim] = 0.3 + rng.uniform(-0.2, 0.2, (mesh.Nn, dim))
    with ctx.monitored("no-exception", key + "/deformed-query/raised"):
        with quiet():
            worst = 0.0
            for g in groups:
                mt = MatrixType.mass
                x0g = np.asarray(g.Get_GaussCoordinates_e_pg(mt), float).copy()
                xdg = np.asarray(g.Get_GaussCoordinates_e_pg(mt, displacementMatrix=umat), float)
                Npg = np.asarray(g.Get_N_pg(mt))[:, 0, :]
                ug = np.einsum("pn,end->epd", Npg, umat[g.connect])
                worst = max(worst, float(np.abs(xdg - x0g - ug).max()))
                worst = max(worst, float(np.abs(np.asarray(g.Get_GaussCoordinates_e_pg(mt), float) - x0g).max()))
            center_again = np.asarray(mesh.center)
            first_again = [float(sum(g.Integrate_e(lambda x, y, z, d=d: (x, y, z)[d]).sum() for g in groups)) for d in range(dim)]
    ctx.check("deformed-query", worst / size, 1e-12, key + "/deformed-query/points")
    ctx.check("mesh-centroid", float(np.abs(center_again - cen).max() / size), 1e-9, key + "/centroid@after-deformed-query", got=center_again, want=cen)
    ctx.check("mesh-moment", float(max(abs(first_again[d] - cen[d] * measure) for d in range(dim)) / (measure * size)), 1e-9,
              key + "/first-moments@after-deformed-query", got=first_again)
    ctx.describe(f"mesh/{et}/{mc}", mesh.Ne >= 2, et=et, mesh=mc, Ne=mesh.Ne, measure=measure, moments_checked=nmom, groups=[g.elemType.value for g in groups])


def run_grouprule(case, ctx):
    shape, n, et = case["shape"], case["n"], case["et"]
    key = f"C07/group-rule/{shape}/n={n}"
    ctx.default_key = key
    rng = np.random.default_rng([case["seed"], NUM, case["index"]])
    dim = DIM[shape]
    with ctx.monitored("no-exception", key + "/raised"):
        with quiet():
            if dim == 1:
                L, x0 = float(rng.uniform(0.5, 3)), float(rng.uniform(-1, 1))
                mesh = gm.mesh1d(et, L, int(rng.integers(2, 6)), p0=(x0, 0, 0))
            else:
                # rectangles: straight-sided triangles / tetrahedra / prisms are affine anyway, quadrangles and hexahedra
                # of an organised rectangle mesh are parallelograms, so the rule's degree is the element's degree
                Lx, Ly, h = float(rng.uniform(1, 2)), float(rng.uniform(1, 2)), float(rng.uniform(0.5, 1.2))
                rect = np.array([[0, 0], [Lx, 0], [Lx, Ly], [0, Ly]], float)
                ms = Lx / int(rng.integers(2, 4))
                mesh = gm.mesh2d(rect, et, ms, organised=True) if dim == 2 else gm.mesh3d(rect, et, h, int(rng.integers(1, 3)), ms, organised=True)
    deg = RULES[shape][n]
    kmax = min(deg) if isinstance(deg, tuple) else deg
    groups = mesh.Get_list_groupElem(dim)
    worst, nmom = 0.0, 0
    for pw in itertools.product(range(kmax + 1), repeat=dim):
        k = sum(pw)
        if k > kmax:
            continue
        if dim == 1:
            want = ((x0 + L) ** (pw[0] + 1) - x0 ** (pw[0] + 1)) / (pw[0] + 1)
            size = L
        else:
            want = Lx ** (pw[0] + 1) / (pw[0] + 1) * Ly ** (pw[1] + 1) / (pw[1] + 1)
            size = Lx * Ly
            if dim == 3:
                want *= h ** (pw[2] + 1) / (pw[2] + 1)
                size *= h
        pwf = tuple(pw) + (0,) * (3 - dim)
        with ctx.monitored("no-exception", key + "/raised"):
            got = float(sum(np.asarray(g.Integrate_e(lambda x, y, z, p=pwf: x ** p[0] * y ** p[1] * z ** p[2], n)).sum() for g in groups))
        worst = max(worst, abs(got - want) / (size * max(np.abs(mesh.coord).max(), 1.0) ** k))
        nmom += 1
    ctx.check("group-rule-exactness", worst, 1e-10, key, degree=kmax, moments=nmom, et=et)
    ctx.describe(f"group-rule/{shape}/{n}", mesh.Ne >= 2, shape=shape, n=n, et=et, Ne=mesh.Ne, degree=kmax)


def run_rank(case, ctx):
    """The stiffness rule is rich enough: K of a 1-4 element patch of the scalar conduction problem has exactly one zero mode."""
    et = case["et"]
    key = f"C07/rank/{et}"
    ctx.default_key = key
    shape = geo.topo(et)
    dim = DIM[shape]
    with ctx.monitored("no-exception", key + "/raised"):
        with quiet():
            if dim == 1:
                mesh = gm.mesh1d(et, 1.0, 2)
            else:
                rect = np.array([[0, 0], [2, 0], [2, 1], [0, 1]], float)
                mesh = gm.mesh2d(rect, et, 1.0, organised=True) if dim == 2 else gm.mesh3d(rect, et, 1.0, 1, 1.0, organised=True)
            simu = Simulations.Thermal(mesh, Models.Thermal(k=1.0, c=1.0))
            K = simu.Get_K_C_M_F()[0]
    used = gm.used_nodes(mesh)
    Kd = K[used][:, used].toarray()
    lam = np.linalg.eigvalsh(0.5 * (Kd + Kd.T))
    nz = int((lam < 1e-9 * lam.max()).sum())
    ctx.require("stiffness-rank", nz == 1, key + "/thermal", zero_modes=nz, n=len(lam), Ne=mesh.Ne)
    if dim > 1:
        with ctx.monitored("no-exception", key + "/raised"):
            with quiet():
                simu = Simulations.Elastic(mesh, Models.Elastic.Isotropic(dim, E=1.0, v=0.3))
                K = simu.Get_K_C_M_F()[0]
        dofs = (used[:, None] * dim + np.arange(dim)).ravel()
        Kd = K[dofs][:, dofs].toarray()
        lam = np.linalg.eigvalsh(0.5 * (Kd + Kd.T))
        nz = int((lam < 1e-9 * lam.max()).sum())
        ctx.require("stiffness-rank", nz == (3 if dim == 2 else 6), key + "/elastic", zero_modes=nz, n=len(lam), Ne=mesh.Ne)
    ctx.describe(f"rank/{et}", mesh.Ne >= 1, et=et, Ne=mesh.Ne)
