"""C04 — constraints hold exactly, the returned solution solves the stated system, back-ends agree.

Oracle: a shadow model of the boundary-condition program (dof = node*dof_n + index(unknown), duplicates
summed), the residual of the assembled system on free dofs, and an independent dense KKT solve for the
Lagrange-multiplier path.
"""

from __future__ import annotations

import warnings

import numpy as np
import scipy.sparse as sp

from EasyFEA import Models, Simulations, SolverType, AlgoType
from EasyFEA.FEM import LagrangeCondition

from . import _suite
from ..core import Ctx, quiet, relerr
from ..gen import meshes as gm
from . import _sims
from . import _beam_common as bcm
from ._probe import ProbeSimu

PROP = "C04"
NUM = 4
RULE = (
    "cases = (scenario: bc-program / orphan nodes / back-ends / lagrange / connection / newton-incremental / "
    "bounded least squares, simulation kind, element type, solver) x seeded BC programs (overlapping node sets, dofs "
    "constrained 1-3 times, constants/arrays/callables, random order) . Signature = (scenario, kind, et, solver, flags). "
    "Non-trivial iff the problem has both constrained and free dofs and a non-zero solution."
)
ASSUMPTIONS = [
    "direct back-end judged at 1e-9 relative residual, iterative back-ends at the residual scipy promises (rtol 1e-5, judged at 1e-4)",
    "pypardiso / petsc are not installed: those branches are unreachable",
    "Lagrange reference: dense KKT solve with numpy on <= 600 dofs",
]
TIMEOUT_CASE = 300
MIN_EVALS = {"constraint-values": 40, "free-residual": 15, "lagrange-vs-kkt": 4, "backend-residual": 8, "orphans-finite": 4}
REQUIRED_COVERAGE = ["Solver_1", "Solver_2", "Solve_Axb", "Get_dofs_nodes", "Dirichlet_A_x"]


def anchors():
    from EasyFEA.Simulations import Solvers
    from EasyFEA.Simulations._simu import _Simu
    from EasyFEA.FEM._boundary_conditions import BoundaryCondition

    return [
        ("Solver_1", Solvers, "__Solver_1"),
        ("Solver_2", Solvers, "__Solver_2"),
        ("Solve_Axb", Solvers, "_Solve_Axb"),
        ("Get_dofs_nodes", BoundaryCondition, "Get_dofs_nodes"),
        ("Dirichlet_A_x", _Simu, "_Simu__Solver_Get_Dirichlet_A_x"),
        ("Bc_dofs_known_unknown", _Simu, "Bc_dofs_known_unknown"),
        ("Apply_Dirichlet", _Simu, "_Solver_Apply_Dirichlet"),
    ]


def cases(tier: str, seed: int) -> list[dict]:
    out = []
    rep = 1 if tier == "quick" else 8
    sims = [("elastic", 2, "TRI3"), ("elastic", 2, "QUAD8"), ("elastic", 3, "TETRA4"), ("elastic", 3, "HEXA8"), ("thermal", 2, "TRI6"),
            ("thermal", 3, "PRISM6"), ("weakforms", 2, "TRI3"), ("weakforms2", 2, "QUAD4"), ("beam2", 2, "SEG3"), ("beam3", 3, "SEG2"),
            ("probe", 2, "TRI3"), ("elastic", 2, "TRI10"), ("thermal", 2, "QUAD9"), ("probe-unsym", 2, "TRI3"), ("probe-unsym", 3, "TETRA4")]
    for r in range(rep):
        for kind, dim, et in sims:
            out.append({"sc": "bcprog", "kind": kind, "dim": dim, "et": et, "solver": "scipy"})
        for kind, dim, et in sims[:6]:
            out.append({"sc": "orphans", "kind": kind, "dim": dim, "et": et, "solver": "scipy"})
        for solver in ["cg", "bicg", "gmres", "lgmres"]:
            for kind, dim, et in [("elastic", 2, "TRI3"), ("thermal", 2, "QUAD4"), ("elastic", 3, "TETRA4")]:
                out.append({"sc": "backend", "kind": kind, "dim": dim, "et": et, "solver": solver})
        for kind, dim, et in [("elastic", 2, "TRI3"), ("thermal", 2, "QUAD4"), ("probe", 2, "TRI3"), ("elastic", 3, "TETRA4")]:
            for dup in (False, True):
                out.append({"sc": "lagrange", "kind": kind, "dim": dim, "et": et, "solver": "scipy", "dup": dup})
        for bdim in (2, 3):
            for theory in ("EB", "Timo"):
                for conn in ("fixed", "hinged"):
                    out.append({"sc": "connection", "kind": "beam", "dim": bdim, "et": ["SEG2", "SEG3"][bdim % 2], "theory": theory, "conn": conn, "solver": "scipy"})
            # three members meeting in one point, welded together
            out.append({"sc": "joint3", "kind": "beam", "dim": bdim, "et": ["SEG2", "SEG3"][(bdim + r) % 2], "theory": ("EB", "Timo")[(bdim + r) % 2], "conn": "fixed", "solver": "scipy"})
        for kind, dim, et in [("hyperelastic", 2, "TRI3"), ("hyperelastic", 3, "TETRA4"), ("inelastic", 2, "QUAD4"), ("inelastic", 3, "TETRA4")]:
            out.append({"sc": "newton", "kind": kind, "dim": dim, "et": et, "solver": "scipy"})
        for kind, dim, et in [("elastic", 2, "QUAD4"), ("thermal", 2, "TRI3"), ("probe", 2, "TRI3"), ("elastic", 3, "TETRA4"), ("beam2", 2, "SEG2"), ("weakforms", 2, "TRI6"), ("probe-unsym", 2, "QUAD4")]:
            out.append({"sc": "history", "kind": kind, "dim": dim, "et": et, "solver": "scipy"})
        # self-equilibrated point loads (+P and -P, a force and a couple of opposite values): the entries of the right-hand side cancel
        # exactly, its sum is 0.0, and the solution is not zero; homogeneous and non-homogeneous supports
        for kind, dim, et in [("elastic", 2, "TRI3"), ("elastic", 3, "TETRA4"), ("thermal", 2, "QUAD4"), ("beam2", 2, "SEG2"), ("beam3", 3, "SEG3"), ("probe", 2, "TRI3")]:
            out.append({"sc": "balanced", "kind": kind, "dim": dim, "et": et, "solver": "scipy"})
        out.append({"sc": "lsq", "kind": "phasefield", "dim": 2, "et": "TRI3", "solver": "lsq_linear"})
        out.append({"sc": "lsq", "kind": "phasefield", "dim": 2, "et": "QUAD4", "solver": "lsq_linear"})
        # a damage value prescribed on some nodes (the usual way to enter a pre-crack): the damage sub-problem is then a reduced system
        for pfs in ("BoundConstrain", "History", "HistoryDamage"):
            out.append({"sc": "lsq", "kind": "phasefield", "dim": 2, "et": ["TRI3", "QUAD4"][r % 2], "solver": "lsq_linear" if pfs == "BoundConstrain" else "scipy", "precrack": pfs})
    for i, c in enumerate(out):
        c["id"] = f"C04-{i:05d}-{c['sc']}-{c['kind']}-{c['et']}-{c['solver']}"
        c["index"] = i
    for c in _suite.suite_cases(PROP, tier):
        c["index"] = len(out)
        out.append(c)
    return out


# ------------------------------------------------------------------------------------------
def _make(kind: str, rng, dim, et, bc=False):
    if kind == "weakforms2":
        return _sims.make("weakforms", rng, dim, et, bc=bc, dof_n=2)
    if kind == "beam2":
        return _sims.make("beam", rng, 2, et, bc=bc, bdim=2, theory="EB")
    if kind == "beam3":
        return _sims.make("beam", rng, 3, et, bc=bc, bdim=3, theory="Timo")
    if kind in ("probe", "probe-unsym"):
        with quiet():
            mesh, (Lx, Ly, h) = _sims.small_mesh(rng, dim, et)
            dof_n = 2
            simu = ProbeSimu(mesh, dof_n)
            local = {}
            for g in mesh.Get_list_groupElem(mesh.dim):
                nl = g.nPe * dof_n
                B = rng.normal(size=(g.Ne, nl, nl))
                Ke = B @ B.transpose(0, 2, 1) + 0.5 * np.eye(nl)  # SPD element matrices -> SPD global matrix
                if kind == "probe-unsym":
                    # a non-symmetric operator (advection-like term) whose symmetric part stays positive definite
                    W = rng.normal(size=(g.Ne, nl, nl))
                    Ke = Ke + 0.8 * (W - W.transpose(0, 2, 1))
                Fe = rng.normal(size=(g.Ne, nl))
                local[g] = (Ke, None, None, Fe)
            simu.local = local
        return simu, {"kind": kind, "Lx": Lx, "n0": _sims.nodes_x(mesh, 0.0), "nL": _sims.nodes_x(mesh, Lx), "dim": dim, "et": et}
    return _sims.make(kind, rng, dim, et, bc=bc)


class Shadow:
    """Shadow model of the boundary-condition program, built from the arguments the harness passes."""

    def __init__(self, simu, pt=None):
        self.simu = simu
        self.pt = pt if pt is not None else simu.problemType
        self.unknowns = simu.Get_unknowns(self.pt)
        self.dof_n = simu.Get_dof_n(self.pt)
        self.N = simu.mesh.Nn * self.dof_n
        self.dir_sum = np.zeros(self.N)
        self.dir_count = np.zeros(self.N, dtype=int)
        self.program = []

    def dirichlet(self, nodes, values, unknowns):
        X = self.simu.mesh.coord
        nodes = np.asarray(nodes, dtype=int)
        for v, u in zip(values, unknowns):
            comp = self.unknowns.index(u)
            if callable(v):
                val = v(X[nodes, 0], X[nodes, 1], X[nodes, 2]) * np.ones(len(nodes))
            else:
                val = np.asarray(v, dtype=float) * np.ones(len(nodes))
            dofs = nodes * self.dof_n + comp
            np.add.at(self.dir_sum, dofs, val)
            np.add.at(self.dir_count, dofs, 1)
        self.program.append(("dirichlet", len(nodes), list(unknowns), ["callable" if callable(v) else ("array" if np.ndim(v) else "const") for v in values]))
        self.simu.add_dirichlet(nodes, values, unknowns, self.pt) if self.pt != self.simu.problemType else self.simu.add_dirichlet(nodes, values, unknowns)

    @property
    def known(self):
        return np.where(self.dir_count > 0)[0]


def _random_bc_program(rng, simu, info, sh: Shadow, heavy_dups: bool = True):
    mesh = simu.mesh
    used = gm.used_nodes(mesh)
    X = mesh.coord
    n0, nL = info["n0"], info["nL"]
    unknowns = sh.unknowns
    dof_n = sh.dof_n
    ops = []
    # 1) make it well posed: all unknowns fixed at x=0
    sh.dirichlet(n0, [0.0] * dof_n, unknowns)
    scale = 0.01
    nops = int(rng.integers(2, 6))
    for _ in range(nops):
        which = rng.choice(["const", "array", "callable", "dup-n0", "overlap", "single-node"])
        nu = int(rng.integers(1, dof_n + 1))
        us = list(rng.choice(unknowns, nu, replace=False))
        if which == "dup-n0":
            nodes = n0 if rng.random() < 0.5 else n0[: max(1, len(n0) // 2)]
            vals = [float(rng.uniform(-1, 1) * scale) for _ in us]
        elif which == "overlap":
            nodes = np.unique(np.concatenate([nL, rng.choice(used, 3)]))
            vals = [float(rng.uniform(-1, 1) * scale) for _ in us]
        elif which == "single-node":
            nodes = rng.choice(used, 1)
            vals = [float(rng.uniform(-1, 1) * scale) for _ in us]
        elif which == "array":
            nodes = nL
            vals = [rng.uniform(-1, 1, len(nodes)) * scale for _ in us]
        elif which == "callable":
            nodes = nL
            cs = rng.uniform(-1, 1, (len(us), 3)) * scale
            vals = [(lambda x, y, z, c=c: c[0] * x + c[1] * y + c[2] * x * z) for c in cs]
        else:
            nodes = nL
            vals = [float(rng.uniform(-1, 1) * scale) for _ in us]
        sh.dirichlet(nodes, vals, us)
    # Neumann loads (do not enter the constraint oracle; enter the residual through Bc_vector_Neumann)
    free_nodes = np.setdiff1d(used, np.concatenate([n0, nL]))
    if len(free_nodes):
        nd = rng.choice(free_nodes, min(3, len(free_nodes)), replace=False)
        simu.add_neumann(nd, [float(rng.uniform(-1, 1))], [unknowns[0]])
        if rng.random() < 0.5:
            simu.add_neumann(nd[:1], [lambda x, y, z: 0.3 + x], [unknowns[-1]])  # second load on the same node


def _residual_checks(ctx: Ctx, simu, sh: Shadow, u, key, tol_res, oracle="free-residual", iterative=False):
    pt = sh.pt
    K, C, M, F = simu.Get_K_C_M_F(pt) if pt != simu.problemType or True else simu.Get_K_C_M_F()
    n = sh.N
    K = K[:n, :n]
    b = F.toarray().ravel()[:n] + simu.Bc_vector_Neumann(pt)
    known = sh.known
    used_nodes = gm.used_nodes(simu.mesh)
    used_dofs = (used_nodes[:, None] * sh.dof_n + np.arange(sh.dof_n)).ravel()
    free = np.setdiff1d(used_dofs, known)
    ctx.check("constraint-values", relerr(u[known], sh.dir_sum[known], scale=np.abs(sh.dir_sum).max() or 1.0), 1e-12,
              key + "/constraint-values", n_known=len(known), n_multi=int((sh.dir_count > 1).sum()))
    bd = simu.Bc_vector_Dirichlet(pt)
    ctx.check("Bc_vector_Dirichlet", relerr(bd[known], sh.dir_sum[known], scale=np.abs(sh.dir_sum).max() or 1.0), 1e-12, key + "/Bc_vector_Dirichlet")
    r = (K @ u - b)[free]
    if iterative:
        xk = np.zeros(n)
        xk[known] = sh.dir_sum[known]
        bi = (b - K @ xk)[free]
        err = np.linalg.norm(r) / max(np.linalg.norm(bi), 1e-300)
    else:
        rows = np.asarray(abs(K) @ np.abs(u)).ravel()[free] + np.abs(b[free])
        # (a row whose dofs and neighbours are at rest - e.g. outside the stretch of a self-equilibrated pair of forces - has a scale of
        # round-off size itself: rows are judged against at least 1e-3 of the largest row scale)
        rows = np.maximum(rows, 1e-3 * rows.max()) if len(free) else rows
        err = float(np.max(np.abs(r) / np.maximum(rows, 1e-300))) if len(free) else 0.0
    ctx.check(oracle, err, tol_res, key + "/" + oracle, n_free=len(free))
    ctx.finite("finite-solution", u, key + "/finite")
    return len(known) > 0 and len(free) > 0 and np.abs(u).max() > 0


def run_case(case: dict, ctx: Ctx) -> None:
    if case.get("fam") == "suite":
        return _suite.run_suite(case, ctx, PROP)
    rng = np.random.default_rng([case["seed"], NUM, case["index"]])
    {"history": run_history, "bcprog": run_bcprog, "orphans": run_orphans, "backend": run_backend, "lagrange": run_lagrange,
     "connection": run_connection, "joint3": run_joint3, "balanced": run_balanced, "newton": run_newton, "lsq": run_lsq}[case["sc"]](case, ctx, rng)


# ------------------------------------------------------------------------------------------
def run_history(case, ctx, rng):
    """Several load cases on ONE simulation object, separated by Bc_Init(): each new condition set has the same number
    of conditions and of constrained dofs as the previous one but sits on other nodes / components (anything cached
    from the previous set and keyed by counts would be reused wrongly)."""
    key = f"C04/history/{case['kind']}"
    ctx.default_key = key
    with ctx.monitored("no-exception", key + "/raised"):
        simu, info = _make(case["kind"], rng, case["dim"], case["et"])
    used = gm.used_nodes(simu.mesh)
    k = max(2, min(5, len(used) // 4))
    nt = False
    programs = []
    for step in range(4):
        with ctx.monitored("no-exception", key + "/raised"):
            with quiet(), ctx.capture_warnings():
                simu.Bc_Init()
                sh = Shadow(simu)
                perm = rng.permutation(used)
                A, B = perm[:k], perm[k:2 * k]
                # same call pattern every time: all unknowns on A (zero), first unknown on B (non-zero), one load
                sh.dirichlet(A, [0.0] * sh.dof_n, sh.unknowns)
                comp = sh.unknowns[step % sh.dof_n]
                sh.dirichlet(B, [0.01 * (step + 1)], [comp])
                rest = perm[2 * k:]
                if len(rest):
                    simu.add_neumann(rest[:1], [0.5], [sh.unknowns[-1]])
                u = simu.Solve()
        nt |= _residual_checks(ctx, simu, sh, u, key + f"/step{min(step, 1)}", 1e-9)
        programs.append([int(len(A)), int(len(B)), comp])
    ctx.describe(f"history/{case['kind']}/{case['et']}", nt, kind=case["kind"], et=case["et"], steps=4, programs=programs)


def run_bcprog(case, ctx, rng):
    key = f"C04/bcprog/{case['kind']}"
    ctx.default_key = key
    with ctx.monitored("no-exception", key + "/raised"):
        simu, info = _make(case["kind"], rng, case["dim"], case["et"])
        sh = Shadow(simu)
        with quiet(), ctx.capture_warnings() as w:
            _random_bc_program(rng, simu, info, sh)
            u = simu.Solve()
    ctx.require("no-singular-warning", not any("ingular" in str(x.message) for x in w), key + "/singular-warning")
    nt = _residual_checks(ctx, simu, sh, u, key, 1e-9)
    ctx.describe(f"bcprog/{case['kind']}/{case['et']}", nt, kind=case["kind"], et=case["et"], program=sh.program,
                 n_known=int(len(sh.known)), n_multi=int((sh.dir_count > 1).sum()), Ndof=sh.N)


def run_orphans(case, ctx, rng):
    key = f"C04/orphans/{case['kind']}"
    ctx.default_key = key
    kind, dim, et = case["kind"], case["dim"], case["et"]
    with ctx.monitored("no-exception", key + "/raised"):
        with quiet():
            mesh, (Lx, Ly, h) = _sims.small_mesh(rng, dim, et)
            nextra = int(rng.integers(1, 4))
            perm = None
            if rng.random() < 0.5:  # orphans in the middle of the numbering, not only at the end
                perm = rng.permutation(mesh.Nn + nextra)
            mesh_o = gm.rebuild(mesh, extra_nodes=nextra, perm=perm)
            n0, nL = _sims.nodes_x(mesh_o, 0.0), _sims.nodes_x(mesh_o, Lx)
            if kind == "elastic":
                simu = Simulations.Elastic(mesh_o, Models.Elastic.Isotropic(dim, E=10.0, v=0.3))
            else:
                simu = Simulations.Thermal(mesh_o, Models.Thermal(k=2.0))
        sh = Shadow(simu)
        with quiet(), ctx.capture_warnings() as w:
            sh.dirichlet(n0, [0.0] * sh.dof_n, sh.unknowns)
            sh.dirichlet(nL, [0.01], [sh.unknowns[0]])
            u = simu.Solve()
    ctx.require("orphans-detected", len(mesh_o.orphanNodes) == nextra, key + "/orphans-detected", got=len(mesh_o.orphanNodes), want=nextra)
    ctx.require("orphans-no-singular-warning", not any("ingular" in str(x.message) for x in w), key + "/singular-warning",
                warnings=[str(x.message)[:100] for x in w])
    ctx.finite("orphans-finite", u, key + "/finite")
    nt = _residual_checks(ctx, simu, sh, u, key, 1e-9)
    ctx.describe(f"orphans/{kind}/{et}/perm={perm is not None}", nt, kind=kind, et=et, n_orphans=nextra, permuted=perm is not None)


def run_backend(case, ctx, rng):
    solver = case["solver"]
    key = f"C04/backend/{solver}"
    ctx.default_key = key
    with ctx.monitored("no-exception", key + "/raised"):
        simu, info = _make(case["kind"], rng, case["dim"], case["et"])
        sh = Shadow(simu)
        with quiet():
            _random_bc_program(rng, simu, info, sh)
            simu.solver = SolverType.scipy
            u_ref = simu.Solve().copy()
            simu._Set_solutions(simu.problemType, np.zeros_like(u_ref))
            simu.solver = SolverType(solver)
            u = simu.Solve()
    nt = _residual_checks(ctx, simu, sh, u, key, 1e-4, oracle="backend-residual", iterative=True)
    # agreement with the direct solution up to the conditioning of the reduced matrix
    K = simu.Get_K_C_M_F()[0]
    free = np.setdiff1d(np.arange(sh.N), sh.known)
    used = gm.used_nodes(simu.mesh)
    ud = (used[:, None] * sh.dof_n + np.arange(sh.dof_n)).ravel()
    free = np.intersect1d(free, ud)
    Kff = K[free][:, free].toarray()
    cond = np.linalg.cond(Kff)
    ctx.check("backend-vs-direct", relerr(u, u_ref), 1e-4 * max(cond, 1.0), key + "/vs-direct", cond=cond)
    ctx.describe(f"backend/{solver}/{case['kind']}/{case['et']}", nt, solver=solver, kind=case["kind"], et=case["et"], cond=cond)


def _kkt_reference(K, b, known_dofs, known_vals, lag_rows):
    """Dense saddle-point solve: K u + G^T l = b ; G u = g with one row per Dirichlet dof (duplicates summed
    beforehand) and per Lagrange condition."""
    n = K.shape[0]
    rows = []
    rhs = []
    for d, v in zip(known_dofs, known_vals):
        r = np.zeros(n)
        r[d] = 1.0
        rows.append(r)
        rhs.append(v)
    for dofs, coefs, val in lag_rows:
        r = np.zeros(n)
        r[dofs] = coefs
        rows.append(r)
        rhs.append(val)
    G = np.array(rows)
    m = len(rows)
    A = np.block([[K, G.T], [G, np.zeros((m, m))]])
    sol = np.linalg.solve(A, np.concatenate([b, rhs]))
    return sol[:n]


def run_lagrange(case, ctx, rng):
    dup = case["dup"]
    key = f"C04/lagrange/{case['kind']}/dup={dup}"
    ctx.default_key = key
    with ctx.monitored("lagrange-no-exception", key + "/raised"):
        simu, info = _make(case["kind"], rng, case["dim"], case["et"])
        sh = Shadow(simu)
        pt = simu.problemType
        used = gm.used_nodes(simu.mesh)
        with quiet(), ctx.capture_warnings() as w:
            sh.dirichlet(info["n0"], [0.0] * sh.dof_n, sh.unknowns)
            sh.dirichlet(info["nL"], [0.01], [sh.unknowns[0]])
            if dup:
                sh.dirichlet(info["nL"][:1], [0.005], [sh.unknowns[0]])  # same dof entered twice
            # tie two free nodes: u_a - u_b = delta
            free_nodes = np.setdiff1d(used, np.concatenate([info["n0"], info["nL"]]))
            a, b_ = rng.choice(free_nodes, 2, replace=False)
            un = sh.unknowns[int(rng.integers(sh.dof_n))]
            dofs = simu.Bc_dofs_nodes(np.array([a, b_]), [un], pt)
            delta = float(rng.uniform(-1, 1) * 1e-3)
            simu._Bc_Add_Lagrange(LagrangeCondition(pt, np.array([a, b_]), dofs, [un], np.array([delta]), np.array([1.0, -1.0]), "tie"))
            u = simu.Solve()
            K, C, M, F = simu.Get_K_C_M_F()
            fN = simu.Bc_vector_Neumann()
    n = sh.N
    Kd = K[:n, :n].toarray()
    b = F.toarray().ravel()[:n] + fN
    # orphan-free meshes here; restrict to used dofs
    ud = (used[:, None] * sh.dof_n + np.arange(sh.dof_n)).ravel()
    idx = {d: i for i, d in enumerate(ud)}
    kn = [d for d in sh.known if d in idx]
    ref = _kkt_reference(Kd[np.ix_(ud, ud)], b[ud], [idx[d] for d in kn], sh.dir_sum[kn], [([idx[d] for d in dofs], np.array([1.0, -1.0]), delta)])
    ctx.finite("lagrange-finite", u, key + "/finite")
    ctx.check("lagrange-vs-kkt", relerr(u[ud], ref), 1e-7, key + "/vs-kkt")
    ctx.check("lagrange-tie-satisfied", abs((u[dofs[0]] - u[dofs[1]]) - delta) / max(abs(delta), np.abs(u).max()), 1e-9, key + "/tie")
    ctx.check("constraint-values", relerr(u[sh.known], sh.dir_sum[sh.known], scale=np.abs(sh.dir_sum).max()), 1e-9, key + "/constraint-values")
    ctx.describe(f"lagrange/{case['kind']}/{case['et']}/dup={dup}", True, kind=case["kind"], dup=dup, Ndof=n, tie=[int(a), int(b_), un, delta])


def run_connection(case, ctx, rng):
    """L-shaped two-member frame: corner welded (fixed) or hinged through Lagrange conditions; compared with the dense KKT solve."""
    bdim, theory, conn, et = case["dim"], case["theory"], case["conn"], case["et"]
    key = f"C04/connection/{bdim}D/{theory}/{conn}"
    ctx.default_key = key
    from EasyFEA import ElemType, Mesher
    from EasyFEA.Geoms import Line, Point

    L1, L2 = float(rng.uniform(1, 2)), float(rng.uniform(1, 2))
    with ctx.monitored("no-exception", key + "/raised"):
        with quiet():
            l1 = Line(Point(0, 0), Point(L1, 0), L1 / 3)
            l2 = Line(Point(L1, 0), Point(L1, L2), L2 / 3)
            b1 = Models.Beam.Isotropic(bdim, l1, bcm.rect_section(0.1, 0.2), 1e4, 0.3)
            b2 = Models.Beam.Isotropic(bdim, l2, bcm.rect_section(0.1, 0.2), 1e4, 0.3)
            mesh = Mesher().Mesh_Beams([b1, b2], elemType=ElemType(et))
            simu = Simulations.Beam(mesh, Models.Beam.BeamStructure([b1, b2]), useTimoshenko=(theory == "Timo"))
            mesh = simu.mesh
            clamp = mesh.Nodes_Point(Point(0, 0))
            corner = mesh.Nodes_Point(Point(L1, 0))
            tip = mesh.Nodes_Point(Point(L1, L2))
            sh = Shadow(simu)
            sh.dirichlet(clamp, [0.0] * sh.dof_n, sh.unknowns)
            if conn == "fixed":
                simu.add_connection_fixed(corner)
                tied = list(sh.unknowns)
            else:
                simu.add_connection_hinged(corner)
                tied = ["x", "y"] if bdim == 2 else None
                # hinged leaves the tip member free to rotate about the corner: hold the tip translations instead of loading it
            if conn == "hinged":
                sh.dirichlet(tip, [0.0] * bdim, sh.unknowns[:bdim])
                simu.add_neumann(corner[:1], [1.0], ["y"])
            else:
                simu.add_neumann(tip, [1.0], ["x"])
            u = simu.Solve()
            K, C, M, F = simu.Get_K_C_M_F()
            fN = simu.Bc_vector_Neumann()
    ctx.require("connection-two-corner-nodes", len(corner) == 2, key + "/corner-nodes", n=len(corner))
    n = sh.N
    U = u.reshape(-1, sh.dof_n)
    lag = simu.Bc_Lagrange
    lag_rows = [(bc_.dofs, bc_.lagrangeCoefs, float(bc_.dofsValues[0])) for bc_ in lag]
    worst = 0.0
    for dofs, coefs, val in lag_rows:
        worst = max(worst, abs(float(coefs @ u[dofs]) - val))
    ctx.check("connection-satisfied", worst / max(np.abs(u).max(), 1e-300), 1e-9, key + "/satisfied", n_lagrange=len(lag_rows))
    tied_now = sorted({bc_.unknowns[0] for bc_ in lag})
    if conn == "fixed":
        ctx.require("connection-kind", tied_now == sorted(sh.unknowns), key + "/kind", tied=tied_now)
    elif bdim == 2:
        # a planar hinge transmits the two translations and leaves the relative rotation free
        ctx.require("connection-kind", tied_now == ["x", "y"], key + "/kind", tied=tied_now)
        rz = U[corner, sh.unknowns.index("rz")]
        ctx.require("hinge-rotation-free", abs(rz[0] - rz[1]) > 1e-9 * np.abs(U).max(), key + "/hinge-free", rz=rz)
    ref = _kkt_reference(K[:n, :n].toarray(), F.toarray().ravel()[:n] + fN, list(sh.known), sh.dir_sum[sh.known], lag_rows)
    ctx.check("lagrange-vs-kkt", relerr(u, ref), 1e-7, key + "/vs-kkt")
    ctx.check("constraint-values", relerr(u[sh.known], sh.dir_sum[sh.known], scale=1.0), 1e-10, key + "/constraint-values")
    ctx.finite("lagrange-finite", u, key + "/finite")
    # a further Dirichlet condition entered after the system with its multipliers has been assembled and solved (conditions may come
    # in any order): a non-zero value on a tip translation that was free so far
    if conn == "fixed":
        with ctx.monitored("no-exception", key + "/late-dirichlet/raised"):
            with quiet():
                late = float(rng.uniform(0.5, 2.0)) * 1e-3
                sh.dirichlet(tip, [late], ["y"])
                u1 = simu.Solve()
                K1, _, _, F1 = simu.Get_K_C_M_F()
                fN1 = simu.Bc_vector_Neumann()
            lag_rows1 = [(bc_.dofs, bc_.lagrangeCoefs, float(bc_.dofsValues[0])) for bc_ in simu.Bc_Lagrange]
            ref1 = _kkt_reference(K1[:n, :n].toarray(), F1.toarray().ravel()[:n] + fN1, list(sh.known), sh.dir_sum[sh.known], lag_rows1)
            ctx.check("lagrange-vs-kkt", relerr(u1, ref1), 1e-7, key + "/late-dirichlet/vs-kkt")
            ctx.check("constraint-values", relerr(u1[sh.known], sh.dir_sum[sh.known], scale=late), 1e-9, key + "/late-dirichlet/constraint-values")
            ctx.event("late-dirichlet-with-connection")
    # the connection is released on the same simulation object: Bc_Init, then each member is held on its own (both ends of the
    # frame clamped) and the two corner nodes are loaded differently; no multiplier is left in the system
    with ctx.monitored("no-exception", key + "/released/raised"):
        with quiet():
            simu.Bc_Init()
            sh2 = Shadow(simu)
            sh2.dirichlet(clamp, [0.0] * sh2.dof_n, sh2.unknowns)
            sh2.dirichlet(tip, [0.0] * sh2.dof_n, sh2.unknowns)
            simu.add_neumann(corner[:1], [1.0], ["y"])
            simu.add_neumann(corner[1:], [-0.5], ["x"])
            u2 = simu.Solve()
            K2, _, _, F2 = simu.Get_K_C_M_F()
            fN2 = simu.Bc_vector_Neumann()
    ctx.require("released-system-size", K2.shape == (n, n) and u2.size == n, key + "/released/size", K=list(K2.shape), u=int(u2.size), n=n)
    if K2.shape == (n, n) and u2.size == n:
        ref2 = _kkt_reference(K2.toarray(), F2.toarray().ravel() + fN2, list(sh2.known), sh2.dir_sum[sh2.known], [])
        ctx.check("lagrange-vs-kkt", relerr(u2, ref2), 1e-7, key + "/released/vs-kkt")
        U2 = u2.reshape(-1, sh2.dof_n)
        ctx.require("released-members-independent", float(np.abs(U2[corner[0]] - U2[corner[1]]).max()) > 1e-9 * np.abs(u2).max(), key + "/released/independent")
    ctx.describe(f"connection/{bdim}D/{et}/{theory}/{conn}", np.abs(u).max() > 0, bdim=bdim, theory=theory, conn=conn, n_lagrange=len(lag_rows),
                 unknowns_tied=sorted({bc_.unknowns[0] for bc_ in lag}))


def run_balanced(case, ctx, rng):
    """Loads whose nodal values cancel exactly (the right-hand side sums to 0.0 while none of its entries is zero), first with a
    homogeneous support, then with a prescribed value whose own contribution is balanced in the same way."""
    kind = case["kind"]
    key = f"C04/balanced/{kind}"
    ctx.default_key = key
    with ctx.monitored("no-exception", key + "/raised"):
        simu, info = _make(kind, rng, case["dim"], case["et"], bc=False)
        if kind == "probe":
            for g in list(simu.local):
                Ke, _, _, Fe = simu.local[g]
                simu.local[g] = (Ke, None, None, None)  # no body load: the point loads are the whole right-hand side
    sh = Shadow(simu)
    mesh = simu.mesh
    used = gm.used_nodes(mesh)
    free_nodes = np.setdiff1d(used, info["n0"])
    P = float(2 ** int(rng.integers(0, 11)))  # exactly representable, +P - P == 0.0 in any order
    nontrivial = False
    for phase in ("homogeneous-support", "prescribed-value"):
        with ctx.monitored("no-exception", f"{key}/{phase}/raised"):
            with quiet():
                simu.Bc_Init()
                sh = Shadow(simu)
                sh.dirichlet(info["n0"], [0.0] * sh.dof_n, sh.unknowns)
                if phase == "prescribed-value":
                    sh.dirichlet(info["nL"][:1], [1e-3], [sh.unknowns[0]])
                pool = np.setdiff1d(free_nodes, info["nL"][:1])
                if len(pool) < 2:
                    pool = free_nodes  # (a short member: the prescribed value and a load may share the end node, other unknowns)
                na, nb = rng.choice(pool, 2, replace=False)
                if kind.startswith("beam") and rng.random() < 0.5:
                    # a force and a couple of opposite values on one node
                    simu.add_neumann(np.array([na]), [P], ["y"])
                    simu.add_neumann(np.array([na]), [-P], ["rz"])
                else:
                    u0 = sh.unknowns[int(rng.integers(len(sh.unknowns) if not kind.startswith("beam") else 2))]
                    simu.add_neumann(np.array([na]), [P], [u0])
                    simu.add_neumann(np.array([nb]), [-P], [u0])
                fN = simu.Bc_vector_Neumann()
                u = simu.Solve()
        ctx.require("loads-cancel-exactly", float(fN.sum()) == 0.0 and np.count_nonzero(fN) == 2, f"{key}/{phase}/harness-loads", total=float(fN.sum()), nonzero=int(np.count_nonzero(fN)))
        nontrivial |= _residual_checks(ctx, simu, sh, np.asarray(u, float), f"{key}/{phase}", 1e-9)
        ctx.require("solution-not-zero", float(np.abs(u).max()) > 0, f"{key}/{phase}/non-zero")
        ctx.event("balanced-loads-solved")
    ctx.describe(f"balanced/{kind}/{case['et']}", nontrivial, kind=kind, et=case["et"], P=P)


def run_joint3(case, ctx, rng):
    """Three members meeting in one point (a T-shaped frame), welded by one `add_connection_fixed` on the three coincident nodes;
    the solution must carry one value per tied unknown at the joint and equal the dense KKT solve with the harness' own tie rows."""
    bdim, theory, et = case["dim"], case["theory"], case["et"]
    key = f"C04/joint3/{bdim}D/{theory}"
    ctx.default_key = key
    from EasyFEA import ElemType, Mesher
    from EasyFEA.Geoms import Line, Point

    L1, L2, L3 = (float(x) for x in rng.uniform(1, 2, 3))
    with ctx.monitored("no-exception", key + "/raised"):
        with quiet():
            lines = [Line(Point(0, 0), Point(L1, 0), L1 / 3), Line(Point(L1, 0), Point(L1, L2), L2 / 3), Line(Point(L1, 0), Point(L1 + L3, 0), L3 / 3)]
            beams = [Models.Beam.Isotropic(bdim, l, bcm.rect_section(0.1, 0.2), 1e4, 0.3) for l in lines]
            mesh = Mesher().Mesh_Beams(beams, elemType=ElemType(et))
            simu = Simulations.Beam(mesh, Models.Beam.BeamStructure(beams), useTimoshenko=(theory == "Timo"))
            mesh = simu.mesh
            clamp, joint = mesh.Nodes_Point(Point(0, 0)), mesh.Nodes_Point(Point(L1, 0))
            tip2, tip3 = mesh.Nodes_Point(Point(L1, L2)), mesh.Nodes_Point(Point(L1 + L3, 0))
            sh = Shadow(simu)
            sh.dirichlet(clamp, [0.0] * sh.dof_n, sh.unknowns)
            simu.add_connection_fixed(joint)
            simu.add_neumann(tip2, [1.0], ["x"])
            simu.add_neumann(tip3, [-0.7], ["y"])
            u = simu.Solve()
            K, _, _, F = simu.Get_K_C_M_F()
            fN = simu.Bc_vector_Neumann()
    ctx.require("joint-three-nodes", len(joint) == 3, key + "/joint-nodes", n=len(joint))
    n = sh.N
    U = u.reshape(-1, sh.dof_n)
    ctx.check("connection-satisfied", float(np.abs(U[joint] - U[joint[0]]).max()) / max(np.abs(u).max(), 1e-300), 1e-9, key + "/one-value-at-the-joint")
    # the harness' own rows: node 0 tied to node 1 and to node 2, every unknown
    rows = []
    for j in (1, 2):
        for c in range(sh.dof_n):
            rows.append((np.array([joint[0] * sh.dof_n + c, joint[j] * sh.dof_n + c]), np.array([1.0, -1.0]), 0.0))
    ref = _kkt_reference(K[:n, :n].toarray(), F.toarray().ravel()[:n] + fN, list(sh.known), sh.dir_sum[sh.known], rows)
    ctx.check("lagrange-vs-kkt", relerr(u, ref), 1e-7, key + "/vs-kkt")
    ctx.require("joint-transmits-load", float(np.abs(U[tip3]).max()) > 1e-9 and float(np.abs(U[tip2]).max()) > 1e-9, key + "/loaded")
    ctx.finite("lagrange-finite", u, key + "/finite")
    ctx.describe(f"joint3/{bdim}D/{et}/{theory}", np.abs(u).max() > 0, bdim=bdim, theory=theory, n_lagrange=len(simu.Bc_Lagrange))


def run_newton(case, ctx, rng):
    kind = case["kind"]
    key = f"C04/newton/{kind}"
    ctx.default_key = key
    with ctx.monitored("no-exception", key + "/raised"):
        simu, info = _make(kind, rng, case["dim"], case["et"])
        dim = case["dim"]
        names = simu.Get_unknowns()
        nsteps = 3
        worst = 0.0
        finite = True
        with quiet():
            for step in range(1, nsteps + 1):
                simu.Bc_Init()
                sh = Shadow(simu)
                sh.dirichlet(info["n0"], [0.0] * dim, names)
                amp = 0.02 * step
                sh.dirichlet(info["nL"], [amp, lambda x, y, z: 0.1 * amp * y], names[:2])
                if step == 2:
                    sh.dirichlet(info["nL"][:1], [0.001], [names[0]])  # duplicated dof, incremental path
                u = simu.Solve()
                simu.Save_Iter()
                worst = max(worst, relerr(u[sh.known], sh.dir_sum[sh.known], scale=np.abs(sh.dir_sum).max()))
                finite &= bool(np.all(np.isfinite(u)))
    ctx.check("newton-constraint-values", worst, 1e-10, key + "/constraint-values", steps=nsteps)
    ctx.require("finite-solution", finite, key + "/finite")
    ctx.describe(f"newton/{kind}/{case['et']}", True, kind=kind, et=case["et"], steps=nsteps)


def run_lsq(case, ctx, rng):
    """bounded least squares through the phase-field BoundConstrain path: the damage sub-problem must satisfy
    its bounds and the displacement sub-problem its constraints."""
    pre = case.get("precrack")
    key = "C04/lsq/phasefield" if not pre else f"C04/precrack/phasefield/{pre}"
    ctx.default_key = key
    d = np.zeros(1)
    with ctx.monitored("no-exception", key + "/raised"):
        simu, info = _sims.make("phasefield", rng, 2, case["et"], bc=False, pfsolver=pre or "BoundConstrain")
        with quiet():
            worst, worstd = 0.0, 0.0
            dprev = simu.damage
            mesh = simu.mesh
            # pre-crack: the nodes of the lower half nearest to the middle of the bar
            xm = info["Lx"] / 2
            col = mesh.coord[np.argmin(np.abs(mesh.coord[:, 0] - xm)), 0]
            used_ = gm.used_nodes(mesh)
            ncrack = used_[(np.abs(mesh.coord[used_, 0] - col) < 1e-9) & (mesh.coord[used_, 1] <= mesh.coord[used_, 1].mean())]
            if len(ncrack) == 0:
                # (an unstructured mesh has no column of nodes: the node nearest to the middle of the bar and its neighbours)
                ncrack = used_[np.argsort(np.hypot(mesh.coord[used_, 0] - xm, mesh.coord[used_, 1] - mesh.coord[used_, 1].min()))[:2]]
            dval = float(rng.choice([1.0, 0.6]))
            for step in range(1, 4):
                simu.Bc_Init()
                sh = Shadow(simu, simu.ProblemTypes.elastic)
                sh.dirichlet(info["n0"], [0.0, 0.0], ["x", "y"])
                sh.dirichlet(info["nL"], [2e-3 * step], ["x"])
                if pre:
                    simu.add_dirichlet(ncrack, [dval], ["d"], problemType=simu.ProblemTypes.damage)
                u, d, conv = simu.Solve()
                simu.Save_Iter()
                worst = max(worst, relerr(u[sh.known], sh.dir_sum[sh.known], scale=np.abs(sh.dir_sum).max()))
                if pre:
                    worstd = max(worstd, float(np.abs(np.asarray(d)[ncrack] - dval).max()))
                if not pre or pre == "BoundConstrain":
                    ctx.check("lsq-bounds", max(0.0, float(np.max(dprev - d)), float(np.max(d - 1.0))), 1e-9, key + "/bounds", step=step)
                dprev = d.copy()
    ctx.check("constraint-values", worst, 1e-12, key + "/constraint-values")
    if pre:
        ctx.check("constraint-values", worstd, 1e-12, key + "/damage-constraint-values", nodes=int(ncrack.size), value=dval)
        ctx.event("precrack-solved")
    ctx.finite("finite-solution", d, key + "/finite")
    ctx.describe(f"lsq/phasefield/{case['et']}" + (f"/precrack-{pre}" if pre else ""), float(np.max(d)) > 0, et=case["et"], dmax=float(np.max(d)))
