"""C14 — after any sequence of changes a simulation behaves like a freshly built one.

Oracle: the fresh twin. The harness records the configuration as data (coordinates and connectivities it tracks
itself, model parameters, density, damping, BC program, algorithm settings, restored state) and builds a brand-new
mesh / model / simulation from it at every observation point; live and twin must give the same matrices,
solution and results. The witness is the shortest operation prefix after which they differ.
"""

from __future__ import annotations

import copy

import numpy as np

from EasyFEA import AlgoType, Models, Simulations
from EasyFEA.FEM import BiLinearForm, Field, LinearForm

from . import _suite
from ..core import Ctx, quiet, relerr
from ..gen import meshes as gm
from . import _beam_common as bcm
from . import _sims
from .c08 import _apply_motion

PROP = "C14"
NUM = 14
RULE = (
    "cases = (simulation kind, element type) x seeded operation sequences (length 3-8 quick, up to 25 thorough) over model "
    "parameter writes, density and damping writes, Translate / Rotate / Symmetry, coordinate assignment (mesh and group "
    "level), mesh replacement, Bc_Init + re-add, algorithm switches, Save_Iter / Set_Iter, a model shared by two "
    "simulations, interleaved with Get_K_C_M_F / Solve / Result observations. Signature = (kind, element type, set of "
    "operation kinds in the sequence). Non-trivial iff the sequence holds >= 1 mutation between two observations."
)
ASSUMPTIONS = [
    "the twin is rebuilt from coordinates tracked by the harness (the same rigid motion applied to its own copy), never from caches of the live object",
    "matrices compared at 1e-11 relative, solutions at 1e-9 (1e-7 for Newton solutions)",
    "nonlinear simulations (PhaseField, HyperElastic, InElastic) are observed from the zero state only (their internal state is not part of the public configuration)",
    "beam meshes are not moved (the beam model owns the member axes, which Mesh.Rotate cannot update)",
]
TIMEOUT_CASE = 400
MIN_EVALS = {"twin-matrices": 60, "twin-solution": 30}
REQUIRED_COVERAGE = ["Need_Update", "mesh_setter", "Simu_Update", "param_set"]

LINEAR = ["elastic", "thermal", "beam", "weakforms"]
NONLINEAR = ["phasefield", "hyperelastic", "inelastic"]


def anchors():
    from EasyFEA.Simulations._simu import _Simu
    from EasyFEA.Utilities import _params
    from EasyFEA.FEM._mesh import Mesh
    from EasyFEA.FEM._group_elem import _GroupElem

    return [
        ("Need_Update", _Simu, "Need_Update"), ("Simu_Update", _Simu, "_Update"), ("mesh_setter", _Simu.__dict__["mesh"], "fset"),
        ("Update_mesh", _Simu, "_Simu__Update_mesh"), ("param_set", _params._Parameter, "__set__"),
        ("Mesh_Translate", Mesh, "Translate"), ("Mesh_coord_setter", Mesh.__dict__["coord"], "fset"),
        ("Group_coord_setter", _GroupElem.__dict__["coord"], "fset"),
    ]


def cases(tier: str, seed: int) -> list[dict]:
    out = []
    rep = 10 if tier == "quick" else 60
    nops = 10 if tier == "quick" else 22
    for r in range(rep):
        for kind, dim, et in [("elastic", 2, "TRI3"), ("elastic", 2, "QUAD8"), ("elastic", 3, "TETRA4"), ("elastic", 2, "TRI6"), ("thermal", 2, "QUAD4"),
                              ("thermal", 3, "PRISM6"), ("thermal", 1, "SEG3"), ("beam", 2, "SEG2"), ("beam", 3, "SEG3"), ("weakforms", 2, "TRI3"),
                              ("elastic-aniso", 2, "TRI3"), ("elastic-shared", 2, "QUAD4")]:
            out.append({"kind": kind, "dim": dim, "et": et, "nops": nops})
        for kind, dim, et in [("phasefield", 2, "TRI3"), ("hyperelastic", 2, "TRI3"), ("inelastic", 2, "QUAD4"), ("hyperelastic", 3, "TETRA4")]:
            out.append({"kind": kind, "dim": dim, "et": et, "nops": max(3, nops // 2)})
    # scripted histories: sequences in which a value is consumed (assembled, cached), then changed, then consumed again
    scripts = [
        ("hyperelastic", 2, "TRI3", ["algo:hyper", "obs", "param:thickness", "obs", "rho", "obs", "param:thickness", "param:K", "obs", "motion", "obs"]),
        ("hyperelastic", 2, "QUAD4", ["algo:hyper", "obs", "rho", "obs", "param:thickness", "obs"]),
        ("elastic", 2, "TRI3", ["param:array", "obs", "param:array", "obs", "motion", "obs", "param:array", "obs", "algo:hyper", "obs", "param:array", "obs"]),
        ("elastic", 3, "TETRA4", ["param:array", "obs", "param:array", "obs", "param:array", "coord", "obs"]),
        ("thermal", 2, "QUAD4", ["algo", "param:array", "obs", "param:array", "obs", "motion", "param:array", "obs", "param:array", "obs"]),
        ("thermal", 1, "SEG3", ["param:array", "obs", "param:array", "obs", "algo", "param:array", "obs"]),
        ("elastic", 2, "QUAD8", ["algo:hyper", "obs", "param:thickness", "obs", "rho", "obs", "param:thickness", "obs", "param:ps", "obs"]),
        ("thermal", 2, "TRI3", ["algo", "obs", "param:thickness", "obs", "rho", "obs", "param:thickness", "obs"]),
        ("elastic", 2, "QUAD4", ["obs", "save", "meshcopy", "obs", "save", "set_iter:first", "obs", "param:E", "obs", "meshcopy", "obs", "set_iter:first", "obs"]),
        ("thermal", 2, "TRI3", ["obs", "save", "meshcopy", "obs", "save", "set_iter:first", "obs", "param:k", "obs"]),
        ("elastic", 3, "TETRA4", ["obs", "save", "meshcopy", "obs", "save", "set_iter:first", "obs"]),
        ("phasefield", 2, "TRI3", ["obs", "param:E", "obs", "param:split", "obs", "param:E", "param:regu", "obs"]),
        ("inelastic", 2, "QUAD4", ["obs", "param:E", "obs", "param:v", "obs", "motion", "param:E", "obs"]),
    ]
    for r in range(2 if tier == "quick" else 12):
        for kind, dim, et, sc in scripts:
            out.append({"kind": kind, "dim": dim, "et": et, "nops": len(sc), "script": sc})
    for i, c in enumerate(out):
        c["id"] = f"C14-{i:05d}-{c['kind']}-{c['et']}"
        c["index"] = i
    for c in _suite.suite_cases(PROP, tier):
        c["index"] = len(out)
        out.append(c)
    return out


# ------------------------------------------------------------------------------------------
# configuration record and fresh construction
# ------------------------------------------------------------------------------------------
def model_from(cfg):
    k, p, dim = cfg["kind"], cfg["model"], cfg["dim"]
    # array-valued parameters: the twin gets its own copy of the content now held
    p = {n: (v.copy() if isinstance(v, np.ndarray) and v.dtype.kind == "f" and n not in ("a1", "a2") else v) for n, v in p.items()}
    if k in ("elastic", "elastic-shared"):
        return Models.Elastic.Isotropic(dim, E=p["E"], v=p["v"], planeStress=p["ps"], thickness=p["thickness"])
    if k == "elastic-aniso":
        return Models.Elastic.TransverselyIsotropic(dim, El=p["El"], Et=p["Et"], Gl=p["Gl"], vl=p["vl"], vt=p["vt"], axis_l=p["a1"], axis_t=p["a2"],
                                                    planeStress=p["ps"], thickness=p["thickness"])
    if k == "thermal":
        return Models.Thermal(k=p["k"], c=p["c"], thickness=p["thickness"])
    if k == "phasefield":
        mat = Models.Elastic.Isotropic(dim, E=p["E"], v=p["v"], planeStress=False, thickness=p["thickness"])
        return Models.PhaseField(mat, p["split"], p["regu"], p["Gc"], p["l0"])
    if k == "hyperelastic":
        return Models.HyperElastic.NeoHookean(dim, K=p["K"], thickness=p.get("thickness", 1.0))
    if k == "inelastic":
        el = Models.Elastic.Isotropic(3, E=p["E"], v=p["v"])
        from EasyFEA.Models import InElastic as IE

        return IE.Behavior(dim, el, yieldSurface=IE.Yield.VonMises(p["sigY"]), hardening=IE.IsotropicHardening.Linear(p["H"]), thickness=p["thickness"])
    raise ValueError(k)


DEBUG = False


def _dt(cfg):
    a = cfg["algo"]
    return a[1] if a[0] == "parabolic" else a[2]


def simu_from(cfg, mesh=None, model=None):
    """A brand-new simulation in the configuration described by cfg."""
    k = cfg["kind"]
    with quiet():
        if k == "beam":
            g = cfg["geom"]
            simu, mesh, beam, line = bcm.make_member(cfg["dim"], g["et"], g["theory"], g["p0"], g["p1"], g["n"], g["b"], g["h"], cfg["model"]["E"], cfg["model"]["v"])
        else:
            if mesh is None:
                mesh = gm.build_mesh(cfg["meshes"][cfg["imesh"]][0], cfg["meshes"][cfg["imesh"]][1])
            if k == "weakforms":
                th = cfg["model"]["thickness"]
                kk = cfg["model"]["k"]
                field = Field(mesh.groupElem, 1)
                wf = Models.WeakForms(field, BiLinearForm(lambda u, v: kk * u.grad.dot(v.grad)), computeC=BiLinearForm(lambda u, v: u.dot(v)),
                                      computeM=BiLinearForm(lambda u, v: 0.5 * u.dot(v)), computeF=LinearForm(lambda v: 1.0 * v), thickness=th)
                simu = Simulations.WeakForms(mesh, wf)
            else:
                model = model if model is not None else model_from(cfg)
                cls = {"elastic": Simulations.Elastic, "elastic-shared": Simulations.Elastic, "elastic-aniso": Simulations.Elastic, "thermal": Simulations.Thermal,
                       "phasefield": Simulations.PhaseField, "hyperelastic": Simulations.HyperElastic, "inelastic": Simulations.InElastic}[k]
                simu = cls(mesh, model, verbosity=False) if k == "hyperelastic" else cls(mesh, model)
        apply_settings(simu, cfg)
    return simu


def apply_settings(simu, cfg):
    k = cfg["kind"]
    if cfg.get("rho") is not None and k != "weakforms":
        simu.rho = cfg["rho"]
    if k.startswith("elastic") and cfg.get("damp"):
        simu.Set_Rayleigh_Damping_Coefs(*cfg["damp"])
    a = cfg["algo"]
    if a[0] == "parabolic":
        simu.Solver_Set_Parabolic_Algorithm(a[1], a[2])
    elif a[0] == "hyper":
        simu.Solver_Set_Hyperbolic_Algorithm(a[2], algo=AlgoType(a[1]), beta=a[3], gamma=a[4], alpha=a[5])
    else:
        simu.Solver_Set_Elliptic_Algorithm()
    replay_bcs(simu, cfg["bcs"])
    if cfg.get("state") is not None:
        pt = simu.problemType
        u, v, a_ = cfg["state"]
        # a component the current family of schemes never stored or read (e.g. the "acceleration" of a heat problem) is not state
        v = v if v is not None and v.shape == u.shape else None
        a_ = a_ if a_ is not None and a_.shape == u.shape else None
        simu._Set_solutions(pt, u.copy(), None if v is None else v.copy(), None if a_ is None else a_.copy())


def replay_bcs(simu, bcs):
    for b in bcs:
        if b[0] == "dirichlet":
            simu.add_dirichlet(b[1], b[2], b[3])
        elif b[0] == "neumann":
            simu.add_neumann(b[1], b[2], b[3])
        elif b[0] == "volume":
            simu.add_volumeLoad(b[1], b[2], b[3])


def standard_bcs(rng, simu, cfg):
    """A BC program on the current mesh of cfg: clamp at x-min, prescribed value at x-max, a nodal load."""
    # node sets are chosen on the coordinates the mesh was created with (motions keep the numbering): a rotated mesh would
    # otherwise offer a single corner node as "x-min face" and leave the problem singular
    if cfg["kind"] != "beam":
        X = cfg.setdefault("ref", {}).setdefault(cfg["imesh"], cfg["meshes"][cfg["imesh"]][0])
    else:
        X = simu.mesh.coord
    used = gm.used_nodes(simu.mesh)
    xs = X[used, 0]
    band = 1e-9 if cfg["kind"] == "beam" or cfg["dim"] == 1 else 0.25 * (xs.max() - xs.min())
    n0 = used[xs <= xs.min() + band]
    nL = used[xs >= xs.max() - band]
    un = simu.Get_unknowns() if cfg["kind"] != "phasefield" else ["x", "y"]
    bcs = [("dirichlet", n0, [0.0] * len(un), list(un)), ("dirichlet", nL, [float(rng.uniform(0.005, 0.02))], [un[0]])]
    rest = np.setdiff1d(used, np.concatenate([n0, nL]))
    if len(rest) and cfg["kind"] not in NONLINEAR:
        bcs.append(("neumann", rng.choice(rest, 1), [float(rng.uniform(-1, 1))], [un[-1]]))
    return bcs


# ------------------------------------------------------------------------------------------
def initial_cfg(case, rng):
    kind, dim, et = case["kind"], case["dim"], case["et"]
    cfg = {"kind": kind, "dim": dim, "rho": 1.0, "damp": None, "algo": ("elliptic",), "bcs": [], "state": None, "imesh": 0, "meshes": {}}
    if kind == "beam":
        L = float(rng.uniform(1, 3))
        cfg["geom"] = {"et": et, "theory": str(rng.choice(["EB", "Timo"])), "p0": (0, 0, 0), "p1": (L, 0, 0), "n": int(rng.integers(2, 5)), "b": 0.1, "h": 0.2}
        cfg["model"] = {"E": float(rng.uniform(1e3, 1e4)), "v": 0.3}
        return cfg
    with quiet():
        if dim == 1:
            m = gm.mesh1d(et, 2.0, 5)
        else:
            m, _ = _sims.small_mesh(rng, dim, et, size=1.3)
    cfg["meshes"][0] = gm.mesh_arrays(m)
    if kind in ("elastic", "elastic-shared"):
        cfg["model"] = {"E": float(rng.uniform(5, 50)), "v": float(rng.uniform(0.1, 0.4)), "ps": True, "thickness": 1.0}
    elif kind == "elastic-aniso":
        a1, a2 = np.array([np.cos(0.4), np.sin(0.4), 0]), np.array([-np.sin(0.4), np.cos(0.4), 0])
        cfg["model"] = {"El": 40.0, "Et": 15.0, "Gl": 8.0, "vl": 0.25, "vt": 0.3, "a1": a1, "a2": a2, "ps": True, "thickness": 1.0}
    elif kind == "thermal":
        cfg["model"] = {"k": float(rng.uniform(1, 5)), "c": 1.0, "thickness": 1.0}
    elif kind == "weakforms":
        cfg["model"] = {"k": 2.0, "thickness": 1.0}
    elif kind == "phasefield":
        cfg["model"] = {"E": 210.0, "v": 0.3, "thickness": 1.0, "split": "Miehe", "regu": "AT2", "Gc": 2.7, "l0": 0.3}
    elif kind == "hyperelastic":
        cfg["model"] = {"K": 50.0, "thickness": 1.0}
    elif kind == "inelastic":
        cfg["model"] = {"E": 1000.0, "v": 0.3, "sigY": 5.0, "H": 100.0, "thickness": 1.0}
    return cfg


def run_case(case: dict, ctx: Ctx) -> None:
    if case.get("fam") == "suite":
        return _suite.run_suite(case, ctx, PROP)
    rng = np.random.default_rng([case["seed"], NUM, case["index"]])
    kind, dim, et = case["kind"], case["dim"], case["et"]
    key0 = f"C14/{kind}"
    ctx.default_key = key0
    cfg = initial_cfg(case, rng)
    with ctx.monitored("no-exception", key0 + "/build/raised"):
        live = simu_from(cfg)
        model = live.model
        cfg["bcs"] = standard_bcs(rng, live, cfg)
        with quiet():
            replay_bcs(live, cfg["bcs"])
        second = None
        if kind == "elastic-shared":
            # a second simulation observing the same model object (on its own mesh)
            with quiet():
                second_arrays = cfg["meshes"][0]  # the second simulation keeps its own, never-moved mesh
                second = Simulations.Elastic(gm.build_mesh(*second_arrays), model)
                replay_bcs(second, cfg["bcs"])
    live_meshes = {0: live.mesh}
    saved = []  # (iteration index, state, imesh)
    history = []
    ops_seen = set()
    nobs = 0
    mutated_since_obs = False

    class StopSequence(Exception):
        pass

    since = []  # mutation kinds since the last passing observation
    dirty = [False]  # committed internal history on the live object (non-linear kinds)

    def observe(tag):
        nonlocal nobs, mutated_since_obs
        n_before = sum(1 for c in ctx.checks if not c["ok"])
        k = f"{key0}/after:{'+'.join(sorted(set(since))) or 'build'}"
        try:
            _observe(tag, k)
        finally:
            if sum(1 for c in ctx.checks if not c["ok"]) > n_before:
                raise StopSequence()  # later observations would only repeat the consequences of this one
        since.clear()

    def pf_state(simu):
        n = simu.mesh.Nn * dim
        return 2e-3 * np.random.default_rng(n).normal(size=n)

    def pf_reset(simu):
        simu._Set_solutions(simu.ProblemTypes.elastic, pf_state(simu))
        simu._Set_solutions(simu.ProblemTypes.damage, np.zeros(simu.mesh.Nn))
        simu.Need_Update()
        simu.Get_K_C_M_F(simu.ProblemTypes.elastic)
        simu.Get_K_C_M_F(simu.ProblemTypes.damage)

    def judge(err, tol, what, solve_twin, values=()):
        """A solution mismatch only counts where the configuration determines the solution: when a second twin whose node
        coordinates are moved by one unit of round-off answers as differently as the live object does (rigid mode left free by
        the BC program, bifurcating Newton path), the observation decides nothing and is recorded as such."""
        if not (err <= tol):
            if not all(np.all(np.isfinite(np.asarray(x, dtype=float))) for x in values):
                # the solver met an (almost) exactly singular system - e.g. a strain split evaluated at zero strain - and whether
                # the factorisation then returns NaN or numbers is decided by round-off, not by the configuration
                ctx.event("observation-undecided:non-finite")
                return
            if cfg["kind"] != "beam":
                cfgp = dict(cfg, meshes=dict(cfg["meshes"]))
                c_, con_ = cfg["meshes"][cfg["imesh"]]
                cfgp["meshes"][cfg["imesh"]] = (c_ * (1 + 4e-16 * np.sign(np.sin(np.arange(c_.size).reshape(c_.shape) * 1.7))), con_)
                try:
                    sens = solve_twin(simu_from(cfgp))
                except Exception:  # noqa: BLE001
                    sens = np.inf
                if not (sens <= 0.1 * tol):
                    ctx.event("observation-undecided:ill-conditioned")
                    return
        ctx.check("twin-solution", err, tol, what, history=list(history))

    def _observe(tag, k):
        nonlocal nobs, mutated_since_obs
        if dirty[0]:
            # committed internal variables cannot be given to a new simulation through the public interface
            ctx.event("observation-skipped:committed-history")
            return
        twin = simu_from(cfg)
        with quiet():
            if kind in NONLINEAR:
                if kind == "phasefield":
                    # both objects hold the same non-zero displacement (and zero damage): the damage system depends on it through
                    # psi+, so a change of the elastic law must reach BOTH assembled systems
                    ufix = pf_state(twin)
                    if not np.array_equal(np.asarray(live._Get_u_n(live.ProblemTypes.elastic)), pf_state(live)):
                        # (first observation, or a new mesh: the live object is brought to that state once, flags raised and lowered)
                        pf_reset(live)
                    twin._Set_solutions(twin.ProblemTypes.elastic, ufix.copy())
                    twin.Need_Update()
                    Kl = live.Get_K_C_M_F(live.ProblemTypes.elastic)[0]
                    Kt = twin.Get_K_C_M_F(twin.ProblemTypes.elastic)[0]
                    ctx.check("twin-matrices", relerr(Kl.toarray(), Kt.toarray()), 1e-11, k + "/K", history=list(history))
                    Dl = live.Get_K_C_M_F(live.ProblemTypes.damage)
                    Dt = twin.Get_K_C_M_F(twin.ProblemTypes.damage)
                    ctx.check("twin-matrices", relerr(Dl[0].toarray(), Dt[0].toarray()), 1e-11, k + "/K-damage", history=list(history))
                    ctx.check("twin-matrices", relerr(Dl[3].toarray(), Dt[3].toarray(), scale=np.abs(Dt[3].toarray()).max() + 1e-300), 1e-11, k + "/F-damage",
                              history=list(history))
                    ul, dl, _ = live.Solve()
                    ut, dt_, _ = twin.Solve()
                    def again(t):
                        t._Set_solutions(t.ProblemTypes.elastic, pf_state(t))
                        t.Need_Update()
                        u2, d2, _ = t.Solve()
                        return max(relerr(u2, ut), relerr(d2, dt_, scale=1.0))
                    judge(max(relerr(ul, ut), relerr(dl, dt_, scale=1.0)), 1e-8, k + "/solution", again, (ul, ut, dl, dt_))
                    # back to the reference state (the observation must not become part of the configuration), assembled again, so
                    # that the flags are down: the next mutation has to raise them itself
                    pf_reset(live)
                else:
                    if kind == "hyperelastic" and cfg["algo"][0] == "hyper":
                        # the assembled operators of the zero state themselves (the mass matrix enters a step only through dt^-2)
                        for s_ in (live, twin):
                            s_._Simu__Solver_Set_Newton_Raphson_current_solution(np.zeros(s_.mesh.Nn * dim))
                            s_.Need_Update()
                        L, T = live.Get_K_C_M_F(live.problemType), twin.Get_K_C_M_F(twin.problemType)
                        for nm, a, b in zip("KCM", L, T):
                            a, b = a.toarray(), b.toarray()
                            if np.abs(b).max() > 0:
                                ctx.check("twin-matrices", float(np.abs(a - b).max() / np.abs(b).max()) if a.shape == b.shape else np.inf, 1e-11, k + "/" + nm,
                                          history=list(history))
                    ul, ut = live.Solve(), twin.Solve()
                    judge(relerr(ul, ut), 1e-7, k + "/solution", lambda t: relerr(t.Solve(), ut), (ul, ut))
                    live._Set_solutions(live.problemType, np.zeros_like(ul), np.zeros_like(ul), np.zeros_like(ul))
                    live.Need_Update()
            else:
                L, T = live.Get_K_C_M_F(), twin.Get_K_C_M_F()
                for nm, a, b in zip("KCMF", L, T):
                    a, b = a.toarray(), b.toarray()
                    sc = max(np.abs(b).max(), 1e-300)
                    ctx.check("twin-matrices", float(np.abs(a - b).max() / sc) if a.shape == b.shape else np.inf, 1e-11, k + "/" + nm, history=list(history))
                if tag == "solve":
                    ul, ut = live.Solve(), twin.Solve()
                    judge(relerr(ul, ut), 1e-9, k + "/solution", lambda t: relerr(t.Solve(), ut), (ul, ut))
                    pt = live.problemType
                    if cfg["algo"][0] != "elliptic":
                        ctx.check("twin-solution", relerr(live._Get_v_n(pt), twin._Get_v_n(pt), scale=np.abs(twin._Get_v_n(pt)).max() + 1e-6 * np.abs(ut).max() / _dt(cfg) + 1e-300), 1e-8, k + "/velocity", history=list(history))
                    if kind.startswith("elastic"):
                        ctx.check("twin-results", relerr(np.asarray(live.Result("Svm", nodeValues=False)), np.asarray(twin.Result("Svm", nodeValues=False))), 1e-8, k + "/Svm")
                    # the solve moved the state of the live object: record it in the configuration
                    cfg["state"] = (live._Get_u_n(pt), live._Get_v_n(pt), live._Get_a_n(pt))
            if second is not None:
                cfg2 = dict(cfg, imesh=0, meshes={0: second_arrays}, bcs=[], state=None, algo=("elliptic",), damp=None, rho=1.0)
                t2 = simu_from(cfg2)
                K2l, K2t = second.Get_K_C_M_F()[0], t2.Get_K_C_M_F()[0]
                ctx.check("twin-matrices", relerr(K2l.toarray(), K2t.toarray()), 1e-11, k + "/shared-model-second-simulation", history=list(history))
        nobs += 1
        mutated_since_obs = False

    # ---- operation menu -------------------------------------------------------------------------
    def op_param(force=None):
        p = cfg["model"]
        if kind in ("elastic", "elastic-shared", "inelastic"):
            name = str(rng.choice(["E", "v"] + (["ps", "thickness"] if kind != "inelastic" and dim == 2 else [])))
        elif kind == "elastic-aniso":
            name = str(rng.choice(["El", "Et", "Gl", "ps"]))
        elif kind == "thermal":
            name = str(rng.choice(["k", "c"] + (["thickness"] if dim == 2 else [])))
        elif kind == "beam":
            name = str(rng.choice(["E", "v", "section"]))
        elif kind == "phasefield":
            name = str(rng.choice(["E", "Gc", "l0", "split", "regu"]))
        elif kind == "hyperelastic":
            name = str(rng.choice(["K"] + (["thickness"] if dim == 2 else [])))
        else:
            name = "thickness"
        if name == "section" and force is None:
            # another cross-section mesh is given to the beam of the live simulation (area, inertias and shear factors change)
            g = cfg["geom"]
            g["b"], g["h"] = float(g["b"] * rng.uniform(0.5, 1.6)), float(g["h"] * rng.uniform(0.5, 1.6))
            with quiet():
                live.structure.beams[0].section = bcm.rect_section(g["b"], g["h"])
            return "param:section"
        if force == "array":
            name = {"elastic": "E", "thermal": str(rng.choice(["k", "c"]))}[kind]
        elif force is not None:
            name = force
        if kind in ("elastic", "thermal") and name in ("E", "k", "c") and (rng.random() < 0.35 or force == "array") and force in (None, "array") \
                and len(live.mesh.Get_list_groupElem()) == 1:
            # array-valued parameter: one value per element, held in an array the caller keeps: first assignment, then
            # updates written into that same array and assigned again, or a new array with the same content followed by a change
            Ne_ = live.mesh.Ne
            cur = p[name]
            if not isinstance(cur, np.ndarray):
                arr = cur * rng.uniform(0.8, 1.25, Ne_)
                mode = "array-first"
            elif rng.random() < 0.6:
                arr = cur
                arr *= rng.uniform(0.7, 1.4, Ne_)
                mode = "array-same-object"
            else:
                setattr(model, name, cur.copy())
                arr = cur * rng.uniform(0.7, 1.4, Ne_)
                mode = "array-equal-then-new"
            p[name] = arr
            setattr(model, name, arr)
            return f"param:{name}:{mode}"
        if name == "ps":
            p["ps"] = not p["ps"]
            model.planeStress = p["ps"]
        elif name == "split":
            p["split"] = str(rng.choice(["Miehe", "Amor", "Bourdin", "Stress"]))
            model.split = p["split"]
        elif name == "regu":
            p["regu"] = "AT1" if p["regu"] == "AT2" else "AT2"
            model.regularization = p["regu"]
        else:
            f = float(rng.uniform(0.7, 1.4)) if rng.random() < 0.7 else 1 + 10 ** float(rng.uniform(-7, -4))
            new = p[name] * f
            if isinstance(new, np.ndarray) and rng.random() < 0.5:
                new = float(new.mean())        # back to a homogeneous value
            if name == "v":
                new = float(np.clip(new, 0.05, 0.45))
            p[name] = new
            target = model
            if kind == "beam":
                target = live.structure.beams[0]
            elif kind == "phasefield" and name in ("E", "v"):
                target = model.material
            elif kind == "inelastic" and name in ("E", "v"):
                target = model.elastic if hasattr(model, "elastic") else model
            elif kind == "weakforms":
                target = model
            setattr(target, name, new)
        return f"param:{name}"

    def op_rho():
        if rng.random() < 0.5 or kind in ("beam",) or len(live.mesh.Get_list_groupElem()) > 1:
            cfg["rho"] = float(rng.uniform(0.5, 3))
        else:
            cfg["rho"] = float(rng.uniform(0.5, 3)) * np.ones(live.mesh.Ne) * rng.uniform(0.8, 1.2, live.mesh.Ne)
        live.rho = cfg["rho"]
        return "rho"

    def op_damp():
        cfg["damp"] = (float(rng.uniform(0, 0.3)), float(rng.uniform(0, 0.02)))
        live.Set_Rayleigh_Damping_Coefs(*cfg["damp"])
        return "damping"

    def op_motion():
        mk = str(rng.choice(["translate", "rotate", "symmetry"]))
        f = _apply_motion(rng, live.mesh, mk, max(dim, 2) if dim > 1 else 1, inplane=True) if dim > 1 else _apply_motion(rng, live.mesh, "translate", 1)
        c, con = cfg["meshes"][cfg["imesh"]]
        cfg["meshes"][cfg["imesh"]] = (f(c), con)
        return f"mesh.{mk}"

    def op_coord(level):
        c, con = cfg["meshes"][cfg["imesh"]]
        s = float(rng.uniform(1.2, 1.6))
        new = c * s
        if level == "mesh":
            live.mesh.coord = new
        else:
            for g in live.mesh.dict_groupElem.values():
                g.coord = new
        cfg["meshes"][cfg["imesh"]] = (new, con)
        return f"{level}.coord="

    def op_mesh_replace():
        with quiet():
            if rng.random() < 0.4 and kind != "beam":
                # a different Mesh object with the same connectivity (same array shapes everywhere): nothing can be told apart by size
                c, con = cfg["meshes"][cfg["imesh"]]
                m = gm.build_mesh(c * float(rng.uniform(1.1, 1.5)), con)
            elif dim == 1:
                m = gm.mesh1d(et, float(rng.uniform(1.5, 3)), int(rng.integers(3, 7)))
            else:
                m, _ = _sims.small_mesh(rng, dim, et, size=float(rng.uniform(1.0, 1.5)))
        dirty[0] = False  # a new mesh carries no history: the twin is a virgin simulation again
        i = max(cfg["meshes"]) + 1
        cfg["meshes"][i] = gm.mesh_arrays(m)
        cfg["imesh"] = i
        live_meshes[i] = m
        for n_, v_ in list(cfg["model"].items()):
            if isinstance(v_, np.ndarray) and n_ in ("E", "k", "c"):
                # per-element parameters belong to the mesh they were written for: a homogeneous value comes with the new mesh
                cfg["model"][n_] = float(v_.mean())
                setattr(model, n_, cfg["model"][n_])
        if np.ndim(cfg["rho"]):
            # a per-element density belongs to the mesh it was written for: the user gives a new one with the new mesh
            cfg["rho"] = float(rng.uniform(0.5, 3))
            live.rho = cfg["rho"]
        live.mesh = m
        cfg["bcs"], cfg["state"] = [], None
        cfg["bcs"] = standard_bcs(rng, live, cfg)
        replay_bcs(live, cfg["bcs"])
        return "simu.mesh="

    def op_mesh_copy():
        """The mesh in use is copied (Mesh.copy), the copy is stretched through its coordinate setter and becomes the mesh of the
        simulation: two mesh objects of one family, with different geometry, live in the history."""
        with quiet():
            m = live.mesh.copy()
            fx = np.array([float(rng.uniform(1.5, 3.0)), float(rng.uniform(0.6, 0.9)), 1.0 if dim < 3 else float(rng.uniform(1.1, 1.4))])
            m.coord = m.coord * fx
        dirty[0] = False
        i = max(cfg["meshes"]) + 1
        cfg["meshes"][i] = gm.mesh_arrays(m)
        cfg["imesh"] = i
        live_meshes[i] = m
        for n_, v_ in list(cfg["model"].items()):
            if isinstance(v_, np.ndarray) and n_ in ("E", "k", "c"):
                cfg["model"][n_] = float(v_.mean())
                setattr(model, n_, cfg["model"][n_])
        if np.ndim(cfg["rho"]):
            cfg["rho"] = float(rng.uniform(0.5, 3))
            live.rho = cfg["rho"]
        live.mesh = m
        cfg["bcs"], cfg["state"] = [], None
        cfg["bcs"] = standard_bcs(rng, live, cfg)
        replay_bcs(live, cfg["bcs"])
        return "simu.mesh=mesh.copy()*stretch"

    def op_bcs():
        live.Bc_Init()
        cfg["bcs"] = standard_bcs(rng, live, cfg)
        replay_bcs(live, cfg["bcs"])
        return "Bc_Init+re-add"

    def op_algo(force=None):
        if force == "hyper":
            al = str(rng.choice(["newmark", "midpoint", "hht", "euler_implicit"]))
            cfg["algo"] = ("hyper", al, float(rng.uniform(0.02, 0.2)), 0.25, 0.5, float(rng.uniform(0, 0.3)) if al == "hht" else 0.5)
        elif kind == "thermal" or (kind == "weakforms" and rng.random() < 0.5):
            cfg["algo"] = ("parabolic", float(rng.uniform(0.05, 0.5)), float(rng.choice([0.5, 1.0, 0.7])))
        elif rng.random() < 0.25:
            cfg["algo"] = ("elliptic",)
        else:
            al = str(rng.choice(["newmark", "midpoint", "hht", "euler_implicit"]))
            cfg["algo"] = ("hyper", al, float(rng.uniform(0.02, 0.2)), 0.25, 0.5, float(rng.uniform(0, 0.3)) if al == "hht" else 0.5)
        a = cfg["algo"]
        if a[0] == "parabolic":
            live.Solver_Set_Parabolic_Algorithm(a[1], a[2])
        elif a[0] == "hyper":
            live.Solver_Set_Hyperbolic_Algorithm(a[2], algo=AlgoType(a[1]), beta=a[3], gamma=a[4], alpha=a[5])
        else:
            live.Solver_Set_Elliptic_Algorithm()
        return f"algo:{a[0]}:{a[1] if len(a) > 1 and isinstance(a[1], str) else ''}"

    def op_save():
        live.Save_Iter()
        pt = live.problemType
        saved.append((live.Niter - 1, (live._Get_u_n(pt), live._Get_v_n(pt), live._Get_a_n(pt)), cfg["imesh"], cfg["algo"][0]))
        return "Save_Iter"

    def op_set_iter(force=None):
        if not saved:
            return op_save()
        it, st, im, algo_at_save = saved[0] if force == "first" else saved[int(rng.integers(len(saved)))]
        if np.ndim(cfg["rho"]) and im != cfg["imesh"]:
            cfg["rho"] = float(rng.uniform(0.5, 3))
            live.rho = cfg["rho"]
        if im != cfg["imesh"]:
            for n_, v_ in list(cfg["model"].items()):
                if isinstance(v_, np.ndarray) and n_ in ("E", "k", "c"):
                    # per-element parameters belong to the mesh they were written for
                    cfg["model"][n_] = float(v_.mean())
                    setattr(model, n_, cfg["model"][n_])
        live.Set_Iter(it)
        u, v, a_ = st
        # what a restore brings back depends on what the iteration stored (speed / accel only for the hyperbolic family,
        # rate only for the parabolic one); the property speaks of the state that was saved
        pt = live.problemType
        cfg["imesh"] = im
        cfg["state"] = (live._Get_u_n(pt), live._Get_v_n(pt), live._Get_a_n(pt))
        if im != list(live_meshes).index(im) and False:
            pass
        if im in cfg["meshes"] and live.mesh.Nn != cfg["meshes"][im][0].shape[0]:
            raise RuntimeError("mesh bookkeeping")
        # BCs are not part of an iteration: the live object keeps those it had if the mesh did not change; with another mesh the
        # node numbers no longer make sense -> re-apply a program on that mesh (an explicit public operation)
        live.Bc_Init()
        cfg["bcs"] = standard_bcs(rng, live, cfg)
        replay_bcs(live, cfg["bcs"])
        return f"Set_Iter({it})"

    def op_commit():
        """Non-linear kinds: load, converge and commit the step, so that internal history exists on the live object."""
        if dirty[0]:
            # a second load step on a history the sequence has since rotated / re-parametrised has no twin and no physical
            # meaning; the interesting continuation is the replacement of the mesh
            return op_mesh_replace()
        out = live.Solve()
        live.Save_Iter()
        if kind == "phasefield":
            u_, d_ = out[0], out[1]
            live._Set_solutions(live.ProblemTypes.elastic, np.zeros_like(u_))
            live._Set_solutions(live.ProblemTypes.damage, np.zeros_like(d_))
        else:
            live._Set_solutions(live.problemType, np.zeros_like(out), np.zeros_like(out), np.zeros_like(out))
        live.Need_Update()
        if kind == "phasefield":
            live.Get_K_C_M_F(live.ProblemTypes.elastic)
            live.Get_K_C_M_F(live.ProblemTypes.damage)
        if kind != "hyperelastic":
            dirty[0] = True
        return "Solve+Save_Iter"

    menu_common = [op_param, op_param, op_bcs]
    if kind in LINEAR or kind.startswith("elastic"):
        menu = menu_common + [op_rho, op_algo, op_save, op_set_iter]
        if kind.startswith("elastic"):
            menu += [op_damp, op_motion, lambda: op_coord("mesh"), op_mesh_replace, op_mesh_copy]
        if kind == "thermal":
            menu += [op_motion, lambda: op_coord("mesh"), op_mesh_replace]
        if kind == "weakforms":
            menu = [op_param, op_bcs, op_algo, op_motion]
    else:
        menu = [op_param, op_param, op_motion, op_bcs, op_mesh_replace, op_commit, op_mesh_replace, lambda: op_coord("mesh")]
        if kind == "hyperelastic":
            # dynamic schemes bring the (cached) element mass matrices into play
            menu += [op_algo, op_rho, op_motion]

    try:
        with ctx.monitored("no-exception", key0 + "/raised"):
            with quiet():
                history.append("build")
                observe("solve" if kind not in NONLINEAR else "nl")
                script = list(case.get("script", []))
                named = {"param": op_param, "algo": op_algo, "rho": op_rho, "motion": op_motion, "bcs": op_bcs, "save": op_save, "set_iter": op_set_iter,
                         "mesh": op_mesh_replace, "coord": lambda: op_coord("mesh"), "meshcopy": op_mesh_copy}
                for step in range(len(script) if script else case["nops"]):
                    if script:
                        tok = script[step]
                        if tok == "obs":
                            if mutated_since_obs:
                                observe("solve" if kind not in NONLINEAR else "nl")
                            continue
                        head, _, arg = tok.partition(":")
                        op = (lambda h=head, a=arg: named[h](a)) if arg else named[head]
                    else:
                        op = menu[int(rng.integers(len(menu)))]
                    name = op()
                    history.append(name)
                    since.append(name.split("(")[0].split(":")[0] + (":" + name.split(":")[1] if name.startswith("param:") else ""))
                    ops_seen.add(name.split(":")[0].split("(")[0])
                    ctx.event("op:" + name.split(":")[0].split("(")[0])
                    mutated_since_obs = True
                    if script:
                        continue
                    if rng.random() < 0.6 or step == case["nops"] - 1:
                        observe("solve" if (kind not in NONLINEAR and rng.random() < 0.6) else ("nl" if kind in NONLINEAR else "matrices"))
    except StopSequence:
        pass
    finally:
        ctx.note("history: " + " > ".join(history))
    ctx.describe(f"{kind}/{et}/{'+'.join(sorted(ops_seen))}", nobs >= 2, kind=kind, et=et, history=history, observations=nobs)
