"""ProbeSimu: a harness-defined subclass of the real _Simu (implements its 13 abstract methods) whose
local matrix system is whatever the harness stores in ``local`` — lets the monitors drive the real
Assembly / time-scheme / solver code with arbitrary element data."""

from __future__ import annotations

import numpy as np

from EasyFEA.Models._utils import _IModel
from EasyFEA.Simulations._problem_type import ProblemType
from EasyFEA.Simulations._simu import _Simu


class ProbeModel(_IModel):
    def __init__(self, dim: int, thickness: float = 1.0):
        self._dim = dim
        self._thickness = thickness

    @property
    def dim(self):
        return self._dim

    @property
    def thickness(self):
        return self._thickness


class ProbeSimu(_Simu):
    PT = ProblemType("probe")

    def __init__(self, mesh, dof_n: int, builder=None):
        self._dof_n = int(dof_n)
        self.local: dict = {}
        self.builder = builder  # optional callable(simu, problemType) -> dict
        self.n_construct = 0
        super().__init__(mesh, ProbeModel(mesh.dim), verbosity=False)
        from EasyFEA import SolverType

        self.solver = SolverType.scipy

    # -- the 13 abstract methods ------------------------------------------------------------
    def Get_problemTypes(self):
        return [ProbeSimu.PT]

    def Get_unknowns(self, problemType=None):
        return ["x", "y", "z", "rx", "ry", "rz"][: self._dof_n]

    def Get_dof_n(self, problemType=None):
        return self._dof_n

    def Get_x0(self, problemType=None):
        return np.zeros(self.mesh.Nn * self._dof_n)

    def Construct_local_matrix_system(self, problemType):
        self.n_construct += 1
        if self.builder is not None:
            return self.builder(self, problemType)
        return self.local

    def Save_Iter(self, iter=None):
        iter = {} if iter is None else iter
        iter["u"] = self._Get_u_n(self.problemType)
        iter["v"] = self._Get_v_n(self.problemType)
        iter["a"] = self._Get_a_n(self.problemType)
        return super().Save_Iter(iter)

    def Set_Iter(self, iter: int = -1, resetAll=False):
        results = super().Set_Iter(iter)
        self._Set_solutions(self.problemType, results["u"], results["v"], results["a"])
        return results

    def Results_Available(self):
        return ["u"]

    def Result(self, option, nodeValues=True, iter=None):
        return self._Get_u_n(self.problemType)

    def Results_Iter_Summary(self):
        return super().Results_Iter_Summary()

    def Results_dict_Energy(self):
        return super().Results_dict_Energy()

    def Results_displacement_matrix(self):
        return super().Results_displacement_matrix()

    def Results_nodeFields_elementFields(self, details=False):
        return [], []

    def _Check_dim_mesh_material(self) -> None:
        pass
