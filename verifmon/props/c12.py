"""C12 — finite-element arrays compute the per-element, per-Gauss-point tensor operation.

Oracle: explicit double loop over (e, p) calling plain numpy on plain slices (plain arrays = constant tensors);
expected type from the rule "FeArray iff the (Ne, nPg) axes are preserved".
"""

from __future__ import annotations

import itertools

import numpy as np

from EasyFEA.FEM import Det, FeArray, Field, Inv, Norm, TensorProd, Trace, Transpose

from . import _suite
from ..core import Ctx, quiet, relerr

PROP = "C12"
NUM = 12
RULE = (
    "cases = (operation, operand kinds field/constant/Field object in every order, tensor ranks 0-4, shape class with "
    "deliberate collisions Ne == nPg == dim, size-1 axes, and non-colliding controls) + random expression trees of depth "
    "<= 4 over those primitives. Signature = (operation, operand kinds, ranks, shape class). Non-trivial iff at least one "
    "operand is a field with Ne*nPg > 1 or the shape class is a collision class."
)
ASSUMPTIONS = [
    "elementwise arithmetic is exercised between operands of equal tensor rank or with one rank-0 operand (the only cases "
    "whose per-point meaning does not depend on a broadcasting convention)",
    "tensor axes all have the same size d in {1,2,3} (4 for Det/Inv general path) so that operations compose",
    "Inv is exercised on well-conditioned matrices (random + 3 I)",
]
TIMEOUT_CASE = 120
MIN_EVALS = {"values": 400, "type-rule": 400, "broadcast-table": 30}
REQUIRED_COVERAGE = ["array_ufunc", "matmul", "dot", "ddot", "broadcast"]

SHAPES = {
    # name: (Ne, nPg, d)
    "control": (5, 4, 3), "control2": (4, 7, 2), "Ne=nPg=d=3": (3, 3, 3), "Ne=nPg=d=2": (2, 2, 2), "Ne=d": (3, 4, 3), "nPg=d": (5, 3, 3),
    "nPg=d=2": (4, 2, 2), "Ne=nPg": (3, 3, 2), "Ne=1": (1, 4, 3), "nPg=1": (5, 1, 3), "Ne=nPg=1": (1, 1, 3), "d=1": (4, 3, 1), "all-1": (1, 1, 1),
    "Ne=d=2": (2, 5, 2),
}


def anchors():
    return [("array_ufunc", FeArray, "__array_ufunc__"), ("array_function", FeArray, "__array_function__"), ("align", FeArray, "_align"),
            ("matmul", FeArray, "__matmul__"), ("dot", FeArray, "dot"), ("ddot", FeArray, "ddot"), ("broadcast", FeArray, "broadcast"),
            ("T", FeArray, "T")]


def cases(tier: str, seed: int) -> list[dict]:
    out = []
    rep = 1 if tier == "quick" else 12
    for r in range(rep):
        for sh in SHAPES:
            out.append({"sc": "binary", "shape": sh})
            out.append({"sc": "products", "shape": sh})
            out.append({"sc": "unary", "shape": sh})
            out.append({"sc": "numpy", "shape": sh})
            out.append({"sc": "trees", "shape": sh, "n": 25 if tier == "quick" else 60})
            out.append({"sc": "extents", "shape": sh})
        out.append({"sc": "broadcast"})
        out.append({"sc": "fieldobj", "et": ["TRI3", "QUAD4", "TRI6", "TETRA4"][r % 4]})
    for i, c in enumerate(out):
        c["id"] = f"C12-{i:05d}-{c['sc']}-{c.get('shape', c.get('et', ''))}"
        c["index"] = i
    for c in _suite.suite_cases(PROP, tier):
        c["index"] = len(out)
        out.append(c)
    return out


# ------------------------------------------------------------------------------------------
class Op:
    """An operand: the real object handed to EasyFEA and its per-point reference values (Ne, nPg, *tensor)."""

    def __init__(self, obj, ref, rank, is_field):
        self.obj, self.ref, self.rank, self.is_field = obj, ref, rank, is_field


def make_operand(rng, Ne, nPg, d, rank, kind, spd=False):
    tshape = (d,) * rank
    if kind == "field":
        a = rng.normal(size=(Ne, nPg) + tshape)
        if spd and rank == 2:
            a = a + 3 * np.eye(d)
        return Op(FeArray.asfearray(a.copy()), a, rank, True)
    a = rng.normal(size=tshape)
    if spd and rank == 2:
        a = a + 3 * np.eye(d)
    obj = float(a) if rank == 0 else a.copy()
    return Op(obj, np.broadcast_to(a, (Ne, nPg) + tshape).copy(), rank, False)


def loop(fn, *refs):
    """Apply fn to the (e, p) slices of the references independently."""
    Ne, nPg = refs[0].shape[:2]
    out = [[np.asarray(fn(*[r[e, p] for r in refs])) for p in range(nPg)] for e in range(Ne)]
    return np.array(out)


def judge(ctx: Ctx, key: str, got, want, expect_field: bool, tol=1e-11):
    g = np.asarray(got)
    ctx.check("values", relerr(g, want, scale=np.abs(want).max() if np.size(want) else 1.0), tol, key + "/values", got_shape=list(g.shape), want_shape=list(np.shape(want)))
    ctx.require("type-rule", isinstance(got, FeArray) == expect_field, key + "/type", got_type=type(got).__name__, expect_field=expect_field)


def attempt(ctx: Ctx, key: str, fn):
    """Run a real operation; an exception raised inside EasyFEA / numpy on a supported operation is a failed check."""
    try:
        return True, fn()
    except Exception as e:  # noqa: BLE001
        ctx.require("no-exception", False, key + "/raised", raised=type(e).__name__, message=str(e)[:200])
        return False, None


KINDS = [("field", "field"), ("field", "const"), ("const", "field")]


def run_case(case: dict, ctx: Ctx) -> None:
    if case.get("fam") == "suite":
        return _suite.run_suite(case, ctx, PROP)
    rng = np.random.default_rng([case["seed"], NUM, case["index"]])
    {"binary": run_binary, "products": run_products, "unary": run_unary, "numpy": run_numpy, "trees": run_trees, "broadcast": run_broadcast,
     "fieldobj": run_fieldobj, "extents": run_extents}[case["sc"]](case, ctx, rng)


def _cls(case):
    return case["shape"]


def run_binary(case, ctx, rng):
    Ne, nPg, d = SHAPES[case["shape"]]
    n = 0
    for (ka, kb) in KINDS:
        for ra, rb in [(0, 0), (1, 1), (2, 2), (0, 1), (0, 2), (1, 0), (2, 0), (4, 4), (0, 4)]:
            a, b = make_operand(rng, Ne, nPg, d, ra, ka), make_operand(rng, Ne, nPg, d, rb, kb)
            for name, f in (("add", np.add), ("sub", np.subtract), ("mul", np.multiply), ("div", np.divide)):
                if name == "div":
                    b.ref[...] = np.abs(b.ref) + 1.0
                    b.obj = (np.abs(b.obj) + 1.0) if not np.isscalar(b.obj) else abs(b.obj) + 1.0
                    if b.is_field:
                        b.obj = FeArray.asfearray(np.asarray(b.obj))
                key = f"C12/{name}/{ka}-{kb}/r{ra}r{rb}/{_cls(case)}"
                want = loop(f, a.ref, b.ref)
                ok, got = attempt(ctx, key, lambda: {"add": lambda: a.obj + b.obj, "sub": lambda: a.obj - b.obj, "mul": lambda: a.obj * b.obj,
                                                      "div": lambda: a.obj / b.obj}[name]())
                if ok:
                    judge(ctx, key, got, want, True)
                    n += 1
                # numpy function form
                ok, got = attempt(ctx, key + "/ufunc", lambda: f(a.obj, b.obj))
                if ok:
                    judge(ctx, key + "/ufunc", got, want, True)
    ctx.describe(f"binary/{case['shape']}", Ne * nPg > 1 or True, shape=SHAPES[case["shape"]], ops=n)


def run_products(case, ctx, rng):
    Ne, nPg, d = SHAPES[case["shape"]]
    for (ka, kb) in KINDS:
        # matmul
        for ra, rb, fn in [(1, 1, lambda x, y: x @ y), (2, 2, lambda x, y: x @ y), (1, 2, lambda x, y: x @ y), (2, 1, lambda x, y: x @ y)]:
            a, b = make_operand(rng, Ne, nPg, d, ra, ka), make_operand(rng, Ne, nPg, d, rb, kb)
            key = f"C12/matmul/{ka}-{kb}/r{ra}r{rb}/{_cls(case)}"
            ok, got = attempt(ctx, key, lambda: a.obj @ b.obj)
            if ok:
                judge(ctx, key, got, loop(fn, a.ref, b.ref), True)
        # dot / ddot are methods of the field: the left operand is a field
        if ka == "field":
            for ra, rb in [(1, 1), (1, 2), (2, 1), (2, 2), (2, 4), (4, 2), (4, 1), (1, 4), (4, 4)]:
                a, b = make_operand(rng, Ne, nPg, d, ra, ka), make_operand(rng, Ne, nPg, d, rb, kb)
                key = f"C12/dot/{ka}-{kb}/r{ra}r{rb}/{_cls(case)}"
                ok, got = attempt(ctx, key, lambda: a.obj.dot(b.obj))
                if ok:
                    judge(ctx, key, got, loop(lambda x, y: np.tensordot(x, y, axes=1), a.ref, b.ref), True)
            for ra, rb in [(2, 2), (2, 4), (4, 2), (4, 4)]:
                a, b = make_operand(rng, Ne, nPg, d, ra, ka), make_operand(rng, Ne, nPg, d, rb, kb)
                key = f"C12/ddot/{ka}-{kb}/r{ra}r{rb}/{_cls(case)}"
                ok, got = attempt(ctx, key, lambda: a.obj.ddot(b.obj))
                if ok:
                    judge(ctx, key, got, loop(lambda x, y: np.tensordot(x, y, axes=2), a.ref, b.ref), True)
        # tensor products
        for r in (1, 2):
            a, b = make_operand(rng, Ne, nPg, d, r, ka), make_operand(rng, Ne, nPg, d, r, kb)
            if not (a.is_field and b.is_field):
                continue  # TensorProd requires both operands of the same kind
            key = f"C12/TensorProd/{ka}-{kb}/r{r}/{_cls(case)}"
            ok, got = attempt(ctx, key, lambda: TensorProd(a.obj, b.obj))
            if ok:
                judge(ctx, key, got, loop(lambda x, y: np.multiply.outer(x, y), a.ref, b.ref), True)
            if r == 2:
                ok, got = attempt(ctx, key + "/sym", lambda: TensorProd(a.obj, b.obj, symmetric=True))
                if ok:
                    judge(ctx, key + "/sym", got, loop(lambda x, y: 0.5 * (np.einsum("ik,jl->ijkl", x, y) + np.einsum("il,jk->ijkl", x, y)), a.ref, b.ref), True)
    ctx.describe(f"products/{case['shape']}", True, shape=SHAPES[case["shape"]])


def run_unary(case, ctx, rng):
    Ne, nPg, d = SHAPES[case["shape"]]
    cls = _cls(case)
    for r in (0, 1, 2, 3, 4):
        tshape = (d,) * r
        a = rng.normal(size=(Ne, nPg) + tshape)
        A = FeArray.asfearray(a.copy())
        key = f"C12/T/r{r}/{cls}"
        ok, got = attempt(ctx, key, lambda: A.T)
        if ok:
            judge(ctx, key, got, loop(lambda x: x.T if r >= 2 else x, a), True)
        for name in ("sum", "mean", "max", "min", "prod", "std", "var", "any", "all", "argmax", "argmin"):
            axes = [None, 0, 1, (0, 1), -(r + 1), -(r + 2)]  # the last two address the nPg / Ne axes with negative indices
            if r >= 1:
                axes += [-1, 2, (2,)]
            if r >= 2:
                axes += [(2, 3), (-1, -2), -2, (1, 2)]
            for ax in axes:
                if name in ("argmax", "argmin") and isinstance(ax, tuple):
                    continue
                key = f"C12/{name}/r{r}/axis={ax}/{cls}"
                ok, got = attempt(ctx, key, lambda: getattr(A, name)(axis=ax))
                want = getattr(a, name)(axis=ax)
                axs = () if ax is None else (ax if isinstance(ax, tuple) else (ax,))
                keeps = ax is not None and all((x >= 2) if x >= 0 else (x >= 2 - a.ndim) for x in axs)
                if ok:
                    judge(ctx, key, got, want, keeps and np.ndim(want) >= 2)
                if name in ("sum", "mean", "max", "min"):
                    ok, got = attempt(ctx, key + "/np", lambda: getattr(np, name)(A, axis=ax))
                    if ok:
                        judge(ctx, key + "/np", got, want, keeps and np.ndim(want) >= 2)
    # matrix functions, d in {1,2,3} closed forms and the general path (4)
    for dd in sorted({d, 4}):
        m = rng.normal(size=(Ne, nPg, dd, dd)) + 3 * np.eye(dd)
        M = FeArray.asfearray(m.copy())
        for name, fn, ref in (("Det", Det, np.linalg.det), ("Inv", Inv, np.linalg.inv), ("Trace", Trace, np.trace), ("Transpose", Transpose, lambda x: x.T)):
            key = f"C12/{name}/d={dd}/{cls}"
            ok, got = attempt(ctx, key, lambda: fn(M))
            if ok:
                judge(ctx, key, got, loop(ref, m), True, tol=1e-10)
            # plain arrays stay plain
            ok, got = attempt(ctx, key + "/plain", lambda: fn(m[0, 0]))
            if ok:
                ctx.check("values", relerr(np.asarray(got), ref(m[0, 0])), 1e-10, key + "/plain/values")
                ctx.require("type-rule", not isinstance(got, FeArray), key + "/plain/type")
    v = rng.normal(size=(Ne, nPg, d))
    V = FeArray.asfearray(v.copy())
    key = f"C12/Norm/axis=-1/{cls}"
    ok, got = attempt(ctx, key, lambda: Norm(V, axis=-1))
    if ok:
        judge(ctx, key, got, loop(np.linalg.norm, v), True)
    ctx.describe(f"unary/{case['shape']}", True, shape=SHAPES[case["shape"]])


def run_numpy(case, ctx, rng):
    """numpy functions and ufunc keyword forms routed through the array protocols."""
    Ne, nPg, d = SHAPES[case["shape"]]
    cls = _cls(case)
    a, b = rng.normal(size=(Ne, nPg, d, d)), rng.normal(size=(Ne, nPg, d))
    A, B = FeArray.asfearray(a.copy()), FeArray.asfearray(b.copy())
    c = rng.normal(size=(d, d))
    key = f"C12/einsum/{cls}"
    ok, got = attempt(ctx, key, lambda: np.einsum("...ij,...j->...i", A, B))
    if ok:
        judge(ctx, key, got, loop(lambda x, y: x @ y, a, b), True)
    ok, got = attempt(ctx, key + "/const", lambda: np.einsum("ij,...j->...i", c, B))
    if ok:
        judge(ctx, key + "/const", got, loop(lambda y: c @ y, b), True)
    key = f"C12/where/{cls}"
    ok, got = attempt(ctx, key, lambda: np.where(A > 0, A, 0.0))
    if ok:
        judge(ctx, key, got, np.where(a > 0, a, 0.0), True)
    key = f"C12/linalg.solve/{cls}"
    m = a + 3 * np.eye(d)
    M = FeArray.asfearray(m.copy())
    ok, got = attempt(ctx, key, lambda: np.linalg.solve(M, B[..., None]))
    if ok:
        judge(ctx, key, got, loop(lambda x, y: np.linalg.solve(x, y[:, None]), m, b), True, tol=1e-9)
    for name, fn in (("linalg.det", np.linalg.det), ("linalg.inv", np.linalg.inv)):
        ok, got = attempt(ctx, f"C12/{name}/{cls}", lambda: fn(M))
        if ok:
            judge(ctx, f"C12/{name}/{cls}", got, loop(fn, m), True, tol=1e-9)
    s = 0.5 * (a + np.swapaxes(a, -1, -2))
    ok, got = attempt(ctx, f"C12/linalg.eigh/{cls}", lambda: np.linalg.eigh(FeArray.asfearray(s.copy())))
    if ok:
        w = np.asarray(got[0])
        ctx.check("values", relerr(w, loop(np.linalg.eigvalsh, s)), 1e-10, f"C12/linalg.eigh/{cls}/values")
        ctx.require("type-rule", isinstance(got[0], FeArray) and isinstance(got[1], FeArray), f"C12/linalg.eigh/{cls}/type")
    # ufunc keyword forms
    out = FeArray.zeros(Ne, nPg, d)
    key = f"C12/ufunc-out/{cls}"
    ok, got = attempt(ctx, key, lambda: np.add(B, 1.5, out=out))
    if ok:
        judge(ctx, key, got, b + 1.5, True)
        ctx.check("values", relerr(np.asarray(out), b + 1.5), 1e-14, key + "/out-filled")
    key = f"C12/ufunc-where/{cls}"
    base = np.full((Ne, nPg, d), 7.0)
    ok, got = attempt(ctx, key, lambda: np.multiply(B, 2.0, out=FeArray.asfearray(base.copy()), where=B > 0))
    if ok:
        judge(ctx, key, got, np.where(b > 0, 2 * b, 7.0), True)
    # unary ufuncs, comparisons
    for name, f in (("negative", np.negative), ("abs", np.abs), ("exp", np.exp), ("square", np.square)):
        ok, got = attempt(ctx, f"C12/{name}/{cls}", lambda: f(A))
        if ok:
            judge(ctx, f"C12/{name}/{cls}", got, f(a), True)
    # reshape / ravel typing
    ok, got = attempt(ctx, f"C12/reshape-keep/{cls}", lambda: A.reshape(Ne, nPg, d * d))
    if ok:
        judge(ctx, f"C12/reshape-keep/{cls}", got, a.reshape(Ne, nPg, d * d), True)
    ok, got = attempt(ctx, f"C12/reshape-drop/{cls}", lambda: A.reshape(Ne * nPg, d, d))
    if ok:
        judge(ctx, f"C12/reshape-drop/{cls}", got, a.reshape(Ne * nPg, d, d), (Ne * nPg, d) == (Ne, nPg))
    ok, got = attempt(ctx, f"C12/integrate/{cls}", lambda: A.integrate())
    if ok:
        judge(ctx, f"C12/integrate/{cls}", got, a.sum(1), False)
    ctx.describe(f"numpy/{case['shape']}", True, shape=SHAPES[case["shape"]])


# ------------------------------------------------------------------------------------------
def run_extents(case, ctx, rng):
    """Fields whose element or integration-point axis has size 1 (per-element fields (Ne, 1, ...), shape-function data
    (1, nPg, ...)) combined with each other and with full fields: the result is the pointwise operation on the broadcast
    (Ne, nPg) grid and is a field; then ufunc keyword forms (out=, where=) and in-place operators between two fields of
    the same shape."""
    Ne, nPg, d = SHAPES[case["shape"]]
    cls = _cls(case)
    ext = {"full": (Ne, nPg), "per-element": (Ne, 1), "per-point": (1, nPg), "single": (1, 1)}

    def mk(kind, rank, spd=False):
        a = rng.normal(size=ext[kind] + (d,) * rank)
        if spd:
            a = np.abs(a) + 1.0
        return FeArray.asfearray(a.copy()), np.broadcast_to(a, (Ne, nPg) + (d,) * rank).copy()

    n = 0
    pairs = [("per-element", "per-point"), ("per-point", "per-element"), ("per-element", "full"), ("full", "per-point"), ("single", "per-element"),
             ("per-point", "single"), ("per-element", "per-element"), ("per-point", "per-point")]
    for ka, kb in pairs:
        tag = f"{ka}*{kb}/{cls}"
        rshape = np.broadcast_shapes(ext[ka], ext[kb])

        def want_of(fn, *refs):
            w = loop(fn, *refs)
            return w[: rshape[0], : rshape[1]]          # operands constant along a size-1 axis: the result keeps that axis at size 1

        A2, a2 = mk(ka, 2)
        B2, b2 = mk(kb, 2)
        B1, b1 = mk(kb, 1)
        A0, a0 = mk(ka, 0)
        B0, b0 = mk(kb, 0, spd=True)
        ops = [
            ("matmul22", lambda: A2 @ B2, lambda: want_of(lambda x, y: x @ y, a2, b2)),
            ("matmul21", lambda: A2 @ B1, lambda: want_of(lambda x, y: x @ y, a2, b1)),
            ("einsum", lambda: np.einsum("...ij,...j->...i", A2, B1), lambda: want_of(lambda x, y: x @ y, a2, b1)),
            ("einsum22", lambda: np.einsum("...ij,...jk->...ik", A2, B2), lambda: want_of(lambda x, y: x @ y, a2, b2)),
            ("add", lambda: A2 + B2, lambda: want_of(np.add, a2, b2)),
            ("mul0", lambda: A0 * B2, lambda: want_of(lambda x, y: x * y, a0, b2)),
            ("div0", lambda: A2 / B0, lambda: want_of(lambda x, y: x / y, a2, b0)),
            ("ddot", lambda: A2.ddot(B2), lambda: want_of(lambda x, y: np.sum(x * y), a2, b2)),
            ("dot", lambda: A2.dot(B1), lambda: want_of(lambda x, y: x @ y, a2, b1)),
            ("where", lambda: np.where(np.asarray(A2) > 0, A2, B2), lambda: want_of(lambda x, y: np.where(x > 0, x, y), a2, b2)),
            # the result used once more, as a coefficient of a full field
            ("chain", lambda: B0 * (A2 @ B2), lambda: want_of(lambda s_, x, y: s_ * (x @ y), b0, a2, b2)),
        ]
        for name, f, w in ops:
            key = f"C12/extents/{name}/{ka}*{kb}/{cls}"
            ok, got = attempt(ctx, key, f)
            if ok:
                want = w()
                g = np.asarray(got)
                if g.shape != want.shape and g.ndim == want.ndim:
                    try:
                        g = np.broadcast_to(g, np.broadcast_shapes(g.shape, want.shape))
                        want = np.broadcast_to(want, g.shape)
                    except ValueError:
                        pass
                ctx.check("values", relerr(g, want, scale=np.abs(want).max()) if g.shape == want.shape else np.inf, 1e-11, key + "/values",
                          got_shape=list(np.shape(got)), want_shape=list(want.shape))
                ctx.require("type-rule", isinstance(got, FeArray), key + "/type", got_type=type(got).__name__)
                n += 1
    # keyword forms and in-place operators between two fields of the same shape
    for rank in (0, 1, 2):
        X, x = mk("full", rank)
        Y, y = mk("full", rank)
        key = f"C12/ufunc-out/field-field/r{rank}/{cls}"
        out = FeArray.asfearray(np.full(x.shape, 7.0))
        ok, got = attempt(ctx, key, lambda: np.multiply(X, Y, out=out))
        if ok:
            judge(ctx, key, got, x * y, True)
            ctx.check("values", relerr(np.asarray(out), x * y), 1e-14, key + "/out-filled")
            ctx.require("type-rule", got is out, key + "/out-identity")
        key = f"C12/ufunc-where/field-field/r{rank}/{cls}"
        den = y.copy()
        den[np.abs(den) < 0.6] = 0.0
        D = FeArray.asfearray(den.copy())
        ok, got = attempt(ctx, key, lambda: np.divide(X, D, out=FeArray.asfearray(np.zeros(x.shape)), where=D != 0))
        if ok:
            with np.errstate(all="ignore"):
                want = np.where(den != 0, x / np.where(den != 0, den, 1.0), 0.0)
            judge(ctx, key, got, want, True)
        key = f"C12/inplace/field-field/r{rank}/{cls}"
        acc = FeArray.asfearray(x.copy())
        alias = acc

        def inplace():
            nonlocal acc
            acc += Y
            acc *= Y
            acc -= X
            return acc

        ok, got = attempt(ctx, key, inplace)
        if ok:
            want = (x + y) * y - x
            judge(ctx, key, got, want, True)
            ctx.check("values", relerr(np.asarray(alias), want), 1e-14, key + "/alias-sees-update")
        key = f"C12/ufunc-dtype/field-field/r{rank}/{cls}"
        ok, got = attempt(ctx, key, lambda: np.add(X, Y, dtype=np.float32))
        if ok:
            ctx.check("values", relerr(np.asarray(got, float), (x + y), scale=float((np.abs(x) + np.abs(y)).max())), 1e-6, key + "/values")
            ctx.require("type-rule", np.asarray(got).dtype == np.float32 and isinstance(got, FeArray), key + "/type", dtype=str(np.asarray(got).dtype))
        n += 4
    ctx.describe(f"extents/{case['shape']}", True, shape=SHAPES[case["shape"]], ops=n)


# ------------------------------------------------------------------------------------------
def run_trees(case, ctx, rng):
    """Random expression trees (depth <= 4) over the primitives above; every node is compared with the loop reference."""
    Ne, nPg, d = SHAPES[case["shape"]]
    cls = _cls(case)

    def leaf(rank=None):
        rank = int(rng.choice([0, 1, 2])) if rank is None else rank
        kind = "field" if rng.random() < 0.7 else "const"
        return make_operand(rng, Ne, nPg, d, rank, kind, spd=True)

    def build(depth):
        if depth == 0:
            return leaf(), "x"
        a, sa = build(depth - 1)
        choice = rng.integers(8)
        try:
            if choice == 0:  # same-rank arithmetic with a fresh leaf
                b = leaf(a.rank)
                op = str(rng.choice(["+", "-", "*"]))
                if rng.random() < 0.5:
                    a, b = b, a
                obj = {"+": lambda: a.obj + b.obj, "-": lambda: a.obj - b.obj, "*": lambda: a.obj * b.obj}[op]()
                ref = {"+": np.add, "-": np.subtract, "*": np.multiply}[op](a.ref, b.ref)
                return Op(obj, ref, max(a.rank, b.rank), a.is_field or b.is_field), f"({sa}{op}y)"
            if choice == 1:  # scale by a rank-0 operand
                b = leaf(0)
                obj = a.obj * b.obj if rng.random() < 0.5 else b.obj * a.obj
                ref = a.ref * b.ref.reshape(b.ref.shape + (1,) * a.rank)
                return Op(obj, ref, a.rank, a.is_field or b.is_field), f"({sa}*s)"
            if choice == 2 and a.rank in (1, 2):  # matmul with a fresh operand
                b = leaf(int(rng.choice([1, 2])))
                left = rng.random() < 0.5
                x, y = (a, b) if left else (b, a)
                obj = x.obj @ y.obj
                ref = loop(lambda p, q: p @ q, x.ref, y.ref)
                return Op(obj, ref, ref.ndim - 2, x.is_field or y.is_field), f"({sa}@y)" if left else f"(y@{sa})"
            if choice == 3 and a.rank == 2 and a.is_field:
                return Op(a.obj.T, np.swapaxes(a.ref, -1, -2), 2, True), f"{sa}.T"
            if choice == 4 and a.rank == 2 and a.is_field:
                return Op(Trace(a.obj), np.trace(a.ref, axis1=-2, axis2=-1), 0, True), f"Trace({sa})"
            if choice == 5 and a.rank == 1 and a.is_field:
                b = leaf(1)
                if b.is_field:
                    return Op(TensorProd(a.obj, b.obj), loop(np.multiply.outer, a.ref, b.ref), 2, True), f"({sa} x y)"
            if choice == 6 and a.rank >= 1 and a.is_field:
                return Op(a.obj.sum(axis=-1), a.ref.sum(-1), a.rank - 1, True), f"sum({sa},-1)"
            if choice == 7 and a.rank == 2 and a.is_field:
                b = leaf(2)
                return Op(a.obj.ddot(b.obj), loop(lambda p, q: np.tensordot(p, q, 2), a.ref, b.ref), 0, True), f"({sa}:y)"
        except Exception as e:  # noqa: BLE001
            raise TreeFailure(f"{sa} choice={choice}", e) from e
        return a, sa

    class TreeFailure(Exception):
        def __init__(self, where, e):
            self.where, self.e = where, e

    nchecked = 0
    for t in range(case["n"]):
        depth = int(rng.integers(1, 5))
        key = f"C12/tree/{cls}"
        try:
            node, expr = build(depth)
        except TreeFailure as tf:
            ctx.require("no-exception", False, key + "/raised", where=tf.where, raised=type(tf.e).__name__, message=str(tf.e)[:200])
            continue
        if not node.is_field:
            continue
        judge(ctx, key, node.obj, node.ref, True, tol=1e-9)
        nchecked += 1
    ctx.describe(f"trees/{case['shape']}", nchecked > 0, shape=SHAPES[case["shape"]], trees=nchecked)


# ------------------------------------------------------------------------------------------
def run_broadcast(case, ctx, rng):
    """FeArray.broadcast accepts scalars, per-element, per-point and full fields; tensor_ndim disambiguates collisions."""
    key = "C12/broadcast"
    for (Ne, nPg, d) in [(5, 4, 3), (3, 3, 3), (4, 2, 2), (2, 5, 2), (1, 4, 3), (5, 1, 3), (4, 4, 2), (6, 6, 3)]:
        cls = f"Ne={Ne},nPg={nPg},d={d}"
        w = rng.normal(size=(Ne, nPg))

        def chk(name, value, want, **kw):
            ok, got = attempt(ctx, f"{key}/{name}/{cls}", lambda: FeArray.broadcast(value, Ne, nPg, **kw))
            if ok:
                g = np.asarray(got) * np.ones_like(want) if np.isscalar(got) else np.asarray(got)
                ctx.check("broadcast-table", relerr(np.broadcast_to(g, want.shape), want), 1e-15, f"{key}/{name}/{cls}")

        chk("scalar", 2.5, np.full((Ne, nPg), 2.5))
        chk("full", w, w)
        if Ne != nPg:
            ve, vp = rng.normal(size=Ne), rng.normal(size=nPg)
            chk("per-element", ve, np.broadcast_to(ve[:, None], (Ne, nPg)))
            chk("per-point", vp, np.broadcast_to(vp[None, :], (Ne, nPg)))
        else:
            # Ne == nPg: a 1-D array of that length is the per-element array every model / simulation parameter is documented
            # to be (Utilities/_params.py: "a scalar, an (Ne,) array or an (Ne, nPg) array"); a per-point reading would
            # silently transpose heterogeneous materials on meshes with as many elements as Gauss points
            ve = rng.normal(size=Ne)
            chk("per-element@Ne=nPg", ve, np.broadcast_to(ve[:, None], (Ne, nPg)))
        C = rng.normal(size=(d, d))
        chk("tensor2-const", C, np.broadcast_to(C, (Ne, nPg, d, d)), tensor_ndim=2)
        Ce = rng.normal(size=(Ne, d, d))
        chk("tensor2-per-element", Ce, np.broadcast_to(Ce[:, None], (Ne, nPg, d, d)), tensor_ndim=2)
        Cep = rng.normal(size=(Ne, nPg, d, d))
        chk("tensor2-full", Cep, Cep, tensor_ndim=2)
        # a coefficient used in an integrand: coef * field
        f = rng.normal(size=(Ne, nPg, d))
        ok, got = attempt(ctx, f"{key}/use/{cls}", lambda: FeArray.broadcast(w, Ne, nPg) * FeArray.asfearray(f))
        if ok:
            judge(ctx, f"{key}/use/{cls}", got, w[..., None] * f, True)
    ctx.describe("broadcast", True)


def run_fieldobj(case, ctx, rng):
    """Field objects in arithmetic, on either side (reflected operators)."""
    from ..gen import meshes as gm

    et = case["et"]
    key = f"C12/Field/{et}"
    with quiet():
        poly = np.array([[0, 0], [1, 0], [1, 1], [0, 1]], float)
        mesh = gm.mesh2d(poly, et, 0.6) if et in gm.ET_2D else gm.mesh3d(poly, et, 1.0, 1, 0.9)
    g = mesh.Get_list_groupElem(mesh.dim)[0]
    u = Field(g, 1)
    u._Set_current_active_node(int(rng.integers(g.nPe)))
    base = np.asarray(u())  # (1, nPg, 1): the active shape function at the Gauss points
    c = float(rng.uniform(1.5, 3))
    for name, fn, want in (("mul", lambda: u * c, base * c), ("rmul", lambda: c * u, c * base), ("add", lambda: u + c, base + c), ("radd", lambda: c + u, c + base),
                           ("sub", lambda: u - c, base - c), ("rsub", lambda: c - u, c - base), ("div", lambda: u / c, base / c),
                           ("rdiv", lambda: c / (u + 2.0), c / (base + 2.0))):
        ok, got = attempt(ctx, f"{key}/{name}", fn)
        if ok:
            judge(ctx, f"{key}/{name}", got, want, True)
    ok, got = attempt(ctx, f"{key}/rtruediv", lambda: c / u if np.all(np.abs(base) > 1e-3) else None)
    if ok and got is not None:
        judge(ctx, f"{key}/rtruediv", got, c / base, True)
    # matmul with a constant vector on both sides (rank-1 field with one component)
    v = np.array([float(rng.uniform(1, 2))])
    ok, got = attempt(ctx, f"{key}/matmul", lambda: u @ v)
    if ok:
        judge(ctx, f"{key}/matmul", got, (base @ v), True)
    ok, got = attempt(ctx, f"{key}/rmatmul", lambda: v @ u)
    if ok:
        judge(ctx, f"{key}/rmatmul", got, (base @ v), True)
    ctx.describe(f"fieldobj/{et}", True, et=et)
