"""C03 — assembly is the exact scatter-add of element contributions, for any numbering.

Oracle: ref.scatter (dense explicit loops) applied to the very dictionary returned by
Construct_local_matrix_system during the monitored Assembly call (captured by the Assembly monitor).
"""

from __future__ import annotations

import numpy as np

from EasyFEA import Mesh, Simulations, Models, AlgoType
from EasyFEA.FEM import LagrangeCondition

from . import _suite
from ..core import Ctx, quiet, relerr
from ..gen import meshes as gm
from ..monitors.assembly import AssemblyMonitor, _cache_size
from ..ref import scatter
from . import _sims
from ._probe import ProbeSimu

PROP = "C03"
NUM = 3
RULE = (
    "cases = real simulations of every type solved under the Assembly monitor, ProbeSimu operation histories "
    "(random element data, dof_n in {1,2,3,6}, real/complex, None slots per group, boundary groups, empty groups, "
    "Lagrange conditions, Bc_Init, mesh replacement, repeated assembly on the cached map), and node renumberings. "
    "Signature = (case kind, simulation / history shape, element type, dof_n, complex). Non-trivial iff >= 1 assembly "
    "with a non-empty contribution was compared."
)
ASSUMPTIONS = [
    "dense reference limited to Ndof <= 1500",
    "relative tolerance 1e-11 (bincount and scipy sum duplicates in different orders)",
]
TIMEOUT_CASE = 300
MIN_EVALS = {"assembly-K": 40, "assembly-F": 40, "cached-map-reused": 5, "renumber-K": 4}
REQUIRED_COVERAGE = ["Assemble_csr", "Get_csr_map", "Assembly"]
TOL = 1e-11


def anchors():
    from EasyFEA.Simulations._simu import _Simu
    from EasyFEA.FEM._group_elem import _GroupElem

    return [
        ("Assemble_csr", _Simu, "_Simu__Assemble_csr"),
        ("Get_csr_map", _Simu, "_Simu__Get_csr_map"),
        ("Assembly", _Simu, "Assembly"),
        ("Get_rows_e", _GroupElem, "Get_rows_e"),
        ("Get_columns_e", _GroupElem, "Get_columns_e"),
        ("_Get_assembly_e", _GroupElem, "_Get_assembly_e"),
    ]


def cases(tier: str, seed: int) -> list[dict]:
    out = []
    rep = 1 if tier == "quick" else 6
    for r in range(rep):
        for kind, dim, et, kw in [
            ("elastic", 2, "TRI6", {}), ("elastic", 3, "TETRA4", {}), ("elastic", 2, "QUAD8", {"dyn": True}),
            ("thermal", 2, "QUAD4", {"dyn": True}), ("thermal", 3, "PRISM6", {}),
            ("beam", 2, "SEG3", {"bdim": 2, "theory": "Timo"}), ("beam", 3, "SEG2", {"bdim": 3, "theory": "EB"}),
            ("weakforms", 2, "TRI3", {"dof_n": 1}), ("weakforms", 2, "QUAD4", {"dof_n": 2}),
            ("phasefield", 2, "TRI3", {}), ("phasefield", 2, "QUAD4", {"pfsolver": "HistoryDamage"}),
            ("hyperelastic", 2, "TRI6", {}), ("hyperelastic", 3, "HEXA8", {}),
            ("inelastic", 2, "QUAD4", {}), ("inelastic", 3, "TETRA4", {}),
            ("elastic", 2, "TRI3+QUAD4", {"mixed": True}), ("thermal", 2, "TRI6+QUAD9", {"mixed": True}),
        ]:
            out.append({"case": "real", "kind": kind, "dim": dim, "et": et, "kw": kw})
        nprobe = 30 if tier == "quick" else 60
        for j in range(nprobe):
            out.append({"case": "probe", "dof_n": [1, 2, 3, 6][j % 4], "complex": (True if j % 5 == 0 else "mixed" if j % 5 == 2 else False), "dim": 2 if j % 3 else 3,
                        "et": (gm.ET_2D + gm.ET_3D)[(j + r) % 15], "nops": 6 if tier == "quick" else 12})
        for et in ["TRI3", "QUAD9", "TETRA10", "PRISM6", "SEG3", "TRI10"]:
            out.append({"case": "renumber", "kind": "thermal" if et in ("SEG3", "QUAD9") else "elastic", "et": et,
                        "dim": 1 if et.startswith("SEG") else (2 if et in gm.ET_2D else 3)})
    # the stand-alone assembly of user forms (BiLinearForm / LinearForm .Assemble), which does not go through _Simu.Assembly
    for et in ["TRI3", "QUAD4", "TETRA4", "TRI6"]:
        for dof_n in (1, 2):
            out.append({"case": "forms", "et": et, "dof_n": dof_n, "dim": 2 if et in gm.ET_2D else 3})
    # one large system (Ndof^2 > 2^31: linear (row, col) indices no longer fit 32-bit integers)
    out.append({"case": "large", "et": "QUAD4", "dof_n": 2, "nx": 156})
    if tier == "thorough":
        out.append({"case": "large", "et": "TRI3", "dof_n": 3, "nx": 130})
    for i, c in enumerate(out):
        c["id"] = f"C03-{i:05d}-{c['case']}-{c.get('kind', 'probe')}-{c['et']}"
        c["index"] = i
    for c in _suite.suite_cases(PROP, tier):
        c["index"] = len(out)
        out.append(c)
    return out


def _report(ctx: Ctx, mon: AssemblyMonitor, key: str, start: int = 0):
    n = 0
    for rec in mon.records[start:]:
        if "error" in rec:
            raise RuntimeError("assembly monitor failed: " + rec["error"])
        n += 1
        k = f"{key}/{rec['simu']}/{rec['problemType']}"
        for name in "KCM":
            ctx.check("assembly-" + name, rec["err"][name], TOL, k + "/" + name, Ndof=rec["Ndof"], groups=rec["groups"])
        ctx.check("assembly-F", rec["err"]["F"], TOL, k + "/F", Ndof=rec["Ndof"], groups=rec["groups"])
        ctx.require("assembly-shapes", rec["shape_ok"], k + "/shape")
    return n


def run_case(case: dict, ctx: Ctx) -> None:
    if case.get("fam") == "suite":
        return _suite.run_suite(case, ctx, PROP)
    rng = np.random.default_rng([case["seed"], NUM, case["index"]])
    {"real": run_real, "probe": run_probe, "renumber": run_renumber, "large": run_large, "forms": run_forms}[case["case"]](case, ctx, rng)


def run_forms(case, ctx, rng):
    """form.Assemble(field) places the element arrays form.Integrate_e(field) returns at the rows (test function) and columns
    (trial function) of the connectivity: compared with the dense explicit scatter-add, for forms that are not symmetric."""
    from EasyFEA.FEM import BiLinearForm, Field, LinearForm

    et, dof_n, dim = case["et"], case["dof_n"], case["dim"]
    key = f"C03/forms/dof_n={dof_n}"
    ctx.default_key = key
    with ctx.monitored("no-exception", key + "/mesh/raised"):
        with quiet():
            mesh, _ = _sims.small_mesh(rng, dim, et, size=1.6)
    g = mesh.Get_list_groupElem(dim)[0]
    if len(mesh.Get_list_groupElem(dim)) > 1:
        ctx.event("multi-group-mesh-skipped")
        ctx.describe(f"forms/{et}/{dof_n}", False)
        return
    bvec = rng.uniform(0.5, 2, dim)
    A = rng.normal(size=(dim, dim)) + 2 * np.eye(dim)
    if dof_n == 1:
        forms = {"advection": lambda u, v: (u.grad.dot(bvec)) * v, "nonsym-diffusion": lambda u, v: (A @ u.grad).dot(v.grad) + 0.3 * u * v}
        lin = {"source": lambda v: 1.7 * v}
    else:
        forms = {"vector-advection": lambda u, v: (u.grad @ bvec[:dof_n] if dim == dof_n else u.grad @ bvec).dot(v),
                 "mass+advection": lambda u, v: u.dot(v) + (u.grad @ bvec).dot(v)}
        fv = rng.uniform(-1, 1, dof_n)
        lin = {"source": lambda v: v.dot(fv)}
    field = Field(g, dof_n)
    Ndof = mesh.Nn * dof_n
    n_ok = 0
    for name, fn in forms.items():
        F = BiLinearForm(fn)
        with ctx.monitored("no-exception", f"{key}/{name}/raised"):
            with quiet():
                Ke = np.asarray(F.Integrate_e(field))
                Aasm = F.Assemble(field)
        want = scatter.scatter_matrix({g: Ke}, dof_n, Ndof)
        got = Aasm.toarray() if Aasm.shape == (Ndof, Ndof) else np.full((Ndof, Ndof), np.nan)
        asym = float(np.abs(want - want.T).max() / np.abs(want).max())
        ctx.check("assembly-K", relerr(got, want, scale=np.abs(want).max()), TOL, f"{key}/{name}/Assemble", et=et, asymmetry_of_reference=asym)
        ctx.event("form-reference-nonsymmetric" if asym > 1e-3 else "form-reference-symmetric")
        n_ok += 1
    for name, fn in lin.items():
        F = LinearForm(fn)
        with ctx.monitored("no-exception", f"{key}/{name}/raised"):
            with quiet():
                Fe = np.asarray(F.Integrate_e(field))
                Fasm = F.Assemble(field)
        want = scatter.scatter_vector({g: Fe.reshape(g.Ne, -1)}, dof_n, Ndof)
        got = Fasm.toarray().ravel() if Fasm.shape == (Ndof, 1) else np.full(Ndof, np.nan)
        ctx.check("assembly-F", relerr(got, want, scale=np.abs(want).max()), TOL, f"{key}/{name}/Assemble", et=et)
    ctx.describe(f"forms/{et}/{dof_n}", n_ok > 0 and g.Ne >= 2, et=et, dof_n=dof_n, Ne=g.Ne)


# ------------------------------------------------------------------------------------------
def run_real(case, ctx, rng):
    kind, kw = case["kind"], dict(case["kw"])
    key = f"C03/real/{kind}"
    ctx.default_key = key
    mon = AssemblyMonitor()
    mon.install()
    try:
        with ctx.monitored("no-exception", key + "/raised"):
            with quiet():
                if kw.pop("mixed", False):
                    simu = _mixed(kind, case["et"], rng)
                else:
                    dyn = kw.pop("dyn", False)
                    simu, info = _sims.make(kind, rng, dim=case["dim"], et=case["et"], **kw)
                    if dyn:
                        if kind == "thermal":
                            simu.Solver_Set_Parabolic_Algorithm(0.1, 0.5)
                        else:
                            simu.rho = 2.0
                            simu.Set_Rayleigh_Damping_Coefs(0.1, 0.01)
                            simu.Solver_Set_Hyperbolic_Algorithm(0.1)
                for step in range(2):
                    simu.Solve()
                    simu.Save_Iter()
                    simu.Need_Update()  # force a re-assembly on the cached sparsity map
    finally:
        mon.uninstall()
    n = _report(ctx, mon, key)
    ctx.describe(f"real/{kind}/{case['et']}", n > 0, kind=kind, et=case["et"], assemblies_checked=n, assemblies_seen=mon.calls,
                 skipped=mon.skipped, cache_sizes=[r.get("cache_size") for r in mon.records[:6]])
    ctx.event("assemblies-compared", n)


def _mixed(kind, et, rng):
    e1, e2 = et.split("+")
    p1 = np.array([[0, 0], [1, 0], [1, 1], [0, 1]], float)
    p2 = p1 + [1, 0]
    m1 = gm.mesh2d(p1, e1, 0.5, organised=True)
    m2 = gm.mesh2d(p2, e2, 0.5, organised=True)
    mesh = Mesh.Merge([m1, m2])
    n0 = _sims.nodes_x(mesh, 0.0)
    nL = _sims.nodes_x(mesh, 2.0)
    if kind == "elastic":
        simu = Simulations.Elastic(mesh, Models.Elastic.Isotropic(2, E=10.0, v=0.3))
        simu.add_dirichlet(n0, [0, 0], ["x", "y"])
        simu.add_dirichlet(nL, [0.01], ["x"])
    else:
        simu = Simulations.Thermal(mesh, Models.Thermal(k=2.0, c=1.0))
        simu.add_dirichlet(n0, [0], ["t"])
        simu.add_dirichlet(nL, [1], ["t"])
    return simu


# ------------------------------------------------------------------------------------------
def _rand(rng, shape, cplx):
    x = rng.normal(size=shape)
    if cplx:
        x = x + 1j * rng.normal(size=shape)
    return x


def _random_local(rng, mesh, dof_n, cplx, with_boundary: bool):
    """Random element data; each slot may be None for some groups only; boundary (dim-1) groups may contribute."""
    groups = list(mesh.Get_list_groupElem(mesh.dim))
    if with_boundary and mesh.dim > 1:
        groups += list(mesh.Get_list_groupElem(mesh.dim - 1))
    # the dict may list the groups in any order (a user subclass may add a boundary term before calling super())
    main = groups[0]
    if len(groups) > 1 and rng.random() < 0.5:
        groups = [groups[i] for i in rng.permutation(len(groups))]
    local = {}
    for gi, g in enumerate(groups):
        nl = g.nPe * dof_n
        slots = []
        # "mixed": real bulk data with complex data on some other groups (e.g. a complex impedance on a boundary)
        gc = (g is not main and rng.random() < 0.7) if cplx == "mixed" else bool(cplx)
        for s in range(4):
            absent = rng.random() < (0.15 if g is main else 0.4)
            if absent:
                slots.append(None)
            elif s < 3:
                slots.append(_rand(rng, (g.Ne, nl, nl), gc))
            else:
                slots.append(_rand(rng, (g.Ne, nl), gc))
        local[g] = tuple(slots)
    return local


def run_probe(case, ctx, rng):
    dof_n, cplx, et, dim = case["dof_n"], case["complex"], case["et"], case["dim"]
    dim = 2 if et in gm.ET_2D else 3
    key = f"C03/probe/dof_n={dof_n}/complex={cplx}"
    ctx.default_key = key
    with quiet():
        mesh, _ = _sims.small_mesh(rng, dim, et, size=1.6)
        mesh2, _ = _sims.small_mesh(rng, dim, et, size=1.3)
    if mesh.Nn * dof_n > 1400:
        dof_n = 1
    mon = AssemblyMonitor()
    mon.install()
    ops_done = []
    reused = 0
    try:
        with ctx.monitored("no-exception", key + "/raised"):
            with quiet():
                simu = ProbeSimu(mesh, dof_n)
                pt = simu.problemType
                simu.local = _random_local(rng, simu.mesh, dof_n, cplx, with_boundary=bool(rng.integers(2)) or cplx == "mixed")
                ops = ["assemble", "assemble-again"] + list(rng.choice(
                    ["assemble-again", "new-values", "change-groups", "add-lagrange", "add-dirichlet", "bc-init", "replace-mesh",
                     "get-kcmf", "empty-group", "renumbered-mesh"], size=case["nops"]))
                for op in ops:
                    start = len(mon.records)
                    cache_before = _cache_size(simu)
                    if op in ("assemble", "assemble-again"):
                        simu.Assembly(pt)
                    elif op == "new-values":
                        simu.local = {g: tuple(None if v is None else _rand(rng, np.shape(v), np.iscomplexobj(v)) for v in slots)
                                      for g, slots in simu.local.items()}
                        simu.Assembly(pt)
                    elif op == "change-groups":
                        simu.local = _random_local(rng, simu.mesh, dof_n, cplx, with_boundary=bool(rng.integers(2)) or cplx == "mixed")
                        simu.Assembly(pt)
                    elif op == "add-lagrange":
                        nodes = rng.choice(gm.used_nodes(simu.mesh), 2, replace=False)
                        u = simu.Get_unknowns()[int(rng.integers(dof_n))]
                        dofs = simu.Bc_dofs_nodes(nodes, [u], pt)
                        simu._Bc_Add_Lagrange(LagrangeCondition(pt, nodes, dofs, [u], np.array([0.0]), np.array([1.0, -1.0]), "probe"))
                        simu.Assembly(pt)
                    elif op == "add-dirichlet":
                        nodes = rng.choice(gm.used_nodes(simu.mesh), 3, replace=False)
                        simu.add_dirichlet(nodes, [0.0], [simu.Get_unknowns()[0]])
                        simu.Assembly(pt)
                    elif op == "bc-init":
                        simu.Bc_Init()
                        simu.Assembly(pt)
                    elif op == "replace-mesh":
                        simu.mesh = mesh2 if simu.mesh is not mesh2 else mesh
                        simu.local = _random_local(rng, simu.mesh, dof_n, cplx, with_boundary=False)
                        simu.Assembly(pt)
                    elif op == "renumbered-mesh":
                        m = simu.mesh
                        perm = rng.permutation(m.Nn)
                        simu.mesh = gm.rebuild(m, perm=perm)  # same Nn, same Ne, other connectivity
                        simu.local = _random_local(rng, simu.mesh, dof_n, cplx, with_boundary=False)
                        simu.Assembly(pt)
                    elif op == "get-kcmf":
                        simu.Need_Update()
                        simu.Get_K_C_M_F()
                    elif op == "empty-group":
                        # a contributing group with zero elements (as an MPI rank owning none of that type)
                        from EasyFEA.FEM import GroupElemFactory
                        g0 = simu.mesh.Get_list_groupElem(simu.mesh.dim)[0]
                        empty = GroupElemFactory.Create(g0.elemType, np.zeros((0, g0.nPe), dtype=int), simu.mesh.coord)
                        nl = g0.nPe * dof_n
                        loc = dict(simu.local)
                        loc[empty] = (np.zeros((0, nl, nl)), None, np.zeros((0, nl, nl)), np.zeros((0, nl)))
                        simu.local = loc
                        simu.Assembly(pt)
                    ops_done.append(op)
                    if op == "assemble-again" and _cache_size(simu) == cache_before and cache_before > 0:
                        reused += 1
                        ctx.require("cached-map-reused", True)
    finally:
        mon.uninstall()
    n = _report(ctx, mon, key)
    ctx.describe(f"probe/{et}/dof_n={dof_n}/complex={cplx}", n > 0, et=et, dof_n=dof_n, complex=cplx, ops=ops_done,
                 assemblies_checked=n, reuse_observed=reused, Ndof=[r.get("Ndof") for r in mon.records[:12]])
    ctx.event("assemblies-compared", n)


# ------------------------------------------------------------------------------------------
def run_renumber(case, ctx, rng):
    kind, et, dim = case["kind"], case["et"], case["dim"]
    key = f"C03/renumber/{kind}/{et}"
    ctx.default_key = key
    with quiet():
        if dim == 1:
            mesh = gm.mesh1d(et, 2.0, 5)
        else:
            mesh, _ = _sims.small_mesh(rng, dim, et, size=1.2)
    Nn = mesh.Nn
    perm = rng.permutation(Nn)
    mesh_p = gm.rebuild(mesh, perm=perm)
    X = mesh.coord
    used = gm.used_nodes(mesh)
    xmin, xmax = X[used, 0].min(), X[used, 0].max()
    n0 = used[np.abs(X[used, 0] - xmin) < 1e-9]
    nL = used[np.abs(X[used, 0] - xmax) < 1e-9]

    def build(m, n0, nL):
        if kind == "elastic":
            s = Simulations.Elastic(m, Models.Elastic.Isotropic(dim, E=10.0, v=0.3))
            s.rho = 1.7
            s.add_dirichlet(n0, [0] * dim, ["x", "y", "z"][:dim])
            s.add_dirichlet(nL, [0.01], ["x"])
            s.add_volumeLoad(gm.used_nodes(m), [0.3], ["y"])
        else:
            s = Simulations.Thermal(m, Models.Thermal(k=2.0, c=1.0))
            s.add_dirichlet(n0, [0], ["t"])
            s.add_dirichlet(nL, [1], ["t"])
        return s

    with ctx.monitored("no-exception", key + "/raised"):
        with quiet():
            s1 = build(mesh, n0, nL)
            s2 = build(mesh_p, perm[n0], perm[nL])
            K1, C1, M1, F1 = s1.Get_K_C_M_F()
            K2, C2, M2, F2 = s2.Get_K_C_M_F()
            u1 = s1.Solve()
            u2 = s2.Solve()
            fn1, fn2 = s1.Bc_vector_Neumann(), s2.Bc_vector_Neumann()
    dof_n = s1.Get_dof_n()
    pd = (perm[:, None] * dof_n + np.arange(dof_n)).ravel()  # old dof i -> new dof pd[i]
    for name, A1, A2 in (("K", K1, K2), ("C", C1, C2), ("M", M1, M2)):
        A1d, A2d = A1.toarray(), A2.toarray()
        ctx.check("renumber-" + name, relerr(A2d[np.ix_(pd, pd)], A1d, scale=np.abs(A1d).max() or 1.0), 1e-11, key + "/" + name)
    ctx.check("renumber-solution", relerr(u2[pd], u1), 1e-8, key + "/solution")
    ctx.check("renumber-neumann", relerr(fn2[pd], fn1), 1e-11, key + "/neumann")
    ctx.describe(f"renumber/{kind}/{et}", True, kind=kind, et=et, Nn=Nn, perm_head=perm[:8])


# ------------------------------------------------------------------------------------------
def run_large(case, ctx, rng):
    """Large system assembled from random element data; reference = element-loop mat-vec products accumulated with
    np.add.at on vectors (no dense matrix, no scipy conversion), diagonal and total sum."""
    from EasyFEA import ElemType, Mesh
    from EasyFEA.FEM import GroupElemFactory

    et, dof_n, nx = case["et"], case["dof_n"], case["nx"]
    key = f"C03/large/{et}"
    ctx.default_key = key
    xs = np.linspace(0, 1, nx)
    Xg, Yg = np.meshgrid(xs, xs, indexing="ij")
    coord = np.c_[Xg.ravel(), Yg.ravel(), np.zeros(nx * nx)]
    idx = np.arange(nx * nx).reshape(nx, nx)
    a, b, c, d = idx[:-1, :-1].ravel(), idx[1:, :-1].ravel(), idx[1:, 1:].ravel(), idx[:-1, 1:].ravel()
    if et == "QUAD4":
        con = np.c_[a, b, c, d]
    else:
        con = np.vstack([np.c_[a, b, c], np.c_[a, c, d]])
    perm = rng.permutation(nx * nx)  # generic numbering
    newc = np.empty_like(coord)
    newc[perm] = coord
    con = perm[con]
    with ctx.monitored("no-exception", key + "/raised"):
        with quiet():
            mesh = Mesh({ElemType(et): GroupElemFactory.Create(ElemType(et), con, newc)})
            simu = ProbeSimu(mesh, dof_n)
            g = mesh.groupElem
            nl = g.nPe * dof_n
            Ke = rng.normal(size=(g.Ne, nl, nl))
            Me = rng.normal(size=(g.Ne, nl, nl))
            Fe = rng.normal(size=(g.Ne, nl))
            simu.local = {g: (Ke, None, Me, Fe)}
            K, C, M, F = simu.Assembly(simu.problemType)
            K2, _, M2, _ = simu.Assembly(simu.problemType)  # second assembly on the cached map
    Ndof = mesh.Nn * dof_n
    gd = (con[:, :, None] * dof_n + np.arange(dof_n)).reshape(g.Ne, nl)  # harness-side dof table
    worst = 0.0
    for A, Ae in ((K, Ke), (M, Me), (K2, Ke)):
        for _ in range(2):
            x = rng.normal(size=Ndof)
            y = np.zeros(Ndof)
            np.add.at(y, gd, np.einsum("eij,ej->ei", Ae, x[gd]))
            worst = max(worst, relerr(A @ x, y))
        dref = np.zeros(Ndof)
        np.add.at(dref, gd, np.einsum("eii->ei", Ae))
        worst = max(worst, relerr(A.diagonal(), dref), abs(A.sum() - Ae.sum()) / np.abs(Ae).sum())
    fref = np.zeros(Ndof)
    np.add.at(fref, gd, Fe)
    ctx.check("assembly-K", worst, 1e-10, key + "/matvec", Ndof=Ndof)
    ctx.check("assembly-F", relerr(F.toarray().ravel(), fref), 1e-11, key + "/F")
    ctx.require("assembly-shapes", K.shape == (Ndof, Ndof) and F.shape == (Ndof, 1), key + "/shape")
    ctx.describe(f"large/{et}/dof_n={dof_n}", True, et=et, Ndof=Ndof, Ndof_squared_over_2_31=Ndof**2 / 2**31, nnz=int(K.nnz))
