"""C05 — each time scheme satisfies its update rule and discrete equation of motion.

Oracle: ref.time_schemes (written from the AlgoType docstrings / Hughes ch. 8-9 / Doyen et al.),
K, C, M, F from Get_K_C_M_F, energies computed here.
"""

from __future__ import annotations

import numpy as np
import scipy.linalg as sla

from EasyFEA import AlgoType, Models, Simulations

from . import _suite
from ..core import Ctx, quiet, relerr
from ..gen import meshes as gm
from ..ref import time_schemes as ts
from . import _sims
from ._probe import ProbeSimu

PROP = "C05"
NUM = 5
RULE = (
    "cases = (scenario: step-history / energy-history / newton-vs-direct, simulation kind, algorithm schedule) x seeded "
    "(dt in [1e-3,10] T1, alpha, beta, gamma, prior states, loads, constraints). Every step is judged from the state "
    "actually left by the previous one. Signature = (scenario, kind, algorithm, dt decade). Non-trivial iff the step "
    "has free dofs and a non-zero prior state."
)
ASSUMPTIONS = [
    "loads and prescribed values are constant within a step (load at the evaluation point = current load)",
    "newmark beta in [0.05,0.5], gamma in [0.3,0.9]; hht alpha in [0,0.9]; hht_newmark alpha in [0,1/3]; parabolic alpha in [0.05,1]",
    "euler_explicit is driven from states consistent with the constraints (its documented semantics)",
    "energy oracle: initial acceleration made consistent with the equation of motion (M a0 = -K u0)",
    "backward-error scaling: residuals are relative to |A||u1| + |K||ut| + |C||vt| + |M||at| + |b| row by row",
]
TIMEOUT_CASE = 300
ALGOS = ts.HYPERBOLIC
REQUIRED_COVERAGE = ["Apply_Neumann", "Update_solutions", "Evaluate_u_v_a", "Get_K_C_M_coefs"]
MIN_EVALS = {"update-v": 60, "update-a": 50, "equation-of-motion": 60, "weights": 60, "evaluate-states": 60,
             "energy-conserved": 4, "energy-nonincreasing": 2, "newton-vs-direct": 6}


def anchors():
    from EasyFEA.Simulations._simu import _Simu

    return [
        ("Apply_Neumann", _Simu, "_Solver_Apply_Neumann"),
        ("Update_solutions", _Simu, "_Solver_Update_solutions"),
        ("Evaluate_u_v_a", _Simu, "_Solver_Evaluate_u_v_a_for_time_scheme"),
        ("Get_K_C_M_coefs", _Simu, "_Solver_Get_K_C_M_coefs_for_time_scheme"),
    ]


def cases(tier: str, seed: int) -> list[dict]:
    out = []
    rep = 1 if tier == "quick" else 8
    nsteps = 6 if tier == "quick" else 20
    for r in range(rep):
        for kind in ["elastic", "beam", "weakforms", "probe", "probe3"]:
            for algo in ALGOS:
                if kind == "beam" and algo == "euler_explicit" and r % 2:
                    continue
                out.append({"sc": "steps", "kind": kind, "algos": [algo], "nsteps": nsteps})
            out.append({"sc": "steps", "kind": kind, "algos": [a for a in ALGOS if a != "euler_explicit"], "nsteps": 2 * nsteps, "switch": True})
        for kind in ["thermal", "weakforms", "probe"]:
            out.append({"sc": "steps", "kind": kind, "algos": ["parabolic"], "nsteps": nsteps})
        out.append({"sc": "steps", "kind": "probe", "algos": ["parabolic"] + ALGOS[:5], "nsteps": 2 * nsteps, "switch": True})
        for kind in ["elastic", "beam", "probe"]:
            for algo in ["newmark", "midpoint", "euler_implicit"]:
                out.append({"sc": "energy", "kind": kind, "algos": [algo], "nsteps": 10 if tier == "quick" else 50})
        for algo in ["newmark", "midpoint", "hht", "hht_newmark", "euler_implicit", "parabolic"]:
            out.append({"sc": "newton", "kind": "probe", "algos": [algo], "nsteps": 3})
        if r == 0:
            out.append({"sc": "steps", "kind": "thermal", "algos": ["parabolic"], "nsteps": 2, "alpha0": True})
    for i, c in enumerate(out):
        c["id"] = f"C05-{i:05d}-{c['sc']}-{c['kind']}-{'+'.join(c['algos']) if len(c['algos']) < 3 else 'switching'}"
        c["index"] = i
    for c in _suite.suite_cases(PROP, tier):
        c["index"] = len(out)
        out.append(c)
    return out


# ------------------------------------------------------------------------------------------
def _spd_local(rng, mesh, dof_n, with_c=True):
    local = {}
    for g in mesh.Get_list_groupElem(mesh.dim):
        nl = g.nPe * dof_n

        def spd(scale):
            B = rng.normal(size=(g.Ne, nl, nl))
            return scale * (B @ B.transpose(0, 2, 1) + 0.3 * np.eye(nl))

        local[g] = (spd(5.0), spd(0.2) if with_c else None, spd(1.0), rng.normal(size=(g.Ne, nl)))
    return local


def build(kind: str, rng):
    """Returns simu, info. BCs: clamped at x = 0, non-zero prescribed value at x = Lx on the first unknown, a nodal load."""
    with quiet():
        if kind == "elastic":
            simu, info = _sims.make("elastic", rng, 2, "TRI3", bc=False, size=1.3)
            simu.rho = float(rng.uniform(0.5, 3))
            simu.Set_Rayleigh_Damping_Coefs(float(rng.uniform(0, 0.2)), float(rng.uniform(0, 0.01)))
        elif kind == "thermal":
            simu, info = _sims.make("thermal", rng, 2, "QUAD4", bc=False, size=1.3)
        elif kind == "beam":
            simu, info = _sims.make("beam", rng, 2, "SEG2", bc=False, bdim=2, theory="EB")
            simu.rho = float(rng.uniform(0.5, 3))
        elif kind == "weakforms":
            simu, info = _sims.make("weakforms", rng, 2, "TRI3", bc=False, dof_n=1, size=1.3)
        elif kind in ("probe", "probe3"):
            dof_n = 1 if kind == "probe" else 3
            mesh, (Lx, Ly, h) = _sims.small_mesh(rng, 2, "TRI3", size=1.5)
            simu = ProbeSimu(mesh, dof_n)
            simu.local = _spd_local(rng, mesh, dof_n)
            info = {"Lx": Lx, "n0": _sims.nodes_x(mesh, 0.0), "nL": _sims.nodes_x(mesh, Lx)}
        else:
            raise ValueError(kind)
        un = simu.Get_unknowns()
        simu.add_dirichlet(info["n0"], [0.0] * len(un), un)
        info["amp"] = float(rng.uniform(0.005, 0.02))
        simu.add_dirichlet(info["nL"], [info["amp"]], [un[0]])
        used = gm.used_nodes(simu.mesh)
        freen = np.setdiff1d(used, np.concatenate([info["n0"], info["nL"]]))
        if len(freen):
            simu.add_neumann(rng.choice(freen, 1), [float(rng.uniform(-1, 1))], [un[-1]])
    return simu, info


def _draw_params(rng, algo, T1):
    p = {"dt": float(T1 * 10 ** rng.uniform(-3, 1)), "alpha": 0.5, "beta": 0.25, "gamma": 0.5}
    if algo == "newmark":
        if rng.random() < 0.5:
            p["beta"], p["gamma"] = float(rng.uniform(0.05, 0.5)), float(rng.uniform(0.3, 0.9))
    elif algo == "hht":
        p["alpha"] = float(rng.uniform(0, 0.9))
        if rng.random() < 0.5:
            p["beta"], p["gamma"] = float(rng.uniform(0.1, 0.5)), float(rng.uniform(0.4, 0.9))
    elif algo == "hht_newmark":
        p["alpha"] = float(rng.uniform(0, 1 / 3))
        p["beta"], p["gamma"] = float(rng.uniform(0.1, 0.5)), float(rng.uniform(0.4, 0.9))  # must be overwritten by the scheme
    elif algo == "parabolic":
        p["alpha"] = float(rng.choice([1.0, 0.5, rng.uniform(0.05, 1.0)]))
    elif algo == "midpoint" and rng.random() < 0.5:
        # one set of keyword arguments reused for every scheme: the midpoint rule is documented with fixed alpha, beta, gamma
        p["alpha"], p["beta"], p["gamma"] = float(rng.uniform(0, 0.9)), float(rng.uniform(0.1, 0.5)), float(rng.uniform(0.4, 0.9))
    return p


def _set_algo(simu, algo, p):
    if algo == "parabolic":
        simu.Solver_Set_Parabolic_Algorithm(p["dt"], p["alpha"])
    else:
        simu.Solver_Set_Hyperbolic_Algorithm(p["dt"], algo=AlgoType(algo), beta=p["beta"], gamma=p["gamma"], alpha=p["alpha"])


def _period(K, M, free):
    Kd = K[free][:, free].toarray()
    Md = M[free][:, free].toarray()
    try:
        lam = sla.eigh(0.5 * (Kd + Kd.T), 0.5 * (Md + Md.T), eigvals_only=True)
        lam = lam[lam > 0]
        return float(2 * np.pi / np.sqrt(lam.min()))
    except Exception:  # noqa: BLE001  (singular M: Timoshenko-like) -> crude scale
        return float(np.sqrt(abs(Md).max() / abs(Kd).max()))


def _dofsets(simu, pt):
    dof_n = simu.Get_dof_n(pt)
    used = gm.used_nodes(simu.mesh)
    ud = (used[:, None] * dof_n + np.arange(dof_n)).ravel()
    known = np.unique(simu.Bc_dofs_Dirichlet(pt))
    return ud, known, np.setdiff1d(ud, known)


def check_step(ctx: Ctx, simu, algo: str, p: dict, key: str, before, after, explicit_solve_var=None):
    """One executed step judged against the reference model."""
    pt = simu.problemType
    un, vn, an = before
    u1, v1, a1 = after
    K, C, M, F = simu.Get_K_C_M_F()
    n = un.size
    K, C, M = K[:n, :n], C[:n, :n], M[:n, :n]
    b = F.toarray().ravel()[:n] + simu.Bc_vector_Neumann(pt)
    ud, known, free = _dofsets(simu, pt)
    dt = p["dt"]
    x = a1 if algo == "euler_explicit" else u1
    ref = ts.step(algo, p, un, vn, an, x)
    pe = ts.effective_params(algo, p)

    # (1) update relations
    sc_u = np.abs(u1).max() + np.abs(un).max() + dt * np.abs(vn).max() + dt**2 * np.abs(an).max()
    if algo == "euler_explicit":
        ctx.check("update-u", relerr(u1, ref["u1"], scale=sc_u), 1e-12, key + "/update-u")
        ctx.check("update-v", relerr(v1, ref["v1"], scale=np.abs(vn).max() + dt * np.abs(a1).max()), 1e-12, key + "/update-v")
    else:
        if algo == "parabolic":
            sc_v = sc_u / (pe["alpha"] * dt)
            ctx.check("update-v", relerr(v1, ref["v1"], scale=sc_v), 1e-10, key + "/update-v")
        else:
            beta = pe["beta"] if algo not in ("euler_implicit",) else 1.0
            sc_a = sc_u / (min(beta, 0.25) * dt**2)
            sc_v = sc_u / dt + dt * sc_a
            ctx.check("update-v", relerr(v1, ref["v1"], scale=sc_v), 1e-10, key + "/update-v")
            ctx.check("update-a", relerr(a1, ref["a1"], scale=sc_a), 1e-10, key + "/update-a")

    # (2) discrete equation of motion at the evaluation point, free dofs
    ut, vt, at = ref["ut"], ref["vt"], ref["at"]
    r = K @ ut + C @ vt - b
    rows = np.asarray(abs(K) @ np.abs(ut) + abs(C) @ np.abs(vt)).ravel() + np.abs(b)
    if at is not None:
        r = r + M @ at
        rows = rows + np.asarray(abs(M) @ np.abs(at)).ravel()
    wK, wC, wM = ts.weights(algo, p)
    rows = rows + np.asarray(abs(wK * K + wC * C + wM * M) @ np.abs(x)).ravel()
    if len(free):
        ctx.check("equation-of-motion", float(np.max(np.abs(r[free]) / np.maximum(rows[free], 1e-300))), 1e-9, key + "/equation", n_free=len(free), dt=dt)

    # (3) weights are the derivatives of the evaluation-point states
    got = simu._Solver_Get_K_C_M_coefs_for_time_scheme()
    want = (wK, wC, wM)
    ctx.check("weights", max(abs(g_ - w_) / max(abs(w_), 1e-300) if w_ else abs(g_) for g_, w_ in zip(got, want)), 1e-9, key + "/weights", got=got, want=want)

    # (5) constraints
    if algo != "euler_explicit" and len(known):
        vals = simu.Bc_vector_Dirichlet(pt)
        ctx.check("dynamic-constraints", relerr(u1[known], vals[known], scale=np.abs(vals).max() or 1.0), 1e-12, key + "/constraints")
    for nm, arr in (("u", u1), ("v", v1), ("a", a1)):
        if arr is not None:
            ctx.finite("finite", arr, key + "/finite")
    return len(free) > 0


def _states(simu):
    pt = simu.problemType
    return simu._Get_u_n(pt), simu._Get_v_n(pt), simu._Get_a_n(pt)


def run_case(case: dict, ctx: Ctx) -> None:
    if case.get("fam") == "suite":
        return _suite.run_suite(case, ctx, PROP)
    rng = np.random.default_rng([case["seed"], NUM, case["index"]])
    {"steps": run_steps, "energy": run_energy, "newton": run_newton}[case["sc"]](case, ctx, rng)


def run_steps(case, ctx, rng):
    kind = case["kind"]
    ctx.default_key = f"C05/steps/{kind}"
    with ctx.monitored("no-exception", ctx.default_key + "/raised"):
        simu, info = build(kind, rng)
        pt = simu.problemType
        with quiet():
            K, C, M, F = simu.Get_K_C_M_F()
    n = simu.mesh.Nn * simu.Get_dof_n()
    ud, known, free = _dofsets(simu, pt)
    parab_only = case["algos"] == ["parabolic"]
    T1 = _period(K[:n, :n], (C if (parab_only or abs(M).sum() == 0) else M)[:n, :n], free)
    # arbitrary prior state
    scale = info["amp"]
    u0 = rng.normal(size=n) * scale
    v0 = rng.normal(size=n) * scale / T1
    a0 = rng.normal(size=n) * scale / T1**2
    simu._Set_solutions(pt, u0.copy(), v0.copy(), a0.copy())
    sigs = set()
    nontrivial = False
    algo = None
    for s in range(case["nsteps"]):
        if algo is None or case.get("switch"):
            algo = str(rng.choice(case["algos"]))
            p = _draw_params(rng, algo, T1)
        elif rng.random() < 0.45:
            dt_old = p["dt"]
            p = _draw_params(rng, algo, T1)  # change dt / parameters between steps
            if rng.random() < 0.5:
                p["dt"] = dt_old  # only alpha / beta / gamma change: same algorithm, same step size
                ctx.event("parameters-changed-at-fixed-dt")
        key = f"C05/{algo}/{kind}"
        if case.get("alpha0"):
            # documented option of Solver_Set_Parabolic_Algorithm: "alpha = 0 -> Forward Euler"
            p["alpha"] = 0.0
            key = "C05/parabolic/alpha=0"
        with ctx.monitored("no-exception", key + "/raised"):
            with quiet():
                _set_algo(simu, algo, p)
                if algo == "euler_explicit":
                    # states consistent with the constraints: prescribed displacement, zero velocity on constrained dofs
                    un, vn, an = _states(simu)
                    vals = simu.Bc_vector_Dirichlet(pt)
                    un[known] = vals[known]
                    vn[known] = 0.0
                    simu._Set_solutions(pt, un, vn, an)
                before = _states(simu)
                # (4) evaluation states for a probe vector
                probe = rng.normal(size=n) * scale
                if algo != "euler_explicit" and not case.get("alpha0"):
                    got = simu._Solver_Evaluate_u_v_a_for_time_scheme(pt, probe.copy())
                    ref = ts.step(algo, p, *before, probe)
                    errs = []
                    for g_, k in zip(got, ("ut", "vt", "at")):
                        if ref[k] is None:
                            errs.append(0.0 if g_ is None else np.inf)
                        else:
                            sc = np.abs(ref[k]).max() + (np.abs(probe).max() + np.abs(before[0]).max()) * {"ut": 1, "vt": 1 / p["dt"], "at": 1 / p["dt"] ** 2}[k] * 10
                            errs.append(relerr(g_, ref[k], scale=sc))
                    # (1e-9: the acceleration state divides a difference of displacements by beta dt^2, beta down to 0.05; observed <= 1.2e-10)
                    ctx.check("evaluate-states", max(errs), 1e-9, key + "/evaluate-states")
                simu.Solve()
                after = _states(simu)
        a_after = after[2] if algo != "parabolic" else None
        nontrivial |= check_step(ctx, simu, algo, p, key, before, (after[0], after[1], a_after))
        sigs.add(algo)
        ctx.event("step:" + algo)
        if not np.all(np.isfinite(after[0])) or np.abs(after[0]).max() > 1e6 * scale:
            # conditionally stable schemes may blow up with large dt: restart from a fresh arbitrary state
            simu._Set_solutions(pt, u0.copy(), v0.copy(), a0.copy())
            ctx.event("restart-after-growth")
    ctx.describe(f"steps/{kind}/{'+'.join(sorted(sigs))}", nontrivial, kind=kind, algos=sorted(sigs), nsteps=case["nsteps"], T1=T1, Ndof=n)


def _energy(K, M, u, v):
    return 0.5 * float(v @ (M @ v)) + 0.5 * float(u @ (K @ u))


def run_energy(case, ctx, rng):
    kind, algo = case["kind"], case["algos"][0]
    key = f"C05/energy/{algo}/{kind}"
    ctx.default_key = key
    with ctx.monitored("no-exception", key + "/raised"):
        with quiet():
            if kind == "probe":
                mesh, (Lx, Ly, h) = _sims.small_mesh(rng, 2, "TRI3", size=1.5)
                simu = ProbeSimu(mesh, 2)
                loc = _spd_local(rng, mesh, 2, with_c=False)
                simu.local = {g: (v[0], None, v[2], None) for g, v in loc.items()}
                info = {"n0": _sims.nodes_x(mesh, 0.0)}
            else:
                simu, info = build(kind, rng)
                if kind == "elastic":
                    simu.Set_Rayleigh_Damping_Coefs(0.0, 0.0)
            simu.Bc_Init()  # unloaded; homogeneous clamp only
            un_ = simu.Get_unknowns()
            simu.add_dirichlet(info["n0"], [0.0] * len(un_), un_)
            pt = simu.problemType
            K, C, M, F = simu.Get_K_C_M_F()
    n = simu.mesh.Nn * simu.Get_dof_n()
    K, M = K[:n, :n], M[:n, :n]
    ud, known, free = _dofsets(simu, pt)
    T1 = _period(K, M, free)
    u0 = np.zeros(n)
    v0 = np.zeros(n)
    a0 = np.zeros(n)
    u0[free] = rng.normal(size=len(free)) * 1e-2
    v0[free] = rng.normal(size=len(free)) * 1e-2 / T1
    Mff = M[free][:, free].toarray()
    a0[free] = np.linalg.solve(Mff, -(K @ u0)[free])  # consistent initial acceleration (assumption stated in the evidence)
    simu._Set_solutions(pt, u0, v0, a0)
    E = [_energy(K, M, u0, v0)]
    dts = []
    conds = []
    Escale = [E[0]]
    with ctx.monitored("no-exception", key + "/raised"):
        with quiet():
            for s in range(case["nsteps"]):
                if s % 4 == 0:
                    dt = float(T1 * 10 ** rng.uniform(-1.3, 0.7))  # step size changes along the history (2 decades)
                    simu.Solver_Set_Hyperbolic_Algorithm(dt, algo=AlgoType(algo))
                    Aff = (K + 4 / dt**2 * M)[free][:, free].toarray() if algo != "euler_implicit" else np.eye(2)
                    conds.append(float(np.linalg.cond(Aff)))
                dts.append(dt)
                simu.Solve()
                u, v, a = _states(simu)
                E.append(_energy(K, M, u, v))
                Escale.append(0.5 * float(np.abs(u) @ (abs(K) @ np.abs(u))) + 0.5 * float(np.abs(v) @ (abs(M) @ np.abs(v))))
    E = np.array(E)
    if algo in ("newmark", "midpoint"):
        # round-off of one linear solve ~ eps * cond(K + 4/dt^2 M); it enters the energy once per step
        # the solve error perturbs u by eps*cond*|u|, i.e. the energy by eps*cond*(|u|'|K||u| + |v|'|M||v|) per step
        # and Newmark's a = (u1 - upred)/(beta dt^2) carries an absolute error eps|u|/dt_min^2 that re-enters the predictor
        # as dt_max^2 * (that): factor (dt_max/dt_min)^2 when the step size changes along the history. The constant is an
        # empirical safety factor: drifts of up to 10x a factor-50 model were observed on stiff Euler-Bernoulli members (seeds 4-8)
        tol = 1e-10 + 2000 * np.finfo(float).eps * max(conds) * len(dts) * max(Escale) / E[0] * (max(dts) / min(dts)) ** 2
        if tol > 1e-4:
            # the problem is too stiff for round-off to leave a decisive margin: no verdict from this history
            ctx.event("energy-history-too-stiff-skipped")
            ctx.describe(f"energy/{kind}/{algo}/skipped", False, kind=kind, algo=algo, tol=tol)
            return
        ctx.check("energy-conserved", float(np.abs(E - E[0]).max() / E[0]), tol, key + "/conserved", E0=E[0], nsteps=len(E) - 1, cond=max(conds))
    else:
        inc = float(np.max(np.diff(E)) / E[0])
        ctx.check("energy-nonincreasing", max(0.0, inc), 1e-12, key + "/nonincreasing", E=E[:6])
        ctx.require("energy-dissipates", E[-1] < E[0], key + "/dissipates")
    ctx.describe(f"energy/{kind}/{algo}", E[0] > 0 and len(free) > 0, kind=kind, algo=algo, nsteps=len(E) - 1, dt_over_T1=[d / T1 for d in dts[:5]],
                 E0=E[0], Eend=E[-1])


def run_newton(case, ctx, rng):
    """A linear problem posed incrementally (F_e = f - K u_t - C v_t - M a_t with the simulation's own evaluation
    states, as Construct_local_matrix_system's docstring prescribes) must reproduce the direct step."""
    algo = case["algos"][0]
    key = f"C05/newton-vs-direct/{algo}"
    ctx.default_key = key
    with quiet():
        mesh, (Lx, Ly, h) = _sims.small_mesh(rng, 2, "TRI3", size=1.5)
    dof_n = 2
    local = _spd_local(rng, mesh, dof_n)
    n0, nL = _sims.nodes_x(mesh, 0.0), _sims.nodes_x(mesh, Lx)

    def asm(g):
        return (g.connect[:, :, None] * dof_n + np.arange(dof_n)).reshape(g.Ne, -1)

    def builder(simu, pt):
        u_cur = simu._Solver_Get_Newton_Raphson_current_solution()
        ut, vt, at = simu._Solver_Evaluate_u_v_a_for_time_scheme(pt, u_cur)
        out = {}
        for g, (Ke, Ce, Me, Fe) in local.items():
            idx = asm(g)
            R = Fe - np.einsum("eij,ej->ei", Ke, ut[idx]) - np.einsum("eij,ej->ei", Ce, vt[idx])
            if at is not None:
                R = R - np.einsum("eij,ej->ei", Me, at[idx])
            out[g] = (Ke, Ce, Me, R)
        return out

    with ctx.monitored("no-exception", key + "/raised"):
        with quiet():
            lin = ProbeSimu(mesh, dof_n)
            lin.local = local
            nl = ProbeSimu(mesh, dof_n, builder=builder)
            nl._Solver_Set_Newton_Raphson_Algorithm(absTol=1e-9, relTol=1e-9, incTol=1e-12, maxIter=10)
            worst = 0.0
            K, C, M, F = lin.Get_K_C_M_F()
            n = mesh.Nn * dof_n
            ud, known, free = None, None, None
            for s_ in (lin, nl):
                s_.add_dirichlet(n0, [0.0, 0.0], ["x", "y"])
                s_.add_dirichlet(nL, [0.01], ["x"])
                s_.add_neumann(nL[:1], [0.3], ["y"])
            ud, known, free = _dofsets(lin, lin.problemType)
            T1 = _period(K[:n, :n], (C if algo == "parabolic" else M)[:n, :n], free)
            st = (rng.normal(size=n) * 1e-2, rng.normal(size=n) * 1e-2 / T1, rng.normal(size=n) * 1e-2 / T1**2)
            iters = []
            for step in range(case["nsteps"]):
                p = _draw_params(rng, algo, T1)
                for s_ in (lin, nl):
                    _set_algo(s_, algo, p)
                    s_._Set_solutions(s_.problemType, st[0].copy(), st[1].copy(), st[2].copy())
                lin.Solve()
                nl.Solve()
                a_, b_ = _states(lin), _states(nl)
                for i, nm in enumerate("uva"):
                    if algo == "parabolic" and nm == "a":
                        continue
                    sc = [1, 1 / p["dt"], 1 / p["dt"] ** 2][i] * (np.abs(a_[0]).max() + np.abs(st[0]).max())
                    worst = max(worst, relerr(b_[i], a_[i], scale=sc))
                st = a_
    ctx.check("newton-vs-direct", worst, 1e-8, key, steps=case["nsteps"])
    ctx.describe(f"newton/{algo}", True, algo=algo, Ndof=n, steps=case["nsteps"])
