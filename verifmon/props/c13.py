"""C13 — user-written weak forms assemble the same matrices as the built-in operators.

Oracle: the built-in operators (GradUGradV, GradU_A_GradV, UV, LinearizedElasticity, Linear.V) — themselves under
C01/C02/C09 — evaluated with the same quadrature; ref.scatter for the global assembly; dedicated Thermal / Elastic
simulations for static, parabolic and hyperbolic use.
"""

from __future__ import annotations

import numpy as np

from EasyFEA import AlgoType, MatrixType, Models, Simulations
from EasyFEA.FEM import BiLinearForm, FeArray, Field, LinearForm, Operators, Sym_Grad, Trace

from ..core import Ctx, quiet, relerr
from ..gen import meshes as gm
from ..ref import scatter
from . import _sims

PROP = "C13"
NUM = 13
RULE = (
    "cases = (form family x algebraically equal spelling, scalar / vector field with dof_n 1-3, element type, matrix type "
    "rigi / mass, coefficient class constant / per element / per Gauss point / function of Get_coords()) for Integrate_e and "
    "Assemble, plus WeakForms-vs-dedicated simulation twins (static, parabolic, hyperbolic). Signature = (scenario, form, "
    "spelling, dof_n, element type, matrix type, coefficient class). Non-trivial iff the group has >= 2 elements."
)
ASSUMPTIONS = [
    "groups of <= 40 elements (Integrate_e is a Python double loop over local dofs)",
    "forms and built-in operators are compared with the same matrixType; relative tolerance 1e-12",
]
TIMEOUT_CASE = 600
MIN_EVALS = {"integrate-vs-operator": 40, "assemble-vs-scatter": 15, "simulation-twin": 6}
REQUIRED_COVERAGE = ["BiLinear_Integrate_e", "Linear_Integrate_e", "BiLinear_Assemble", "Linear_Assemble", "Field_call", "Field_grad"]
TOL = 1e-12


def anchors():
    from EasyFEA.FEM import _forms, _field

    return [
        ("BiLinear_Integrate_e", _forms.BiLinearForm, "Integrate_e"), ("Linear_Integrate_e", _forms.LinearForm, "Integrate_e"),
        ("BiLinear_Assemble", _forms.BiLinearForm, "Assemble"), ("Linear_Assemble", _forms.LinearForm, "Assemble"),
        ("Field_call", _field.Field, "__call__"), ("Field_grad", _field.Field, "grad"),
    ]


FORMS = ["coupled-mass", "diffusion", "aniso-diffusion", "nonsym-diffusion", "advection", "vector-advection", "mass-scalar", "mass-vector", "elasticity", "source-scalar", "source-vector"]


def cases(tier: str, seed: int) -> list[dict]:
    out = []
    rep = 1 if tier == "quick" else 5
    ets = gm.ET_2D + gm.ET_3D + ["SEG2", "SEG3"]
    k = 0
    for r in range(rep):
        for et in ets:
            heavy = et in ("HEXA20", "HEXA27", "PRISM15", "PRISM18", "TRI15", "TETRA10")
            # vector-field forms cost (nPe*dim)^2 form evaluations: on the big elements they run in the thorough tier only
            forms = FORMS if not (heavy and tier == "quick") else ["diffusion", "mass-scalar", "source-scalar", "aniso-diffusion", "nonsym-diffusion", "advection"]
            for form in forms:
                dim = 1 if et.startswith("SEG") else (2 if et in gm.ET_2D else 3)
                if dim == 1 and form in ("mass-vector", "elasticity", "source-vector", "aniso-diffusion", "nonsym-diffusion", "vector-advection", "coupled-mass"):
                    continue
                out.append({"sc": "form", "form": form, "et": et, "mt": ["mass", "rigi"][(k + r) % 2], "coef": ["const", "Ne", "NePg", "coords"][(k + r) % 4]})
                k += 1
            dim = 1 if et.startswith("SEG") else (2 if et in gm.ET_2D else 3)
            if dim == 3 and not (heavy and tier == "quick"):
                # a vector field with fewer components than the space has dimensions (1 <= dof_n <= dim is accepted)
                for form in ("vector-diffusion", "vector-advection", "mass-vector"):
                    out.append({"sc": "form", "form": form, "et": et, "mt": ["mass", "rigi"][(k + r) % 2], "coef": ["const", "Ne", "NePg", "coords"][(k + r) % 4], "dof_n": 2})
                    k += 1
            if dim >= 2 and not (heavy and tier == "quick"):
                out.append({"sc": "form", "form": "vector-diffusion", "et": et, "mt": ["mass", "rigi"][(k + r) % 2], "coef": ["const", "Ne", "NePg", "coords"][(k + r) % 4]})
                k += 1
        # the same forms on curved elements (the jacobian varies inside the elements along the hole), two length scales
        for j, et in enumerate(["TRI6", "QUAD8", "QUAD9", "TRI10"]):
            for form in (("diffusion", "elasticity", "mass-vector", "advection") if tier != "quick" else (("diffusion", "elasticity", "mass-vector", "advection")[(j + r) % 4],)):
                out.append({"sc": "form", "form": form, "et": et, "mt": ["mass", "rigi"][(k + r) % 2], "coef": ["const", "coords", "NePg", "Ne"][(k + r) % 4], "curved": [1.0, 1e-3][(k + r) % 2]})
                k += 1
        # time-dependent twins: element types on which the dedicated simulation's 'rigi' rule and the field's 'mass' rule both
        # integrate the stiffness exactly (affine simplices, organised QUAD4); static twins use a 'rigi' field
        for et in ["SEG2", "SEG3"]:
            out.append({"sc": "advection", "et": et})
        for kind, et, mode in [("thermal", "TRI3", "static"), ("thermal", "QUAD8", "static"), ("thermal", "TRI6", "parabolic"), ("thermal", "TETRA4", "static"),
                               ("elastic", "TRI6", "static"), ("elastic", "TRI3", "hyperbolic"), ("elastic", "TETRA4", "static"), ("elastic", "HEXA8", "static"),
                               ("thermal", "SEG3", "parabolic"), ("elastic", "QUAD9", "static")]:
            out.append({"sc": "twin", "kind": kind, "et": et, "mode": mode})
    for i, c in enumerate(out):
        c["id"] = f"C13-{i:05d}-{c['sc']}-{c.get('form', c.get('kind'))}-{c['et']}-{c.get('mt', c.get('mode'))}-{c.get('coef', '')}"
        c["index"] = i
    return out


def small_group(rng, et, curved=None):
    with quiet():
        if curved is not None:
            # curved (isoparametric) elements around a circular hole, at the length scale given
            mesh, _ = gm.mesh_curved(rng, et, 2, curved)
            return mesh, 2
        if et.startswith("SEG"):
            mesh = gm.mesh1d(et, 2.0, 4)
            return mesh, 1
        dim = 2 if et in gm.ET_2D else 3
        mesh, _ = _sims.small_mesh(rng, dim, et, size=2.2)
        if mesh.Ne > 40 or len(mesh.Get_list_groupElem(dim)) > 1:
            poly = np.array([[0, 0], [2, 0], [2, 1], [0, 1]], float)
            mesh = gm.mesh2d(poly, et, 1.0, organised=True) if dim == 2 else gm.mesh3d(poly, et, 1.0, 1, 1.0, organised=True)
    return mesh, dim


def coefficient(rng, cls, g, mt, lo=0.5, hi=2.0):
    """Returns (value for the built-in operator, value usable inside a form, description)."""
    Ne = g.Ne
    nPg = g.Get_gauss(mt).nPg
    if cls == "const":
        c = float(rng.uniform(lo, hi))
        return c, c
    if cls == "Ne":
        c = rng.uniform(lo, hi, Ne)
        return c, FeArray.asfearray(np.repeat(c[:, None], nPg, 1))
    if cls == "NePg":
        c = rng.uniform(lo, hi, (Ne, nPg))
        return c, FeArray.asfearray(c.copy())
    # function of the Gauss-point coordinates
    a = rng.uniform(0.1, 0.4, 3)
    X = np.asarray(g.Get_GaussCoordinates_e_pg(mt))
    c = 1.0 + X @ a
    return c, ("coords", a)


def run_case(case: dict, ctx: Ctx) -> None:
    rng = np.random.default_rng([case["seed"], NUM, case["index"]])
    {"form": run_form, "twin": run_twin, "advection": run_advection}[case["sc"]](case, ctx, rng)


def run_form(case, ctx, rng):
    form, et, mtname, ccls = case["form"], case["et"], case["mt"], case["coef"]
    mt = MatrixType(mtname)
    key = f"C13/{form}" + (f"/dof_n={case['dof_n']}" if "dof_n" in case else "") + ("/curved" if "curved" in case else "")
    ctx.default_key = key
    with ctx.monitored("no-exception", key + "/mesh/raised"):
        mesh, dim = small_group(rng, et, case.get("curved"))
    g = mesh.Get_list_groupElem(dim)[0]
    c_op, c_form = coefficient(rng, ccls, g, mt)

    def coef_in_form(f: Field):
        if isinstance(c_form, tuple):
            x, y, z = f.Get_coords()
            a = c_form[1]
            return 1.0 + a[0] * x + a[1] * y + a[2] * z
        return c_form

    spellings = {}
    ref = None
    linear = False
    dof_n = 1
    with ctx.monitored("no-exception", key + "/operator/raised"):
        if form == "diffusion":
            ref = Operators.Bilinear.GradUGradV(g, c_op, mt)
            spellings = {
                "k*grad.dot(grad)": lambda u, v: coef_in_form(u) * u.grad.dot(v.grad),
                "grad.dot(k*grad)": lambda u, v: u.grad.dot(coef_in_form(u) * v.grad),
                "(k*grad)@grad": lambda u, v: (coef_in_form(u) * u.grad) @ v.grad,
            }
        elif form == "aniso-diffusion":
            A = rng.normal(size=(dim, dim))
            A = A @ A.T + np.eye(dim)
            ref = Operators.Bilinear.GradU_A_GradV(g, A, c_op, mt)
            spellings = {
                "k*(A@grad).dot(grad)": lambda u, v: coef_in_form(u) * (A @ v.grad).dot(u.grad),
                "k*grad.dot(A@grad)": lambda u, v: coef_in_form(u) * u.grad.dot(A @ v.grad),
            }
        elif form in ("nonsym-diffusion", "advection"):
            # non-symmetric forms: the reference is built here from first principles,
            # K[i, j] = a(trial N_j, test N_i), with the real dN / N tables and weights of the same rule
            dN = np.asarray(g.Get_dN_e_pg(mt))          # (Ne, nPg, dim, nPe)
            Npg = np.asarray(g.Get_N_pg(mt))[:, 0, :]   # (nPg, nPe)
            wJ = np.asarray(g.Get_weightedJacobian_e_pg(mt))
            cw = np.asarray(FeArray.broadcast(c_op, g.Ne, wJ.shape[1])) * wJ if not np.isscalar(c_op) else c_op * wJ
            if form == "nonsym-diffusion":
                A = rng.normal(size=(dim, dim)) + 2 * np.eye(dim)  # not symmetric
                ref = np.einsum("ep,epdi,dk,epkj->eij", cw, dN, A, dN)  # int grad(N_i) . A grad(N_j)
                spellings = {"k*(A@grad u).dot(grad v)": lambda u, v: coef_in_form(u) * (A @ u.grad).dot(v.grad),
                             "k*grad v.dot(A@grad u)": lambda u, v: coef_in_form(u) * v.grad.dot(A @ u.grad)}
            else:
                bvec = rng.uniform(0.5, 2, dim)
                ref = np.einsum("ep,pi,d,epdj->eij", cw, Npg, bvec, dN)    # int N_i (b . grad N_j)
                spellings = {"k*(b.grad u)*v": lambda u, v: coef_in_form(u) * (u.grad @ bvec if dim > 1 else u.grad.dot(bvec)) * v.dot(np.ones(1)),
                             "v*(grad u.dot(b))*k": lambda u, v: v.dot(np.ones(1)) * u.grad.dot(bvec) * coef_in_form(u)}
        elif form == "vector-advection":
            # (grad(u) b) . v with grad(u)_ij = d u_i / d x_j (the convention of Get_Gradient_e_pg and of the evaluated field):
            # K[(a,i),(c,j)] = delta_ij int N_a (b . grad N_c)
            dof_n = case.get("dof_n", dim)
            dN = np.asarray(g.Get_dN_e_pg(mt))
            Npg = np.asarray(g.Get_N_pg(mt))[:, 0, :]
            wJ = np.asarray(g.Get_weightedJacobian_e_pg(mt))
            cw = np.asarray(FeArray.broadcast(c_op, g.Ne, wJ.shape[1])) * wJ if not np.isscalar(c_op) else c_op * wJ
            bvec = rng.uniform(0.5, 2, dim)
            scal = np.einsum("ep,pa,d,epdc->eac", cw, Npg, bvec, dN)  # (Ne, nPe, nPe)
            ref = np.einsum("eac,ij->eaicj", scal, np.eye(dof_n)).reshape(g.Ne, g.nPe * dof_n, g.nPe * dof_n)
            spellings = {"k*(grad(u)@b).dot(v)": lambda u, v: coef_in_form(u) * (u.grad @ bvec).dot(v),
                         "k*v.dot(grad(u)@b)": lambda u, v: coef_in_form(u) * v.dot(u.grad @ bvec)}
        elif form == "vector-diffusion":
            # grad(u) : grad(v) with grad(u)_ij = d u_i / d x_j, i < dof_n, j < dim:  K[(a,i),(c,j)] = delta_ij int k grad N_a . grad N_c
            dof_n = case.get("dof_n", dim)
            dN = np.asarray(g.Get_dN_e_pg(mt))
            wJ = np.asarray(g.Get_weightedJacobian_e_pg(mt))
            cw = np.asarray(FeArray.broadcast(c_op, g.Ne, wJ.shape[1])) * wJ if not np.isscalar(c_op) else c_op * wJ
            scal = np.einsum("ep,epda,epdc->eac", cw, dN, dN)
            ref = np.einsum("eac,ij->eaicj", scal, np.eye(dof_n)).reshape(g.Ne, g.nPe * dof_n, g.nPe * dof_n)
            spellings = {"k*grad(u).ddot(grad(v))": lambda u, v: coef_in_form(u) * u.grad.ddot(v.grad),
                         "grad(v).ddot(k*grad(u))": lambda u, v: v.grad.ddot(coef_in_form(u) * u.grad)}
        elif form == "coupled-mass":
            # (W u) . v with a constant non-symmetric W (gyroscopic / Coriolis coupling): K[(a,i),(c,j)] = W_ij int N_a N_c
            dof_n = dim
            Npg = np.asarray(g.Get_N_pg(mt))[:, 0, :]
            wJ = np.asarray(g.Get_weightedJacobian_e_pg(mt))
            cw = np.asarray(FeArray.broadcast(c_op, g.Ne, wJ.shape[1])) * wJ if not np.isscalar(c_op) else c_op * wJ
            W = rng.normal(size=(dim, dim))
            W = W - W.T + 0.3 * rng.normal(size=(dim, dim))          # mostly skew, never symmetric
            scal = np.einsum("ep,pa,pc->eac", cw, Npg, Npg)
            ref = np.einsum("eac,ij->eaicj", scal, W).reshape(g.Ne, g.nPe * dim, g.nPe * dim)
            spellings = {"k*(W@u).dot(v)": lambda u, v: coef_in_form(u) * (W @ u).dot(v),
                         "k*v.dot(W@u)": lambda u, v: coef_in_form(u) * v.dot(W @ u),
                         "k*(u@W.T).dot(v)": lambda u, v: coef_in_form(u) * (u @ W.T).dot(v)}
        elif form == "mass-scalar":
            ref = Operators.Bilinear.UV(g, c_op, 1, mt)
            spellings = {"c*u.dot(v)": lambda u, v: coef_in_form(u) * u.dot(v), "c*u*v": lambda u, v: coef_in_form(u) * u * v,
                         "u@(c*v)": lambda u, v: u @ (coef_in_form(u) * v)}
        elif form == "mass-vector":
            dof_n = case.get("dof_n", dim)
            ref = Operators.Bilinear.UV(g, c_op, dof_n, mt)
            spellings = {"c*u.dot(v)": lambda u, v: coef_in_form(u) * u.dot(v), "c*(u@v)": lambda u, v: coef_in_form(u) * (u @ v)}
        elif form == "elasticity":
            dof_n = dim
            lmbda, mu = float(rng.uniform(0.5, 2)), float(rng.uniform(0.5, 2))
            # isotropic C in Kelvin-Mandel notation for the built-in operator
            n = 3 if dim == 2 else 6
            Ckm = np.zeros((n, n))
            Ckm[:dim, :dim] = lmbda
            Ckm[np.arange(n), np.arange(n)] += 2 * mu
            Nee, nPg = g.Ne, g.Get_gauss(mt).nPg
            cfield = c_op if not np.isscalar(c_op) else float(c_op)
            Cfull = np.asarray(FeArray.broadcast(cfield, Nee, nPg))[..., None, None] * Ckm if not np.isscalar(cfield) else cfield * Ckm
            ref = Operators.Bilinear.LinearizedElasticity(g, Cfull, mt)
            I = np.eye(dim)

            def S(u):
                E = Sym_Grad(u)
                return 2 * mu * E + lmbda * Trace(E) * I

            spellings = {
                "S(u).ddot(E(v))": lambda u, v: coef_in_form(u) * S(u).ddot(Sym_Grad(v)),
                "E(u).ddot(S(v))": lambda u, v: coef_in_form(u) * Sym_Grad(u).ddot(S(v)),
                "2mu E:E + lambda tr tr": lambda u, v: coef_in_form(u) * (2 * mu * Sym_Grad(u).ddot(Sym_Grad(v)) + lmbda * Trace(Sym_Grad(u)) * Trace(Sym_Grad(v))),
                "S(u).ddot(grad v)": lambda u, v: coef_in_form(u) * S(u).ddot(v.grad),
                "S(u).T.ddot(E(v))": lambda u, v: coef_in_form(u) * S(u).T.ddot(Sym_Grad(v)),
            }
        elif form == "source-scalar":
            linear = True
            ref = Operators.Linear.V(g, c_op, 1, mt)
            spellings = {"f*v": lambda v: coef_in_form(v) * v, "v*f": lambda v: v * coef_in_form(v)}
        elif form == "source-vector":
            linear = True
            dof_n = dim
            fvec = rng.uniform(-1, 1, dim)
            base = np.asarray(Operators.Linear.V(g, c_op, dim, mt))  # (Ne, nPe*dim, dim): one column per load direction
            ref = base @ fvec
            spellings = {"f*v.dot(b)": lambda v: coef_in_form(v) * v.dot(fvec), "(f*b)@v": lambda v: (coef_in_form(v) * fvec) @ v}
    ref = np.asarray(ref)
    if g.nPe * dof_n > 30:
        # Integrate_e costs (nPe*dof_n)^2 form evaluations: two spellings are enough on the big elements
        keep = list(spellings)[: (1 if case.get("tier") == "quick" else 2)]
        spellings = {k_: spellings[k_] for k_ in keep}
    field = Field(g, dof_n, mt)
    n_ok = 0
    for name, fn in spellings.items():
        F = (LinearForm if linear else BiLinearForm)(fn)
        skey = f"{key}/{name}"
        try:
            with ctx.monitored("form-integrates", skey + "/raised"):
                got = np.asarray(F.Integrate_e(field))
        except Exception as e:  # noqa: BLE001
            if type(e).__name__ == "MonitoredFailure":
                continue
            raise
        got2 = got.reshape(ref.shape) if got.size == ref.size else got
        ctx.check("integrate-vs-operator", relerr(got2, ref, scale=np.abs(ref).max()), TOL, skey + "/integrate", et=et, mt=mtname, coef=ccls, dof_n=dof_n,
                  got_shape=list(got.shape), ref_shape=list(ref.shape))
        n_ok += 1
        # global assembly = scatter-add of the element arrays
        try:
            with ctx.monitored("form-assembles", skey + "/assemble/raised"):
                Aasm = F.Assemble(field)
        except Exception as e:  # noqa: BLE001
            if type(e).__name__ == "MonitoredFailure":
                continue
            raise
        Ndof = mesh.Nn * dof_n
        if linear:
            want = scatter.scatter_vector({g: got.reshape(g.Ne, -1)}, dof_n, Ndof)
            ok_shape = Aasm.shape == (Ndof, 1)
            gotA = Aasm.toarray().ravel() if ok_shape else np.zeros(Ndof)
        else:
            want = scatter.scatter_matrix({g: got}, dof_n, Ndof)
            ok_shape = Aasm.shape == (Ndof, Ndof)
            gotA = Aasm.toarray() if ok_shape else np.zeros((Ndof, Ndof))
        ctx.require("assemble-shape", ok_shape, skey + "/assemble/shape", shape=list(Aasm.shape))
        ctx.check("assemble-vs-scatter", relerr(gotA, want, scale=np.abs(want).max()), 1e-12, skey + "/assemble", et=et)
    if isinstance(c_form, tuple) and form in ("diffusion", "mass-scalar", "source-scalar", "mass-vector") and dim >= 2:
        # the mesh is moved and the SAME Field integrates the same form again: a coefficient written with Get_coords() is a function
        # of the positions the integration points have now
        tvec = np.zeros(3)
        tvec[:dim] = rng.uniform(1, 3, dim)
        motion = ["translate", "rotate", "stretch"][case["index"] % 3]
        with ctx.monitored("no-exception", key + "/after-translate/raised"):
            with quiet():
                if motion == "translate":
                    mesh.Translate(*tvec)
                elif motion == "rotate":
                    # (in the plane for 2-D meshes, so that the group stays two-dimensional)
                    mesh.Rotate(float(rng.uniform(20, 160)), mesh.center, (0, 0, 1) if dim == 2 else tuple(rng.normal(size=3)))
                else:
                    S_ = np.eye(3)
                    S_[:dim, :dim] = np.diag(rng.uniform(0.5, 2.0, dim)) + 0.2 * rng.uniform(-1, 1, (dim, dim))
                    mesh.coord = mesh.coord @ S_.T  # gradients and jacobians change
                X2 = np.asarray(g.Get_GaussCoordinates_e_pg(mt))
                c2 = 1.0 + X2 @ c_form[1]
                if form == "diffusion":
                    ref2 = Operators.Bilinear.GradUGradV(g, c2, mt)
                elif form == "mass-scalar":
                    ref2 = Operators.Bilinear.UV(g, c2, 1, mt)
                elif form == "mass-vector":
                    ref2 = Operators.Bilinear.UV(g, c2, dof_n, mt)
                else:
                    ref2 = Operators.Linear.V(g, c2, 1, mt)
                ref2 = np.asarray(ref2)
                name, fn = next(iter(spellings.items()))
                got = np.asarray((LinearForm if linear else BiLinearForm)(fn).Integrate_e(field))
        got = got.reshape(ref2.shape) if got.size == ref2.size else got
        ctx.check("integrate-vs-operator", relerr(got, ref2, scale=np.abs(ref2).max()), TOL, f"{key}/{name}/integrate@after-{motion}", et=et, mt=mtname, shift=tvec)
        ctx.event("form-reintegrated-after-mesh-motion")
    if form in ("elasticity", "vector-advection", "vector-diffusion") and dof_n == dim:
        # the gradient used while assembling (superposition of the basis gradients) and the gradient of an evaluated field agree
        U = rng.normal(size=mesh.Nn * dof_n)
        with ctx.monitored("no-exception", key + "/grad-modes/raised"):
            ev = np.asarray(field.Evaluate_e(lambda f: f.grad, U, returnMeanValues=False))
            con = g.connect
            sup = 0.0
            for a in range(g.nPe):
                for d in range(dof_n):
                    field._Set_current_active_node(a)
                    field._Set_current_active_dof(d)
                    sup = sup + np.asarray(field.grad) * U[con[:, a] * dof_n + d][:, None, None, None] if dof_n > 1 else sup + np.asarray(field.grad) * U[con[:, a]][:, None, None]
        if dof_n == 1:
            ev = ev[..., : sup.shape[-1], 0] if ev.ndim == 4 else ev
        ctx.check("grad-modes-consistent", relerr(sup, ev.reshape(sup.shape) if ev.size == sup.size else ev), 1e-12, key + "/grad-modes", dof_n=dof_n,
                  shapes=[list(np.shape(sup)), list(np.shape(ev))])
    ctx.describe(f"form/{form}/{et}/{mtname}/{ccls}/{dof_n}", g.Ne >= 2 and n_ok > 0, form=form, et=et, matrixType=mtname, coef=ccls, dof_n=dof_n, Ne=g.Ne, spellings=list(spellings))


# ------------------------------------------------------------------------------------------
def run_twin(case, ctx, rng):
    kind, et, mode = case["kind"], case["et"], case["mode"]
    key = f"C13/twin/{kind}/{mode}"
    ctx.default_key = key
    with ctx.monitored("no-exception", key + "/raised"):
        mesh, dim = small_group(rng, et)
    g = mesh.Get_list_groupElem(dim)[0]
    X = mesh.coord
    used = gm.used_nodes(mesh)
    xmin, xmax = X[used, 0].min(), X[used, 0].max()
    n0, nL = used[np.abs(X[used, 0] - xmin) < 1e-9], used[np.abs(X[used, 0] - xmax) < 1e-9]
    with ctx.monitored("no-exception", key + "/raised"):
        with quiet():
            if kind == "thermal":
                k, c, rho = float(rng.uniform(0.5, 3)), float(rng.uniform(0.5, 2)), float(rng.uniform(0.5, 2))
                th = float(rng.uniform(0.4, 2.5)) if dim == 2 else 1.0  # the thickness is a 2-D notion in both simulations
                r = float(rng.uniform(1, 5))
                ded = Simulations.Thermal(mesh, Models.Thermal(k=k, c=c, thickness=th))
                ded.rho = rho
                field = Field(g, 1, MatrixType.rigi if mode == "static" else MatrixType.mass)
                Kf = BiLinearForm(lambda u, v: k * u.grad.dot(v.grad))
                Cf = BiLinearForm(lambda u, v: rho * c * u.dot(v))
                Ff = LinearForm(lambda v: r * v)
                wf = Simulations.WeakForms(mesh, Models.WeakForms(field, Kf, computeC=Cf, computeF=Ff if dim == 2 else None, thickness=th))
                if dim == 2:
                    # heat source: a volume load in the dedicated simulation (integrated with the 'mass' rule: exact for the
                    # constant density on every element type), the linear form in the weak-form one; both scaled by the thickness
                    ded.add_volumeLoad(used, [r], ["t"])
                for s, name in ((ded, "t"), (wf, "u")):
                    s.add_dirichlet(n0, [0.0], [name])
                    s.add_dirichlet(nL, [1.0], [name])
                    if mode == "parabolic":
                        s.Solver_Set_Parabolic_Algorithm(0.1, 0.7)
            else:
                E, nu, rho = float(rng.uniform(5, 20)), float(rng.uniform(0.1, 0.4)), float(rng.uniform(0.5, 2))
                th = float(rng.uniform(0.4, 2.5)) if dim == 2 else 1.0
                mat = Models.Elastic.Isotropic(dim, E=E, v=nu, planeStress=False, thickness=th)
                lmbda, mu = mat.get_lambda(), mat.get_mu()
                ded = Simulations.Elastic(mesh, mat)
                ded.rho = rho
                field = Field(g, dim, MatrixType.rigi if mode == "static" else MatrixType.mass)
                I = np.eye(dim)
                Kf = BiLinearForm(lambda u, v: (2 * mu * Sym_Grad(u) + lmbda * Trace(Sym_Grad(u)) * I).ddot(Sym_Grad(v)))
                Mf = BiLinearForm(lambda u, v: rho * u.dot(v))
                wf = Simulations.WeakForms(mesh, Models.WeakForms(field, Kf, computeM=Mf, thickness=th))
                names = ["x", "y", "z"][:dim]
                for s in (ded, wf):
                    s.add_dirichlet(n0, [0.0] * dim, names)
                    s.add_dirichlet(nL, [0.01], ["x"])
                    if mode == "hyperbolic":
                        s.Solver_Set_Hyperbolic_Algorithm(0.05, algo=AlgoType.newmark)
            worst = 0.0
            for step in range(1 if mode == "static" else 3):
                u1, u2 = ded.Solve(), wf.Solve()
                worst = max(worst, relerr(u2, u1))
            Kd, Cd, Md, _ = ded.Get_K_C_M_F()
            Kw, Cw, Mw, _ = wf.Get_K_C_M_F()
    ctx.check("simulation-twin", worst, 1e-9, key + "/solution", et=et)
    # mass-type matrices use the same ('mass') rule in both simulations: compare them entry by entry
    ctx.check("twin-matrices", relerr(Kw.toarray(), Kd.toarray()), 1e-11, key + "/K", et=et)
    if mode != "static":
        if kind == "thermal":
            ctx.check("twin-matrices", relerr(Cw.toarray(), Cd.toarray()), 1e-12, key + "/C", et=et)
        else:
            ctx.check("twin-matrices", relerr(Mw.toarray(), Md.toarray()), 1e-12, key + "/M", et=et)
    ctx.describe(f"twin/{kind}/{et}/{mode}", mesh.Ne >= 2, kind=kind, et=et, mode=mode, Ne=mesh.Ne)


def run_advection(case, ctx, rng):
    """Steady 1-D advection-diffusion  -k u'' + b u' = 0, u(0) = 0, u(1) = 1  as a user weak form: the solution is
    (exp(Pe x) - 1) / (exp(Pe) - 1) with Pe = b / k; the transposed matrix would solve the adjoint problem (-Pe)."""
    et = case["et"]
    key = "C13/advection-diffusion"
    ctx.default_key = key
    k, b = float(rng.uniform(0.5, 2)), float(rng.uniform(2, 6)) * float(rng.choice([-1, 1]))
    with ctx.monitored("no-exception", key + "/raised"):
        with quiet():
            mesh = gm.mesh1d(et, 1.0, 160)
            g = mesh.groupElem
            field = Field(g, 1, MatrixType.mass)
            K = BiLinearForm(lambda u, v: k * u.grad.dot(v.grad) + b * u.grad.dot(np.ones(1)) * v.dot(np.ones(1)))
            s = Simulations.WeakForms(mesh, Models.WeakForms(field, K))
            X = mesh.coord[:, 0]
            s.add_dirichlet(np.where(np.abs(X) < 1e-12)[0], [0.0], ["u"])
            s.add_dirichlet(np.where(np.abs(X - 1) < 1e-12)[0], [1.0], ["u"])
            u = s.Solve()
    Pe = b / k
    used = gm.used_nodes(mesh)
    ex = (np.exp(Pe * X) - 1) / (np.exp(Pe) - 1)
    ctx.check("nonsymmetric-solution", float(np.abs(u - ex)[used].max()), 2e-3, key + "/solution", Pe=Pe, et=et,
              err_adjoint=float(np.abs(u - (np.exp(-Pe * X) - 1) / (np.exp(-Pe) - 1))[used].max()))
    ctx.describe(f"advection/{et}", True, et=et, Pe=Pe)
