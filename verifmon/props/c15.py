"""C15 — saved iterations and saved simulations restore exactly what was saved.

Oracle: a shadow history kept by the harness. At every ``Save_Iter`` the monitor deep-copies everything observable
through the public interface (solution vectors of every problem type, every result of ``Results_Available()`` in
node and element form, mesh coordinates / connectivities / tags) plus an independent clone (``copy.deepcopy``) of the
whole live object, which later plays the recorded *next step* as reference for the internal variables. Reads
(``Get_results``) must be pure, later solves must not reach stored iterations, restores (``Set_Iter``,
``Result(iter=)``) must bring the shadow back whatever ``folder`` became, and ``Save`` / ``Load_Simu`` /
``Mesh.Save`` / ``Load_Mesh`` must round-trip mesh, tags, history and results.
"""

from __future__ import annotations

import copy
import os
import shutil
import tempfile

import numpy as np

from EasyFEA import AlgoType, Simulations
from EasyFEA.FEM import Mesh
from EasyFEA.FEM._mesh import Load_Mesh
from EasyFEA.Simulations import Load_Simu

from . import _suite
from ..core import Ctx, quiet, relerr
from ..gen import meshes as gm
from . import _sims

PROP = "C15"
NUM = 15
RULE = (
    "cases = (simulation kind, time scheme, element type) x seeded interleavings of load step + Solve / Save_Iter / folder "
    "change (two scratch folders and '') / Set_Iter / Get_results / Result(iter=) / mesh replacement / Save + Load_Simu / "
    "Mesh.Save + Load_Mesh / writes into arrays returned by getters. Signature = (kind, scheme, element type, set of "
    "operation kinds). Non-trivial iff at least one iteration is restored or read after a later solve changed the live state."
)
ASSUMPTIONS = [
    "when the time scheme is changed between saving and restoring an iteration, a rate field is judged only if the entry stored it and the scheme in force reads it, or if it was zero when the iteration was saved",
    "internal variables are compared operationally: the recorded next load step is replayed on a deep copy of the restored object and on the deep copy taken when the iteration was saved",
    "writing into an array *returned by Get_results* is outside the property (client write, the dict copy is shallow) and is not exercised",
    "single process (MPI branches unreachable)",
]
TIMEOUT_CASE = 400
MIN_EVALS = {"restore-state": 20, "read-pure": 20, "stored-unchanged": 20}
REQUIRED_COVERAGE = ["Save_Iter", "Set_Iter", "Get_results"]
EXACT = 1e-13


def anchors():
    from EasyFEA.Simulations import _simu as S
    from EasyFEA.FEM import _mesh as M

    return [
        ("Save_Iter", S._Simu, "Save_Iter"), ("Set_Iter", S._Simu, "Set_Iter"), ("Get_results", S._Simu, "Get_results"),
        ("Update_mesh", S._Simu, "_Simu__Update_mesh"), ("Simu_Save", S._Simu, "Save"), ("Load_Simu", S, "Load_Simu"),
        ("Mesh_Save", M.Mesh, "Save"), ("Load_Mesh", M, "Load_Mesh"),
    ]


CONFIGS = [
    ("elastic", "static", 2, "TRI3"), ("elastic", "newmark", 2, "QUAD4"), ("elastic", "hht", 3, "TETRA4"), ("elastic", "midpoint", 2, "TRI6"),
    ("thermal", "static", 2, "TRI3"), ("thermal", "parabolic", 2, "QUAD8"), ("thermal", "parabolic", 3, "PRISM6"),
    ("beam", "static", 2, "SEG2"), ("beam", "static", 3, "SEG3"),
    ("weakforms", "static", 2, "TRI3"), ("weakforms", "parabolic", 2, "TRI6"), ("weakforms", "newmark", 2, "TRI3"),
    ("phasefield", "static", 2, "TRI3"), ("phasefield", "static", 2, "QUAD4"),
    ("hyperelastic", "static", 2, "TRI3"), ("hyperelastic", "newmark", 2, "QUAD4"), ("hyperelastic", "static", 3, "TETRA4"),
    ("inelastic", "static", 2, "QUAD4"), ("inelastic", "static", 2, "TRI3"), ("inelastic", "static", 3, "HEXA8"),
]


def cases(tier: str, seed: int) -> list[dict]:
    out = []
    rep = 7 if tier == "quick" else 60
    nops = 9 if tier == "quick" else 24
    for r in range(rep):
        for kind, scheme, dim, et in CONFIGS:
            heavy = kind in ("phasefield", "hyperelastic", "inelastic")
            out.append({"kind": kind, "scheme": scheme, "dim": dim, "et": et, "nops": max(6, nops * 2 // 3) if heavy else nops})
    for kind, scheme, dim, et in CONFIGS:
        out.append({"kind": kind, "scheme": scheme, "dim": dim, "et": et, "nops": 3, "script": True})
    for kind, scheme, dim, et in CONFIGS:
        out.append({"kind": kind, "scheme": scheme, "dim": dim, "et": et, "nops": 2, "script": "virgin-first"})
        if kind in ("elastic", "thermal", "phasefield", "hyperelastic"):
            out.append({"kind": kind, "scheme": scheme, "dim": dim, "et": et, "nops": 1, "script": "disk-then-memory-then-Save"})
        if kind not in ("beam", "weakforms"):
            out.append({"kind": kind, "scheme": scheme, "dim": dim, "et": et, "nops": 2, "script": "mesh-after-return"})
    for kind, scheme, dim, et in CONFIGS:
        if kind in ("thermal", "elastic", "weakforms") and not (kind == "weakforms" and scheme == "static"):
            out.append({"kind": kind, "scheme": scheme, "dim": dim, "et": et, "nops": 2, "script": "steady-then-transient"})
            if scheme != "static":
                out.append({"kind": kind, "scheme": scheme, "dim": dim, "et": et, "nops": 2, "script": "transient-then-steady", "userdict": True})
    for i, c in enumerate(out):
        c["id"] = f"C15-{i:05d}-{c['kind']}-{c['scheme']}-{c['et']}"
        c["index"] = i
    for c in _suite.suite_cases(PROP, tier):
        c["index"] = len(out)
        out.append(c)
    return out


# ------------------------------------------------------------------------------------------
def make_scheme(scheme, rng):
    """(name, dt, theta): the complete description of a time scheme, so that it can be set again on any copy."""
    if scheme == "static":
        return ("static",)
    dt = float(rng.uniform(0.05, 0.3))
    if scheme == "parabolic":
        return ("parabolic", dt, float(rng.choice([0.5, 1.0, 0.7])))
    return (scheme, dt)


def apply_scheme(simu, cfg):
    if cfg[0] == "static":
        simu.Solver_Set_Elliptic_Algorithm()
    elif cfg[0] == "parabolic":
        simu.Solver_Set_Parabolic_Algorithm(cfg[1], cfg[2])
    else:
        simu.Solver_Set_Hyperbolic_Algorithm(cfg[1], algo=AlgoType(cfg[0]))


def set_scheme(simu, scheme, rng):
    cfg = make_scheme(scheme, rng)
    if cfg[0] != "static":
        apply_scheme(simu, cfg)
    return cfg


LOADS = {"elastic": 0.01, "thermal": 1.0, "beam": 1.0, "weakforms": 1.0, "phasefield": 1.5e-3, "hyperelastic": 0.05, "inelastic": 0.012}


def apply_load(simu, info, kind, lam):
    """Clears the BCs and applies the load program at factor lam (an explicit public operation of every load step)."""
    simu.Bc_Init()
    n0, nL = info["n0"], info["nL"]
    un = simu.Get_unknowns() if kind != "phasefield" else ["x", "y", "z"][: info["dim"]]
    if kind == "beam":
        simu.add_dirichlet(n0, [0] * len(un), un)
        simu.add_neumann(nL, [-lam * LOADS[kind]], ["y" if info["dim"] > 1 else "x"])
    elif kind == "thermal":
        simu.add_dirichlet(n0, [0], ["t"])
        simu.add_dirichlet(nL, [lam * LOADS[kind]], ["t"])
    elif kind == "weakforms":
        simu.add_dirichlet(n0, [0], ["u"])
        simu.add_dirichlet(nL, [lam * LOADS[kind]], ["u"])
    else:
        simu.add_dirichlet(n0, [0] * len(un), un)
        simu.add_dirichlet(nL, [lam * LOADS[kind]], [un[0]])


class StepFailed(Exception):
    """The Newton iteration of a load step did not converge: a matter of C18 / C19 and of the load program, not of the history."""


def solve(simu, kind):
    try:
        return simu.Solve()
    except AssertionError as e:
        if "converge" in str(e):
            raise StepFailed(str(e)) from e
        raise


def problem_types(simu):
    return list(simu.Get_problemTypes())


def state_of(simu):
    st = {}
    for pt in problem_types(simu):
        st[str(pt)] = (simu._Get_u_n(pt).copy(), simu._Get_v_n(pt).copy(), simu._Get_a_n(pt).copy())
    return st


def mesh_of(mesh: Mesh):
    tags = {}
    for et, g in mesh.dict_groupElem.items():
        tags[str(et)] = ({t: np.array(g.Get_Nodes_Tag(t)).copy() for t in g.nodeTags}, {t: np.array(g.Get_Elements_Tag(t)).copy() for t in g.elementTags})
    c, con = gm.mesh_arrays(mesh)
    return {"coord": c, "connect": con, "tags": tags}


def results_of(simu, names=None):
    res = {}
    for name in (names if names is not None else simu.Results_Available()):
        for nv in (True, False):
            try:
                val = simu.Result(name, nodeValues=nv)
            except Exception as e:  # noqa: BLE001 - availability of a form is C16's matter; here only equality of what is returned
                val = ("raised", type(e).__name__)
            res[(name, nv)] = copy.deepcopy(val) if not isinstance(val, np.ndarray) else val.copy()
    return res


def cmp_val(a, b):
    """0 when equal (exactly, up to EXACT relative), inf on any structural difference."""
    if isinstance(a, tuple) or isinstance(b, tuple):
        return 0.0 if a == b else np.inf
    if a is None or b is None:
        return 0.0 if (a is None and b is None) else np.inf
    try:
        a_, b_ = np.asarray(a, dtype=float), np.asarray(b, dtype=float)
        if a_.shape == b_.shape and np.isnan(b_).any():
            # an undefined value (0 / 0 of an error indicator at the zero state) stored as such is restored as such
            both = np.isnan(a_) & np.isnan(b_)
            a_, b_ = np.where(both, 0.0, a_), np.where(both, 0.0, b_)
        return relerr(a_, b_)
    except (TypeError, ValueError):
        return 0.0 if str(a) == str(b) else np.inf


def cmp_state(a, b, families=("u", "v", "a")):
    worst, where = 0.0, ""
    for pt in b:
        if pt not in a:
            return np.inf, f"{pt} missing"
        for i, nm in enumerate("uva"):
            if nm not in families:
                continue
            e = cmp_val(a[pt][i], b[pt][i])
            if e > worst:
                worst, where = e, f"{pt}.{nm}"
    return worst, where


def cmp_mesh(a, b):
    if a["coord"].shape != b["coord"].shape or not np.array_equal(a["coord"], b["coord"]):
        return np.inf, "coord"
    if set(a["connect"]) != set(b["connect"]):
        return np.inf, "groups"
    for k in b["connect"]:
        if not np.array_equal(a["connect"][k], b["connect"][k]):
            return np.inf, f"connect[{k}]"
    for k in b["tags"]:
        for j, what in enumerate(("nodeTags", "elementTags")):
            ta, tb = a["tags"].get(k, ({}, {}))[j], b["tags"][k][j]
            if set(ta) != set(tb):
                return np.inf, f"{what}[{k}] names {sorted(set(ta) ^ set(tb))[:4]}"
            for t in tb:
                if not np.array_equal(np.sort(ta[t]), np.sort(tb[t])):
                    return np.inf, f"{what}[{k}][{t}]"
    return 0.0, ""


def cmp_results(a, b):
    worst, where = 0.0, ""
    for k in b:
        if k not in a:
            return np.inf, f"{k} missing"
        e = cmp_val(a[k], b[k])
        if not (e <= worst):
            worst, where = e, f"{k[0]}{'(nodes)' if k[1] else '(elements)'}"
    return worst, where


def stored_fields(kind, scheme, simu):
    """Which solution vectors an iteration of this scheme carries (u always)."""
    if scheme == "static":
        return ("u",)
    if scheme == "parabolic":
        return ("u", "v")
    return ("u", "v", "a")


# ------------------------------------------------------------------------------------------
def run_case(case: dict, ctx: Ctx) -> None:
    if case.get("fam") == "suite":
        return _suite.run_suite(case, ctx, PROP)
    rng = np.random.default_rng([case["seed"], NUM, case["index"]])
    kind, scheme, dim, et = case["kind"], case["scheme"], case["dim"], case["et"]
    key0 = f"C15/{kind}/{scheme}"
    ctx.default_key = key0
    root = tempfile.mkdtemp(prefix="c15-", dir=os.environ.get("VERIF_TMP") or None)
    try:
        _run(case, ctx, rng, kind, scheme, dim, et, key0, root)
    finally:
        shutil.rmtree(root, ignore_errors=True)


def _run(case, ctx, rng, kind, scheme, dim, et, key0, root):
    folders = [os.path.join(root, "A"), os.path.join(root, "B"), ""]
    history = []
    ops_seen = set()
    fam = None

    def new_sim():
        kw = {"bdim": dim} if kind == "beam" else {}
        simu, info = _sims.make(kind, rng, dim, et, bc=False, **kw)
        info["dim"] = dim
        return simu, info

    with ctx.monitored("no-exception", key0 + "/build/raised"):
        with quiet():
            live, info = new_sim()
            case_scheme = set_scheme(live, scheme, rng)
    cur_scheme = [case_scheme]
    fam = stored_fields(kind, scheme, live)
    user_info = {}  # a dict of extra information the caller hands to Save_Iter, the same object at every call
    shadow = []  # one entry per saved iteration
    infos = {0: info}  # node sets per mesh index (harness bookkeeping)
    imesh = [0]
    nmesh = [1]
    last_lam = [0.0]
    dirty_since_save = [False]
    at_iter = [None]  # index of the restored iteration the live object currently sits on (no solve / mesh change since)
    nontrivial = [False]

    def lam_next():
        # loading and unloading, never zero
        return float(rng.choice([0.4, 0.7, 1.0, 1.3, 1.6])) * (1 if kind in ("phasefield", "inelastic", "hyperelastic") else float(rng.choice([-1, 1])))

    # ---- operations -------------------------------------------------------------------------
    def op_step():
        lam = lam_next()
        apply_load(live, infos[imesh[0]], kind, lam)
        solve(live, kind)
        last_lam[0] = lam
        dirty_since_save[0] = True
        at_iter[0] = None
        for s in shadow:
            s["later_solves"] += 1
        return "step"

    def op_save():
        if not dirty_since_save[0] and shadow and rng.random() < 0.5:
            op_step()
        if case["index"] % 3 == 0 and not case.get("userdict"):
            live.Save_Iter()
        else:
            # extra information of the caller, in a dict it keeps and updates from step to step
            user_info["load"] = float(last_lam[0])
            user_info["count"] = len(shadow)
            live.Save_Iter(user_info)
        i = live.Niter - 1
        probe_lam = lam_next()
        entry = {
            "scheme": cur_scheme[0], "fam": stored_fields(kind, cur_scheme[0][0], live),
            "i": i, "state": state_of(live), "mesh": mesh_of(live.mesh), "results": results_of(live), "imesh": imesh[0],
            "folder": live.folder, "clone": copy.deepcopy(live), "probe_lam": probe_lam, "probe_ref": None, "later_solves": 0,
            "got": copy.deepcopy({k: (v.copy() if isinstance(v, np.ndarray) else copy.deepcopy(v)) for k, v in live.Get_results(i).items()}),
        }
        if len(shadow) != i:
            ctx.require("iteration-count", False, key0 + "/Niter", Niter=live.Niter, saved=len(shadow))
        if at_iter[0] is not None:
            # saving again right after a restore (e.g. to export it elsewhere) must store the restored iteration, internal
            # variables included: the new entry is held against the ORIGINAL observation, and inherits its reference continuation
            o = shadow[at_iter[0]]
            k = key0 + "/Set_Iter+Save_Iter"
            e, where = cmp_results(entry["results"], o["results"])
            ctx.check("resave-results", e, 1e-10, k + "/results", where=where, restored=o["i"], history=list(history))
            worst, where = 0.0, ""
            for kf, v in o["got"].items():
                if kf in ("newtonIter", "timeIter", "list_norm_r", "Niter", "convIter", "load", "count"):
                    continue  # convergence bookkeeping of the step that produced the iteration, not state
                g = entry["got"].get(kf)
                e = max([cmp_val((g or {}).get(kk), vv) for kk, vv in v.items()] + [0.0]) if isinstance(v, dict) else cmp_val(g, v)
                if not (e <= worst):
                    worst, where = e, kf
            ctx.check("resave-content", worst, 0.0, k + "/content", where=where, restored=o["i"], history=list(history))
            entry["clone"], entry["probe_lam"], entry["probe_ref"] = o["clone"], o["probe_lam"], o["probe_ref"]
        shadow.append(entry)
        dirty_since_save[0] = False
        return "Save_Iter"

    def op_folder():
        if isinstance(forced[0], str) and forced[0].startswith("folder:"):
            live.folder = folders[int(forced[0].split(":")[1])]
        else:
            live.folder = folders[int(rng.integers(len(folders)))]
        return "folder="

    forced = [None]  # scripted cases choose the iteration themselves

    def pick():
        if isinstance(forced[0], int) and forced[0] < len(shadow):
            i, forced[0] = forced[0], None
            return shadow[i]
        return shadow[int(rng.integers(len(shadow)))]

    def probe(simu, s):
        sim = copy.deepcopy(simu)
        if s["scheme"] != case_scheme or cur_scheme[0] != case_scheme:
            apply_scheme(sim, s["scheme"])
        apply_load(sim, infos[s["imesh"]], kind, s["probe_lam"])
        out = solve(sim, kind)
        st = state_of(sim)
        return st

    def judged_families(s):
        """Which solution vectors a restore of entry s under the current scheme has to bring back: those the entry stored and
        the current scheme reads; a rate the entry did not store is judged only where the live rate was zero at save time (the
        state saved is then 'zero rate', whatever the scheme in force at the restore)."""
        now = stored_fields(kind, cur_scheme[0][0], live)
        out = ["u"]
        for j, nm in ((1, "v"), (2, "a")):
            if nm in s["fam"] and nm in now:
                out.append(nm)
            elif nm not in s["fam"] and all(not np.any(st[j]) for st in s["state"].values()):
                out.append(nm)
        return tuple(out)

    def check_restored(s, via):
        k = f"{key0}/{via}"
        switched = s["scheme"] != cur_scheme[0]
        if switched:
            k += "@scheme-changed-since-save"
        fams = judged_families(s)
        complete = len(fams) == 3          # results and the next step may read every vector
        e, where = cmp_state(state_of(live), s["state"], fams)
        ctx.check("restore-state", e, EXACT, k + "/fields", where=where, iteration=s["i"], history=list(history), saved_in=("disk" if s["folder"] else "memory"),
                  families=list(fams))
        e, where = cmp_mesh(mesh_of(live.mesh), s["mesh"])
        ctx.check("restore-mesh", e, 0.0, k + "/mesh", where=where, iteration=s["i"], history=list(history))
        if complete:
            e, where = cmp_results(results_of(live), s["results"])
            ctx.check("restore-results", e, 1e-10, k + "/results", where=where, iteration=s["i"], history=list(history))
            # internal variables, operationally: the same next step from the restored object and from the clone taken at save time
            if s["probe_ref"] is None:
                s["probe_ref"] = probe(s["clone"], s)
            got = probe(live, s)
            e, where = cmp_state(got, s["probe_ref"], s["fam"])
            ctx.check("restore-continuation", e, 1e-9, k + "/next-step", where=where, iteration=s["i"], history=list(history), later_solves=s["later_solves"])
        else:
            ctx.event("restore-partly-judged:rate-not-part-of-entry-or-scheme")
        if s["later_solves"]:
            nontrivial[0] = True
        imesh[0] = s["imesh"]
        dirty_since_save[0] = True
        # a re-save is held against the original entry only when the restore brought everything back under the entry's scheme
        at_iter[0] = s["i"] if (complete and not switched) else None

    def op_set_iter():
        if not shadow:
            return op_save()
        s = pick()
        live.Set_Iter(s["i"])
        check_restored(s, "Set_Iter")
        return f"Set_Iter({s['i']})"

    def op_scheme():
        """Switches between the stationary algorithm and the time scheme of the case (thermal: steady state, then transient)."""
        if kind not in ("thermal", "elastic", "weakforms") or case_scheme[0] == "static" and kind == "weakforms":
            return op_step()
        other = case_scheme if case_scheme[0] != "static" else make_scheme({"thermal": "parabolic", "elastic": "newmark"}[kind], rng)
        cur_scheme[0] = ("static",) if cur_scheme[0][0] != "static" else other
        apply_scheme(live, cur_scheme[0])
        at_iter[0] = None
        return f"scheme={cur_scheme[0][0]}"

    def op_get():
        if not shadow:
            return op_save()
        s = pick()
        before = (state_of(live), mesh_of(live.mesh), live.Niter, live.folder)
        got = live.Get_results(s["i"])
        after = (state_of(live), mesh_of(live.mesh), live.Niter, live.folder)
        e1, w1 = cmp_state(after[0], before[0])
        e2, w2 = cmp_mesh(after[1], before[1])
        ctx.check("read-pure", max(e1, e2, 0.0 if after[2:] == before[2:] else np.inf), 0.0, key0 + "/Get_results/pure", where=w1 or w2, history=list(history))
        worst, where = 0.0, ""
        for kf, v in s["got"].items():
            if kf not in got:
                worst, where = np.inf, f"{kf} missing"
                break
            if isinstance(v, dict):
                e = max([cmp_val(got[kf].get(kk), vv) for kk, vv in v.items()] + [0.0])
            else:
                e = cmp_val(got[kf], v)
            if not (e <= worst):
                worst, where = e, kf
        ctx.check("stored-unchanged", worst, 0.0, key0 + "/Get_results/content", where=where, iteration=s["i"], later_solves=s["later_solves"], history=list(history),
                  saved_in=("disk" if s["folder"] else "memory"))
        if s["later_solves"]:
            nontrivial[0] = True
        return f"Get_results({s['i']})"

    def op_result_iter():
        if not shadow:
            return op_save()
        s = pick()
        names = [n for n in live.Results_Available()]
        name = str(rng.choice(names))
        nv = bool(rng.integers(2))
        ref = s["results"].get((name, nv))
        try:
            val = live.Result(name, nodeValues=nv, iter=s["i"])
        except Exception as e:  # noqa: BLE001
            val = ("raised", type(e).__name__)
        if len(judged_families(s)) == 3:
            ctx.check("result-of-iteration", cmp_val(val, ref), 1e-10, key0 + "/Result(iter=)", name=name, nodeValues=nv, iteration=s["i"], history=list(history))
        else:
            ctx.event("restore-partly-judged:rate-not-part-of-entry-or-scheme")
        # Result(iter=i) is documented to move the simulation to iteration i
        imesh[0] = s["imesh"]
        dirty_since_save[0] = True
        at_iter[0] = s["i"] if (len(judged_families(s)) == 3 and s["scheme"] == cur_scheme[0]) else None
        if s["later_solves"]:
            nontrivial[0] = True
        return f"Result({name},iter={s['i']})"

    def op_mesh():
        if kind in ("beam", "weakforms"):
            # the beam model owns its line, the weak-form model its Field (bound to one group of elements): no mesh replacement
            return op_step()
        simu2, info2 = new_sim()
        m = simu2.mesh
        live.mesh = m
        i = nmesh[0]
        nmesh[0] += 1
        infos[i] = info2
        imesh[0] = i
        op_step()
        return "simu.mesh="

    def op_clobber():
        """Client writes into arrays handed out by the getters must not reach the simulation or its history."""
        for pt in problem_types(live):
            before = state_of(live)
            for arr in (live._Get_u_n(pt), live._Get_v_n(pt), live._Get_a_n(pt)):
                arr *= 3.0
                arr += 1.0
            for name in ("displacement", "damage", "thermal", "u", "speed", "accel", "v", "a", "thermalDot"):
                if hasattr(type(live), name):
                    try:
                        arr = getattr(live, name)
                    except Exception:  # noqa: BLE001
                        continue
                    if isinstance(arr, np.ndarray) and arr.flags.writeable:
                        arr += 7.0
            e, where = cmp_state(state_of(live), before)
            ctx.check("getter-copies", e, 0.0, key0 + "/getter-alias", where=where, history=list(history))
        return "write-into-getter-arrays"

    def op_save_load():
        S = os.path.join(root, f"S{len(history)}")
        reuse = rng.random() < 0.5
        own = rng.random() < 0.3 or forced[0] == "own:0"
        with ctx.monitored("no-exception", key0 + "/Save+Load_Simu/raised"):
            if own:
                # the folder in which this very simulation may already have stored some of its iterations (others being in memory or
                # in the other scratch folder)
                S = folders[0 if forced[0] == "own:0" else int(rng.integers(2))]
                ctx.event("Save-into-own-iteration-folder")
            elif reuse:
                # a folder that already holds another simulation (an earlier run of another model saved there): Save replaces it
                S = os.path.join(root, "reused")
                if not os.path.exists(S):
                    decoy, _ = new_sim()
                    if kind not in ("beam", "weakforms"):
                        d2, _ = new_sim()
                        decoy.Save_Iter()
                        decoy.mesh = d2.mesh
                        decoy.Save_Iter()
                    decoy.Save(S)
            if rng.random() < 0.3 and not own:
                # the folder given relative to the working directory (the scratch root)
                os.chdir(root)
                S = os.path.relpath(S, root)
                ctx.event("Save-into-relative-folder")
            live.Save(S)
            loaded = Load_Simu(S)
        k = key0 + "/Save+Load_Simu"
        ctx.require("load-history-length", loaded.Niter == len(shadow), k + "/Niter", loaded=loaded.Niter, saved=len(shadow), history=list(history))
        e, where = cmp_mesh(mesh_of(loaded.mesh), mesh_of(live.mesh))
        ctx.check("load-mesh", e, 0.0, k + "/mesh", where=where, history=list(history))
        e, where = cmp_state(state_of(loaded), state_of(live))
        ctx.check("load-state", e, 0.0, k + "/state", where=where, history=list(history))
        for s in shadow:
            got = loaded.Get_results(s["i"])
            worst, where = 0.0, ""
            for kf, v in s["got"].items():
                if kf not in got:
                    worst, where = np.inf, f"{kf} missing"
                    break
                e = cmp_val(got[kf], v) if not isinstance(v, dict) else max([cmp_val(got[kf].get(kk), vv) for kk, vv in v.items()] + [0.0])
                if not (e <= worst):
                    worst, where = e, kf
            ctx.check("load-history", worst, 0.0, k + "/history", where=where, iteration=s["i"], history=list(history))
        if rng.random() < 0.35:
            # the loaded object is saved again, somewhere else, and that copy is the one examined
            S2 = os.path.join(root, f"R{len(history)}")
            with ctx.monitored("no-exception", key0 + "/Load_Simu+Save+Load_Simu/raised"):
                loaded.Save(S2)
                loaded = Load_Simu(S2)
            k = key0 + "/Load_Simu+Save+Load_Simu"
            ctx.require("load-history-length", loaded.Niter == len(shadow), k + "/Niter", loaded=loaded.Niter, saved=len(shadow), history=list(history))
        if rng.random() < 0.5:
            loaded.folder = folders[int(rng.integers(len(folders)))]
            k += "+folder="
        if shadow:
            s = pick()
            with ctx.monitored("no-exception", k + "/Set_Iter/raised"):
                loaded.Set_Iter(s["i"])
            e, where = cmp_state(state_of(loaded), s["state"], judged_families(s))
            ctx.check("load-restore-state", e, EXACT, k + "/Set_Iter/fields", where=where, iteration=s["i"], history=list(history))
            e, where = cmp_mesh(mesh_of(loaded.mesh), s["mesh"])
            ctx.check("load-restore-mesh", e, 0.0, k + "/Set_Iter/mesh", where=where, iteration=s["i"], history=list(history))
            if len(judged_families(s)) == 3:
              e, where = cmp_results(results_of(loaded), s["results"])
              ctx.check("load-restore-results", e, 1e-10, k + "/Set_Iter/results", where=where, iteration=s["i"], history=list(history))
        return "Save+Load_Simu"

    def op_mesh_save_load():
        M = os.path.join(root, f"M{len(history)}")
        with ctx.monitored("no-exception", key0 + "/Mesh.Save+Load_Mesh/raised"):
            path = live.mesh.Save(M, "mesh")
            m2 = Load_Mesh(path)
        e, where = cmp_mesh(mesh_of(m2), mesh_of(live.mesh))
        ctx.check("mesh-roundtrip", e, 0.0, key0 + "/Mesh.Save+Load_Mesh", where=where, history=list(history))
        return "Mesh.Save+Load_Mesh"

    menu = [op_step, op_step, op_save, op_save, op_folder, op_set_iter, op_set_iter, op_get, op_get, op_result_iter, op_mesh, op_clobber, op_save_load, op_mesh_save_load]
    if kind in ("thermal", "elastic", "weakforms") and case["index"] % 2:
        menu.append(op_scheme)
    try:
        with ctx.monitored("no-exception", key0 + "/raised"):
            with quiet():
                history.append("build")
                if case.get("script") != "virgin-first":
                    op_step()
                    history.append("step")
                # scripted prefix: every restore path at least once per configuration (several meshes, restore an early
                # iteration after later solves, save again right after a restore, read, query, save / load), then random
                script = [(op_save, None), (op_step, None), (op_save, None), (op_mesh, None), (op_save, None), (op_set_iter, 0), (op_save, None),
                          (op_step, None), (op_save, None), (op_set_iter, 2), (op_set_iter, 3), (op_get, 1), (op_result_iter, 0), (op_folder, None),
                          (op_save, None), (op_save_load, None), (op_set_iter, 1)] if case.get("script") is True else []
                if case.get("script") == "virgin-first":
                    # the initial state is stored as iteration 0 before anything is solved, and restored after load steps
                    script = [(op_save, None), (op_step, None), (op_save, None), (op_step, None), (op_save, None), (op_set_iter, 0), (op_step, None), (op_save, None),
                              (op_set_iter, 0), (op_get, 0), (op_result_iter, 0), (op_set_iter, 2)]
                if case.get("script") == "mesh-after-return":
                    # a new mesh is given to the simulation AFTER it went back to an iteration of an older mesh; every stored iteration
                    # still comes back on the mesh it was saved with
                    script = [(op_save, None), (op_mesh, None), (op_save, None), (op_set_iter, 0), (op_mesh, None), (op_save, None), (op_set_iter, 0),
                              (op_set_iter, 2), (op_set_iter, 1), (op_result_iter, 2), (op_set_iter, 1), (op_mesh, None), (op_save, None), (op_set_iter, 3), (op_set_iter, 2)]
                if case.get("script") == "transient-then-steady":
                    # transient steps saved with the caller's info dict, then a steady state computed and saved with the SAME dict, then
                    # the steady state restored while the transient scheme is in force again: its rates are zero
                    script = [(op_save, None), (op_step, None), (op_save, None), (op_scheme, None), (op_set_iter, 0), (op_step, None), (op_save, None),
                              (op_scheme, None), (op_set_iter, 2), (op_step, None), (op_save, None), (op_set_iter, 2), (op_get, 2)]
                if case.get("script") == "disk-then-memory-then-Save":
                    # the first iterations are stored in a folder, the following ones in memory, then the whole simulation is saved into
                    # that same folder and read back: every iteration is still the one it was
                    script = [(op_folder, "folder:0"), (op_save, None), (op_step, None), (op_save, None), (op_folder, "folder:2"), (op_step, None), (op_save, None),
                              (op_step, None), (op_save, None), (op_save_load, "own:0"), (op_get, 0), (op_set_iter, 1), (op_get, 3)]
                if case.get("script") == "steady-then-transient":
                    # a steady state saved under the stationary algorithm, transient steps saved after it, the steady state restored
                    # while the transient scheme is in force, and back
                    script = [(op_scheme, None)] if cur_scheme[0][0] != "static" else []
                    script += [(op_save, None), (op_scheme, None), (op_step, None), (op_save, None), (op_step, None), (op_save, None), (op_set_iter, 0),
                               (op_step, None), (op_save, None), (op_set_iter, 1), (op_scheme, None), (op_set_iter, 0), (op_get, 1), (op_scheme, None), (op_set_iter, 2)]
                for step in range(case["nops"] + len(script)):
                    if step < len(script):
                        op, forced[0] = script[step]
                    else:
                        op = menu[int(rng.integers(len(menu)))]
                    n_before = sum(1 for c in ctx.checks if not c["ok"])
                    name = op()
                    history.append(name)
                    short = name.split("(")[0]
                    ops_seen.add(short)
                    ctx.event("op:" + short)
                    if sum(1 for c in ctx.checks if not c["ok"]) > n_before:
                        break  # later operations would only repeat the consequences
    except StepFailed:
        ctx.event("sequence-ended:newton-nonconvergence")
    finally:
        ctx.note("history: " + " > ".join(history))
        ctx.describe(f"{kind}/{scheme}/{et}/{'+'.join(sorted(ops_seen))}", nontrivial[0], kind=kind, scheme=scheme, et=et, history=history, saved=len(shadow))
