"""Beam scenario helpers shared by C01 / C02 / C10 (harness side)."""

from __future__ import annotations

import numpy as np

from EasyFEA import ElemType, Mesher, Models, Simulations
from EasyFEA.Geoms import Domain, Line, Point

from ..core import Ctx, quiet, relerr

_SECTIONS: dict = {}


def rect_section(b: float, h: float):
    """A fresh rectangular section mesh (the beam model re-centres and keeps it, so never share)."""
    with quiet():
        return Mesher().Mesh_2D(Domain(Point(-b / 2, -h / 2), Point(b / 2, h / 2)))


def make_member(dim: int, et: str, theory: str, p0, p1, n: int, b: float, h: float, E: float, v: float,
                yAxis=(0, 1, 0)):
    """One straight member from p0 to p1 with n elements. Returns simu, mesh, beam, line."""
    p0 = np.asarray(p0, float)
    p1 = np.asarray(p1, float)
    L = float(np.linalg.norm(p1 - p0))
    with quiet():
        line = Line(Point(*p0), Point(*p1), L / n)
        beam = Models.Beam.Isotropic(dim, line, rect_section(b, h), E, v, yAxis=yAxis)
        mesh = Mesher().Mesh_Beams([beam], elemType=ElemType(et))
        simu = Simulations.Beam(mesh, Models.Beam.BeamStructure([beam]), verbosity=False, useTimoshenko=(theory == "Timo"))
    return simu, simu.mesh, beam, line


def section_props(b: float, h: float) -> dict:
    return {"A": b * h, "Iz": b * h**3 / 12, "Iy": h * b**3 / 12, "J": b * h**3 / 12 + h * b**3 / 12}


def make_welded(dim: int, et: str, theory: str, x0: float, L: float, n: int, b: float, h: float, E: float, v: float, frac: float):
    """Two members along x meeting at x0 + frac L, welded by add_connection_fixed (the joint node exists twice):
    the solve then goes through the Lagrange-multiplier path."""
    xm = x0 + frac * L
    with quiet():
        l1 = Line(Point(x0, 0, 0), Point(xm, 0, 0), frac * L / n)
        l2 = Line(Point(xm, 0, 0), Point(x0 + L, 0, 0), (1 - frac) * L / n)
        beams = [Models.Beam.Isotropic(dim, l1, rect_section(b, h), E, v), Models.Beam.Isotropic(dim, l2, rect_section(b, h), E, v)]
        mesh = Mesher().Mesh_Beams(beams, elemType=ElemType(et))
        simu = Simulations.Beam(mesh, Models.Beam.BeamStructure(beams), verbosity=False, useTimoshenko=(theory == "Timo"))
        X = simu.mesh.coord
        used = np.unique(simu.mesh.groupElem.connect.ravel())
        joint = used[np.abs(X[used, 0] - xm) < 1e-9]
        if len(joint) != 2:
            raise RuntimeError(f"expected two coincident joint nodes, found {len(joint)}")
        simu.add_connection_fixed(joint)
    return simu, simu.mesh, joint


def patch_test(case: dict, ctx: Ctx, rng: np.random.Generator) -> None:
    """Constant axial strain and constant curvature prescribed at the two end nodes of a member along x;
    every interior node must carry the analytic field (right-handed rotation convention: v' = rz, w' = -ry).
    mesh class 'welded': the member is made of two beams joined by a fixed connection (Lagrange-multiplier solve)."""
    dim, et, theory = case["dim"], case["et"], case["theory"]
    welded = case.get("mesh") == "welded"
    key = f"C01/beam/{dim}D/{et}/{theory}" + ("/welded" if welded else "")
    ctx.default_key = key
    L = float(rng.uniform(1.0, 5.0))
    n = int(rng.integers(2, 6))
    b, h = float(rng.uniform(0.05, 0.3)), float(rng.uniform(0.05, 0.3))
    E, v = float(rng.uniform(1e3, 1e5)), float(rng.uniform(0.0, 0.4))
    x0 = float(rng.uniform(-1, 1))
    with ctx.monitored("no-exception", key + "/raised"):
        if welded:
            simu, mesh, joint = make_welded(dim, et, theory, x0, L, n, b, h, E, v, float(rng.uniform(0.3, 0.7)))
        else:
            simu, mesh, beam, line = make_member(dim, et, theory, (x0, 0, 0), (x0 + L, 0, 0), n, b, h, E, v)
    X = mesh.coord
    s = X[:, 0] - x0
    used = np.unique(mesh.groupElem.connect.ravel())
    ends = used[(np.abs(s[used]) < 1e-9) | (np.abs(s[used] - L) < 1e-9)]
    if len(ends) != 2:
        raise RuntimeError("could not identify the two end nodes")
    interior = np.setdiff1d(used, ends)
    unknowns = simu.Get_unknowns()
    dof_n = simu.Get_dof_n()
    Nn = mesh.Nn

    a = float(rng.uniform(-1, 1) * 1e-2)
    kz = float(rng.uniform(-1, 1) * 1e-1)
    ky = float(rng.uniform(-1, 1) * 1e-1)
    tw = float(rng.uniform(-1, 1) * 1e-1)
    modes = ["axial"] if dim == 1 else (["axial", "curv-z", "combined"] if dim == 2 else ["axial", "curv-z", "curv-y", "torsion", "combined"])
    ctx.describe(f"beam/{dim}D/{et}/{theory}", len(interior) > 0, kind="beam", et=et, theory=theory, dim=dim, L=L, n=n,
                 n_interior=int(len(interior)), a=a, kz=kz, ky=ky, twist=tw, modes=modes)

    for mode in modes:
        U = np.zeros((Nn, dof_n))
        col = {u: i for i, u in enumerate(unknowns)}
        if mode in ("axial", "combined"):
            U[:, col["x"]] += a * s
        if dim >= 2 and mode in ("curv-z", "combined"):
            U[:, col["y"]] += 0.5 * kz * s**2
            U[:, col["rz"]] += kz * s
        if dim == 3 and mode in ("curv-y", "combined"):
            U[:, col["z"]] += 0.5 * ky * s**2
            U[:, col["ry"]] += -ky * s
        if dim == 3 and mode in ("torsion", "combined"):
            U[:, col["rx"]] += tw * s
        with ctx.monitored("no-exception", key + "/raised"):
            with quiet():
                simu.Bc_Init()
                if welded:
                    simu.add_connection_fixed(joint)
                simu.add_dirichlet(ends, [U[ends, i] for i in range(dof_n)], unknowns)
                K = simu.Get_K_C_M_F()[0]
                sol = simu.Solve().reshape(Nn, dof_n)
        dofs_used = (used[:, None] * dof_n + np.arange(dof_n)).ravel()
        dofs_end = (ends[:, None] * dof_n + np.arange(dof_n)).ravel()
        free = np.setdiff1d(dofs_used, dofs_end)
        u_lin = U.ravel()
        mkey = f"{key}/{mode}"
        if welded:
            # the matrix carries the multiplier rows; the two joint nodes hold opposite constraint forces
            K = K.tocsr()[: u_lin.size, : u_lin.size]
            free = np.setdiff1d(free, (joint[:, None] * dof_n + np.arange(dof_n)).ravel())
        if len(free):
            r = (K @ u_lin)[free]
            # scale row-wise: rotations and translations have different units
            Kabs = abs(K)
            rowscale = np.asarray(Kabs @ np.abs(u_lin)).ravel()[free]
            ctx.check("residual", float(np.max(np.abs(r) / np.maximum(rowscale, 1e-300))), 1e-8, mkey, mode=mode)
        # component-wise comparison (translations and rotations scaled separately)
        err = 0.0
        for i in range(dof_n):
            sc = max(np.abs(U[:, i]).max(), 1e-3 * np.abs(U).max())
            err = max(err, float(np.abs(sol[used, i] - U[used, i]).max() / sc))
        ctx.check("solution", err, 1e-7, mkey, mode=mode, n_interior=len(interior))
        ctx.finite("finite", sol, mkey)
