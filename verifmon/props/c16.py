"""C16 — named results are consistent with the fields and matrices they derive from.

Oracle: a relation table evaluated on arbitrary states that the harness writes itself (u, v, a mutually different random
vectors, or an affine displacement whose strain is known in closed form), so that a result wired to the wrong field, the
wrong component, the wrong averaging or the wrong storage class cannot coincide with the expected value by accident:

* component results against the harness' own state arrays (ux.., vx.., ax.., rx.., norms, displacement_matrix);
* element form of nodal results = mean over the nodes of each element; node form of element results = mean over the
  elements around each node (both recomputed from the connectivity);
* tensor components against the tensor result, against per-Gauss-point fields (von Mises of the stress at every
  integration point, averaged per element), against the closed-form strain of an affine state and against C : strain;
* conversion of constant fields; Wdef = 1/2 u'Ku (and = sum of Wdef_e); reactions = K u (+ C v + M a) and the balance
  of reactions and applied loads on equilibrium states.
"""

from __future__ import annotations

import copy

import numpy as np

from EasyFEA import AlgoType, Models, Simulations
from EasyFEA.FEM import MatrixType

from . import _suite
from ..core import Ctx, quiet, relerr
from ..gen import meshes as gm
from . import _beam_common as bcm
from . import _sims

PROP = "C16"
NUM = 16
RULE = (
    "cases = (simulation kind, dimension, element type, mesh class: gmsh / hand-built grid whose node and element counts "
    "divide one another, state class: affine / random u,v,a / equilibrium) ; every name of Results_Available() is requested "
    "in node and element form. Signature = (kind, dim, element type, mesh class, state class). Non-trivial iff the mesh has "
    ">= 2 elements and the state vectors are non-zero and mutually different."
)
ASSUMPTIONS = [
    "2-D equivalent stress / strain = von Mises norm of the in-plane tensor the result advertises (Sxx, Syy, Sxy), as the 3-component 'Stress' result defines it",
    "shear components are the tensor components (Kelvin-Mandel factor removed), as compared with the affine closed form",
    "node values of an element field = plain average over the elements sharing the node; element values of a nodal field = plain average over the element's nodes (the documented conversions)",
    "beam section stresses (Sxx...) are only required to be retrievable and consistent with 'Stress'; their engineering definition is not judged",
]
TIMEOUT_CASE = 300
MIN_EVALS = {"component": 100, "conversion": 100, "tensor-component": 40, "von-mises": 10, "energy": 5, "reaction": 5}
REQUIRED_COVERAGE = ["Reshape", "Node_Values", "Elastic_Result", "strain_stress_field"]


def anchors():
    from EasyFEA.Simulations._simu import _Simu
    from EasyFEA.Simulations import _elastic, _weakforms, _beam, _thermal, _phasefield, _hyperelastic, _inelastic
    from EasyFEA.FEM._mesh import Mesh
    from EasyFEA.Models import _utils

    return [
        ("Reshape", _Simu, "Results_Reshape_values"), ("Node_Values", Mesh, "Get_Node_Values"), ("Calc_Reaction", _Simu, "Calc_Reaction"),
        ("Elastic_Result", _elastic.Elastic, "Result"), ("WeakForms_Result", _weakforms.WeakForms, "Result"), ("Beam_Result", _beam.Beam, "Result"),
        ("Thermal_Result", _thermal.Thermal, "Result"), ("PhaseField_Result", _phasefield.PhaseField, "Result"),
        ("HyperElastic_Result", _hyperelastic.HyperElastic, "Result"), ("InElastic_Result", _inelastic.InElastic, "Result"),
        ("strain_stress_field", _utils, "Result_strain_or_stress_field_e"),
    ]


CONFIGS = [
    ("elastic", 2, "TRI3"), ("elastic", 2, "QUAD4"), ("elastic", 2, "TRI6"), ("elastic", 2, "QUAD8"), ("elastic", 3, "TETRA4"), ("elastic", 3, "HEXA8"), ("elastic", 3, "PRISM6"),
    ("elastic-dyn", 2, "TRI3"), ("elastic-dyn", 3, "TETRA4"), ("elastic-dyn", 2, "QUAD4"),
    ("thermal", 2, "TRI3"), ("thermal", 3, "TETRA4"), ("thermal", 2, "QUAD4"),
    ("beam", 1, "SEG2"), ("beam", 2, "SEG2"), ("beam", 2, "SEG3"), ("beam", 3, "SEG2"), ("beam-timo", 2, "SEG2"), ("beam-timo", 3, "SEG3"),
    ("weakforms1", 2, "TRI3"), ("weakforms2", 2, "TRI3"), ("weakforms3", 3, "TETRA4"), ("weakforms2", 2, "QUAD4"),
    ("phasefield", 2, "TRI3"), ("phasefield", 3, "TETRA4"), ("phasefield", 2, "QUAD4"),
    ("hyperelastic", 2, "TRI3"), ("hyperelastic", 3, "TETRA4"), ("hyperelastic-dyn", 2, "TRI3"), ("hyperelastic-dyn", 3, "HEXA8"),
    ("inelastic", 2, "TRI3"), ("inelastic", 3, "HEXA8"), ("inelastic", 2, "QUAD4"),
]
GRID_OK = {"TRI3", "QUAD4", "HEXA8"}


def cases(tier: str, seed: int) -> list[dict]:
    out = []
    rep = 2 if tier == "quick" else 60
    for r in range(rep):
        for kind, dim, et in CONFIGS:
            for state in ("affine", "random"):
                out.append({"kind": kind, "dim": dim, "et": et, "mesh": "gmsh", "state": state})
            if et in GRID_OK and not kind.startswith("beam"):
                for state in ("random",):
                    out.append({"kind": kind, "dim": dim, "et": et, "mesh": "grid", "state": state})
        for kind, dim, et in [("elastic", 2, "TRI3"), ("elastic", 3, "TETRA4"), ("elastic", 2, "QUAD8"), ("thermal", 2, "TRI3"), ("beam", 2, "SEG2"), ("beam", 3, "SEG2"),
                              ("elastic-dyn", 2, "TRI3"), ("elastic-dyn", 2, "QUAD4"), ("thermal-dyn", 2, "TRI3")]:
            out.append({"kind": kind, "dim": dim, "et": et, "mesh": "gmsh", "state": "equilibrium"})
        # a frame whose members are welded through a connection (Lagrange multipliers in the system): reactions at the clamp
        for dim_, et_, th_ in ((2, "SEG2", "EB"), (3, "SEG3", "Timo")):
            out.append({"kind": "frame", "dim": dim_, "et": et_, "mesh": "frame", "state": "frame-reaction", "theory": th_})
        for kind, dim, et in [("phasefield", 2, "TRI3"), ("phasefield", 2, "QUAD4"), ("phasefield", 3, "TETRA4"), ("elastic", 2, "TRI6"), ("elastic-dyn", 2, "TRI3"),
                              ("thermal-dyn", 2, "TRI3"), ("hyperelastic", 2, "TRI3")]:
            out.append({"kind": kind, "dim": dim, "et": et, "mesh": "gmsh", "state": "stored"})
    for i, c in enumerate(out):
        c["id"] = f"C16-{i:05d}-{c['kind']}-{c['dim']}D-{c['et']}-{c['mesh']}-{c['state']}"
        c["index"] = i
    for c in _suite.suite_cases(PROP, tier):
        c["index"] = len(out)
        out.append(c)
    return out


# ------------------------------------------------------------------------------------------
def grid_mesh(rng, dim, et):
    """Hand-built structured grid with few cells: node and element counts (and their small multiples) often divide one another."""
    nx, ny, nz = int(rng.integers(1, 5)), int(rng.integers(1, 4)), int(rng.integers(1, 3))
    if et == "TRI3" and rng.random() < 0.4:
        nx, ny = 3, 2  # Ne == Nn == 12
    xs, ys, zs = np.linspace(0, 1.5, nx + 1), np.linspace(0, 1.0, ny + 1), np.linspace(0, 0.6, nz + 1)
    if dim == 2:
        X, Y = np.meshgrid(xs, ys, indexing="ij")
        coord = np.c_[X.ravel(), Y.ravel(), np.zeros(X.size)]
        idx = lambda i, j: i * (ny + 1) + j  # noqa: E731
        con = []
        for i in range(nx):
            for j in range(ny):
                a, b, c, d = idx(i, j), idx(i + 1, j), idx(i + 1, j + 1), idx(i, j + 1)
                if et == "QUAD4":
                    con.append([a, b, c, d])
                else:
                    con += [[a, b, c], [a, c, d]]
        return gm.build_mesh(coord, {et: np.array(con)})
    X, Y, Z = np.meshgrid(xs, ys, zs, indexing="ij")
    coord = np.c_[X.ravel(), Y.ravel(), Z.ravel()]
    idx = lambda i, j, k: (i * (ny + 1) + j) * (nz + 1) + k  # noqa: E731
    con = []
    for i in range(nx):
        for j in range(ny):
            for k in range(nz):
                con.append([idx(i, j, k), idx(i + 1, j, k), idx(i + 1, j + 1, k), idx(i, j + 1, k),
                            idx(i, j, k + 1), idx(i + 1, j, k + 1), idx(i + 1, j + 1, k + 1), idx(i, j + 1, k + 1)])
    return gm.build_mesh(coord, {"HEXA8": np.array(con)})


def build(case, rng):
    """-> (simu, info) with no boundary condition; info carries what the oracles need."""
    kind, dim, et = case["kind"], case["dim"], case["et"]
    base = kind.split("-")[0].rstrip("123")
    info = {"kind": kind, "base": base, "dim": dim}
    with quiet():
        if base == "beam":
            theory = "Timo" if kind.endswith("timo") else "EB"
            L = float(rng.uniform(1, 3))
            simu, mesh, beam, line = bcm.make_member(dim, et, theory, (0, 0, 0), (L, 0, 0), int(rng.integers(2, 5)), 0.1, 0.2, 1e4, 0.3)
            info.update(L=L, beam=beam, theory=theory)
            return simu, info
        if case["mesh"] == "grid":
            mesh = grid_mesh(rng, dim, et)
        else:
            # (a weak-form model holds one Field on one group of elements: recombined meshes must be purely quadrangular)
            mesh, _ = _sims.small_mesh(rng, dim, et, size=1.2, organised=(base == "weakforms" and et == "QUAD4"))
        if base == "elastic":
            ps = bool(rng.integers(2))
            E, v = float(rng.uniform(5, 50)), float(rng.uniform(0.1, 0.4))
            law = Models.Elastic.Isotropic(dim, E=E, v=v, planeStress=ps, thickness=float(rng.uniform(0.5, 2)) if dim == 2 else 1.0)
            simu = Simulations.Elastic(mesh, law)
            simu.rho = float(rng.uniform(0.5, 2))
            if kind.endswith("dyn"):
                simu.Set_Rayleigh_Damping_Coefs(float(rng.uniform(0.1, 2)), float(rng.uniform(1e-3, 1e-2)))
                # (the end-of-step balance K u + C v + M a = F is the one of Newmark; hht / midpoint balance weighted states)
                simu.Solver_Set_Hyperbolic_Algorithm(0.1, algo=AlgoType("newmark" if case["state"] == "equilibrium" else str(rng.choice(["newmark", "hht", "midpoint"]))))
            info["law"] = law
        elif base == "thermal":
            simu = Simulations.Thermal(mesh, Models.Thermal(k=float(rng.uniform(1, 5)), c=float(rng.uniform(0.5, 2)), thickness=float(rng.uniform(0.5, 2)) if dim == 2 else 1.0))
            simu.rho = float(rng.uniform(0.5, 2))
            if kind.endswith("dyn"):
                simu.Solver_Set_Parabolic_Algorithm(0.1, 0.7)
        elif base == "weakforms":
            dof_n = int(kind[len("weakforms")])
            from EasyFEA.FEM import BiLinearForm, Field
            field = Field(mesh.Get_list_groupElem(dim)[0], dof_n)
            simu = Simulations.WeakForms(mesh, Models.WeakForms(field, BiLinearForm(_sims._wf_K1) if dof_n == 1 else BiLinearForm(_wf_Kv), computeM=BiLinearForm(_sims._wf_M1)))
            simu.Solver_Set_Hyperbolic_Algorithm(0.1)
            info["dof_n"] = dof_n
        elif base == "phasefield":
            mat = Models.Elastic.Isotropic(dim, E=210.0, v=0.3, planeStress=False, thickness=1.0)
            pfm = Models.PhaseField(mat, str(rng.choice(["Miehe", "Amor", "Bourdin"])), "AT2", Gc=2.7, l0=0.3,
                                    solver=str(rng.choice(["History", "HistoryDamage", "BoundConstrain"])))
            info["solver"] = str(pfm.solver)
            simu = Simulations.PhaseField(mesh, pfm)
            info["law"] = mat
        elif base == "hyperelastic":
            mat = Models.HyperElastic.NeoHookean(dim, K=50.0)
            simu = Simulations.HyperElastic(mesh, mat, verbosity=False)
            if kind.endswith("dyn"):
                simu.Solver_Set_Hyperbolic_Algorithm(0.1)
        elif base == "inelastic":
            el = Models.Elastic.Isotropic(3, E=1000.0, v=0.3)
            simu = Simulations.InElastic(mesh, _sims.make_behavior(dim, el, True))
        else:
            raise ValueError(kind)
    return simu, info


def _wf_Kv(u, v):
    return u.grad.ddot(v.grad)


def set_state(simu, info, case, rng):
    """Writes u, v, a (every problem type) and returns them as {problemType: (u, v, a)} plus the affine gradient if any."""
    st = {}
    mesh = simu.mesh
    X = mesh.coord
    A = None
    for pt in simu.Get_problemTypes():
        dof_n = simu.Get_dof_n(pt)
        n = mesh.Nn * dof_n
        amp = 1e-2
        if info["base"] in ("elastic", "thermal", "beam") and case.get("index", 0) % 3 == 2:
            # another order of magnitude of the state (micro-strains, or a unit system with tiny lengths): every relation is relative
            amp = 1e-2 * float(10.0 ** rng.choice([-4, -7]))
        if case["state"] == "affine" and dof_n == info["dim"] and info["base"] not in ("beam", "weakforms"):
            A = rng.normal(size=(dof_n, dof_n)) * amp
            u = (X[:, :dof_n] @ A.T + rng.normal(size=dof_n) * amp).ravel()
        else:
            u = rng.normal(size=n) * amp
        if str(pt).endswith("damage"):
            u = rng.uniform(0.05, 0.6, size=n)
        v = rng.normal(size=n) * 0.3
        a = rng.normal(size=n) * 2.0
        simu._Set_solutions(pt, u.copy(), v.copy(), a.copy())
        st[pt] = (u, v, a)
    simu.Need_Update()
    return st, A


def elem_mean(mesh, nodal):
    """(Nn, k) nodal values -> (Ne, k) mean over each element's nodes, groups in Get_list_groupElem(dim) order."""
    nodal = np.asarray(nodal).reshape(mesh.Nn, -1)
    return np.concatenate([nodal[g.connect].mean(axis=1) for g in mesh.Get_list_groupElem(mesh.dim)])


def node_mean(mesh, elem_vals):
    """(Ne, k) element values -> (Nn, k): mean over the elements sharing each node (nodes without element: 0)."""
    elem_vals = np.asarray(elem_vals, dtype=float).reshape(mesh.Ne, -1)
    acc = np.zeros((mesh.Nn, elem_vals.shape[1]))
    cnt = np.zeros(mesh.Nn)
    off = 0
    for g in mesh.Get_list_groupElem(mesh.dim):
        for e in range(g.Ne):
            acc[g.connect[e]] += elem_vals[off + e]
            cnt[g.connect[e]] += 1
        off += g.Ne
    cnt[cnt == 0] = 1
    return acc / cnt[:, None]


def collides(size_stored, other):
    return other > 0 and size_stored % other == 0


class Probe:
    """Requests results and classifies failures by mechanism."""

    def __init__(self, simu, ctx, key0):
        self.simu, self.ctx, self.key0 = simu, ctx, key0
        self.mesh = simu.mesh
        self.Nn, self.Ne = self.mesh.Nn, self.mesh.Ne

    def get(self, name, nv):
        with quiet():
            return self.simu.Result(name, nodeValues=nv)

    def suffix(self, stored, size, nv):
        """'@size-collision' when Results_Reshape_values cannot tell from the size alone where the values are stored."""
        if stored == "nodes":
            amb = collides(size, self.Ne) if not nv else False
        else:
            amb = collides(size, self.Nn) if nv else False
        return "@size-collision" if amb else ""

    def check(self, oracle, name, nv, want, stored, family, tol=1e-12):
        """want: expected array in the requested form; stored: where the raw values live ('nodes' | 'elements')."""
        want = np.asarray(want, dtype=float)
        k = f"{self.key0}/{family}{self.suffix(stored, want.size if (stored == 'nodes') == nv else self._raw_size(stored, want), nv)}"
        try:
            got = self.get(name, nv)
        except Exception as e:  # noqa: BLE001
            self.ctx.require(oracle, False, k + "/raised", name=name, nodeValues=nv, raised=type(e).__name__, message=str(e)[:200])
            return None
        if got is None:
            self.ctx.require(oracle, False, k + "/none", name=name, nodeValues=nv)
            return None
        got = np.asarray(got, dtype=float)
        if got.size != want.size:
            self.ctx.require(oracle, False, k + "/shape", name=name, nodeValues=nv, got=list(got.shape), want=list(want.shape))
            return got
        self.ctx.check(oracle, relerr(got.reshape(want.shape), want, scale=np.abs(want).max() + 1e-300), tol, k, name=name, nodeValues=nv)
        return got

    def _raw_size(self, stored, want):
        # size of the raw (stored) array when the requested form is the converted one
        per = want.size // (self.Nn if stored == "elements" else self.Ne)
        return per * (self.Ne if stored == "elements" else self.Nn)

    def nodal(self, name, raw, family="component"):
        """A result stored at nodes with known raw values (Nn, k) or (Nn,)."""
        raw = np.asarray(raw, dtype=float)
        self.check("component", name, True, raw, "nodes", family)
        em = elem_mean(self.mesh, raw)
        self.check("conversion", name, False, em if raw.ndim > 1 and raw.reshape(self.Nn, -1).shape[1] > 1 else em.ravel(), "nodes", family + "/to-elements")

    def elemental(self, name, raw, oracle="tensor-component", family="tensor", tol=1e-11):
        """A result stored at elements with known raw values (Ne, k) or (Ne,)."""
        raw = np.asarray(raw, dtype=float)
        self.check(oracle, name, False, raw, "elements", family, tol)
        nm = node_mean(self.mesh, raw)
        self.check("conversion", name, True, nm if raw.ndim > 1 else nm.ravel(), "elements", family + "/to-nodes", tol)


VM2 = lambda s: np.sqrt(s[..., 0] ** 2 + s[..., 1] ** 2 - s[..., 0] * s[..., 1] + 3 * s[..., 2] ** 2)  # noqa: E731
VM3 = lambda s: np.sqrt(0.5 * ((s[..., 0] - s[..., 1]) ** 2 + (s[..., 1] - s[..., 2]) ** 2 + (s[..., 2] - s[..., 0]) ** 2 + 6 * (s[..., 3] ** 2 + s[..., 4] ** 2 + s[..., 5] ** 2)))  # noqa: E731
NAMES2, NAMES3 = ["xx", "yy", "xy"], ["xx", "yy", "zz", "yz", "xz", "xy"]


def unmandel(f):
    """(.., 3|6) Kelvin-Mandel vector -> tensor components."""
    f = np.array(f, dtype=float, copy=True)
    n = f.shape[-1]
    f[..., (2 if n == 3 else 3):] /= np.sqrt(2)
    return f


def run_case(case: dict, ctx: Ctx) -> None:
    if case.get("fam") == "suite":
        return _suite.run_suite(case, ctx, PROP)
    rng = np.random.default_rng([case["seed"], NUM, case["index"]])
    kind, dim, et = case["kind"], case["dim"], case["et"]
    key0 = f"C16/{kind}"
    ctx.default_key = key0
    if case["state"] == "frame-reaction":
        return run_frame_reaction(case, ctx, rng, key0)
    with ctx.monitored("no-exception", key0 + "/build/raised"):
        simu, info = build(case, rng)
    mesh = simu.mesh
    base = info["base"]
    if case["state"] == "stored":
        run_stored(case, ctx, rng, simu, info, key0)
        ctx.describe(f"{kind}/{dim}D/{et}/{case['mesh']}/stored", mesh.Ne >= 2, kind=kind, et=et, Nn=mesh.Nn, Ne=mesh.Ne)
        return
    if case["state"] == "equilibrium":
        run_equilibrium(case, ctx, rng, simu, info, key0)
        ctx.describe(f"{kind}/{dim}D/{et}/{case['mesh']}/equilibrium", mesh.Ne >= 2, kind=kind, et=et, Nn=mesh.Nn, Ne=mesh.Ne)
        return
    committed = None
    if base == "inelastic":
        # a committed plastic state, so that internal-variable results are not identically zero
        with ctx.monitored("no-exception", key0 + "/plastic-step/raised"):
            with quiet():
                X = mesh.coord
                used = gm.used_nodes(mesh)
                xs = X[used, 0]
                n0, nL = used[np.abs(xs - xs.min()) < 1e-9], used[np.abs(xs - xs.max()) < 1e-9]
                un = simu.Get_unknowns()
                simu.add_dirichlet(n0, [0.0] * len(un), un)
                simu.add_dirichlet(nL, [0.012 * (xs.max() - xs.min())], [un[0]])
                try:
                    simu.Solve()
                    simu.Save_Iter()
                    committed = simu.Get_results(-1).get("state")
                except AssertionError as e:
                    if "converge" not in str(e):
                        raise
                    ctx.event("plastic-step-not-converged")
                simu.Bc_Init()
    with ctx.monitored("no-exception", key0 + "/state/raised"):
        with quiet():
            st, A = set_state(simu, info, case, rng)
    P = Probe(simu, ctx, key0)
    Nn, Ne = mesh.Nn, mesh.Ne
    names = list(simu.Results_Available())
    seen = set()
    pt0 = simu.Get_problemTypes()[0] if base != "phasefield" else simu.ProblemTypes.elastic
    u, v, a = st[pt0]
    dof_n = simu.Get_dof_n(pt0)
    U, V, Acc = u.reshape(Nn, dof_n), v.reshape(Nn, dof_n), a.reshape(Nn, dof_n)
    comp = ["x", "y", "z"]

    def have(n):
        if n in names:
            seen.add(n)
            return True
        return False

    # ---- nodal vector results and their components ------------------------------------------------------------------
    if base in ("elastic", "hyperelastic", "inelastic", "phasefield"):
        vecs = [("displacement", "u", U)]
        if "speed" in names:
            vecs += [("speed", "v", V), ("accel", "a", Acc)]
        for vname, letter, W in vecs:
            if have(vname):
                P.nodal(vname, W.ravel() if False else W, family="vector")
            if have(vname + "_norm"):
                P.nodal(vname + "_norm", np.linalg.norm(W, axis=1))
            for d in range(dof_n):
                if have(letter + comp[d]):
                    P.nodal(letter + comp[d], W[:, d])
        if have("displacement_matrix"):
            M = np.zeros((Nn, 3))
            M[:, :dof_n] = U
            P.nodal("displacement_matrix", M, family="vector")
    if base == "phasefield" and have("damage"):
        P.nodal("damage", st[simu.ProblemTypes.damage][0])
    if base == "thermal":
        if have("thermal"):
            P.nodal("thermal", u)
        if have("thermalDot"):
            P.nodal("thermalDot", v)
        seen.add("displacement_matrix")
    if base == "weakforms":
        for vname, W in (("u", U), ("v", V), ("a", Acc)):
            if have(vname):
                P.nodal(vname, W if dof_n > 1 else W.ravel(), family="vector")
            for d in range(dof_n):
                if dof_n > 1 and have(vname + comp[d]):
                    P.nodal(vname + comp[d], W[:, d])
        seen.add("displacement_matrix")
    if base == "beam":
        run_beam(case, ctx, rng, simu, info, P, U, names, seen)

    # ---- strain / stress family ---------------------------------------------------------------------------------------
    if base in ("elastic", "phasefield", "inelastic", "hyperelastic"):
        tnames = NAMES2 if dim == 2 else NAMES3
        vm = VM2 if dim == 2 else VM3
        for tensor, prefix, vmname in (("Strain", "E", "Evm"), ("Stress", "S", "Svm")):
            tres = {"hyperelastic": {"Strain": "Green-Lagrange", "Stress": "Piola-Kirchhoff"}}.get(base, {}).get(tensor, tensor)
            T = None
            if have(tres):
                try:
                    T = np.asarray(P.get(tres, False), dtype=float)
                except Exception as e:  # noqa: BLE001
                    ctx.require("tensor-component", False, f"{key0}/tensor/{tres}/raised", raised=type(e).__name__, message=str(e)[:200])
                if T is not None and T.ndim == 2 and T.shape == (Ne, 6) and dim == 2:
                    cols = [NAMES3.index(n) for n in NAMES2]  # a 2-D simulation reporting the full 3-D tensor (finite strain kinematics)
                    Tfull, T = T, T[:, cols]
                    P.elemental(tres, Tfull, family="tensor/" + tres)
                    tres_done = True
                else:
                    tres_done = False
                if T is not None and T.shape != (Ne, len(tnames)):
                    ctx.require("tensor-component", False, f"{key0}/tensor/{tres}/shape", got=list(T.shape), want=[Ne, len(tnames)])
                    T = None
                if T is not None and not tres_done:
                    # node form of the tensor result: averaged columns
                    P.elemental(tres, T, family="tensor/" + tres)
            for i, nm in enumerate(tnames):
                if have(prefix + nm) and T is not None:
                    P.elemental(prefix + nm, T[:, i], family="tensor-component")
            # per-Gauss-point field from the simulation's own kinematics, von Mises taken by the harness at every point
            fld = gauss_field(simu, info, st, tensor)
            if fld is not None and T is not None:
                ctx.check("tensor-component", relerr(T, np.concatenate([f.mean(axis=1) for f in fld]), scale=np.abs(T).max() + 1e-300), 1e-11, f"{key0}/tensor/{tres}/gauss-mean")
                if have(vmname):
                    P.elemental(vmname, np.concatenate([vm(f).mean(axis=1) for f in fld]), oracle="von-mises", family="von-mises")
            elif have(vmname) and T is not None and all(g.Get_gauss(MatrixType.rigi).nPg == 1 for g in mesh.Get_list_groupElem(dim)):
                P.elemental(vmname, vm(T), oracle="von-mises", family="von-mises")
            # closed form for an affine state (small-strain kinds)
            if A is not None and tensor == "Strain" and T is not None and base != "hyperelastic":
                eps = 0.5 * (A + A.T)
                want = np.array([eps[0, 0], eps[1, 1], eps[0, 1]] if dim == 2 else [eps[0, 0], eps[1, 1], eps[2, 2], eps[1, 2], eps[0, 2], eps[0, 1]])
                ctx.check("affine-strain", relerr(T, np.broadcast_to(want, T.shape), scale=np.abs(want).max()), 1e-10, f"{key0}/affine-strain")
        # linear elastic: Stress = C : Strain on element means
        if base == "elastic" and "Strain" in names and "Stress" in names:
            with quiet():
                E_, S_ = np.asarray(simu.Result("Strain", False), float), np.asarray(simu.Result("Stress", False), float)
            if E_.shape == S_.shape == (Ne, len(tnames)):
                C = np.asarray(info["law"].C)
                sh = slice(2, None) if dim == 2 else slice(3, None)
                Em = E_.copy()
                Em[:, sh] *= np.sqrt(2)
                Sm = Em @ C.T
                Sm[:, sh] /= np.sqrt(2)
                ctx.check("hooke", relerr(S_, Sm, scale=np.abs(Sm).max() + 1e-300), 1e-10, f"{key0}/stress=C:strain")
    # ---- energies -------------------------------------------------------------------------------------------------------
    if base == "elastic" and have("Wdef"):
        with quiet():
            K = simu.Get_K_C_M_F()[0]
            W = float(simu.Result("Wdef"))
        want = 0.5 * float(u @ (K @ u))
        ctx.check("energy", abs(W - want) / max(abs(want), 1e-300), 1e-10, f"{key0}/Wdef=uKu/2", W=W, want=want)
        if have("Wdef_e"):
            with quiet():
                We = np.asarray(simu.Result("Wdef_e", False), float)
            ctx.check("energy", abs(We.sum() - want) / max(abs(want), 1e-300), 1e-10 if We.shape == (Ne,) else -1, f"{key0}/sum(Wdef_e)=Wdef", shape=list(We.shape))
            if We.shape == (Ne,):
                P.elemental("Wdef_e", We, oracle="conversion", family="element-scalar")
    if base == "phasefield" and have("Wdef"):
        with quiet():
            K = simu.Get_K_C_M_F(simu.ProblemTypes.elastic)[0]
            W = float(simu.Result("Wdef"))
        want = 0.5 * float(u @ (K @ u))
        ctx.check("energy", abs(W - want) / max(abs(want), 1e-300), 1e-9, f"{key0}/Wdef=uK(d)u/2", W=W, want=want)
    if base == "inelastic" and committed:
        lay = simu.material.layout
        for n, slot in lay.slots.items():
            if slot.stop - slot.start == 1 and have(n):
                want = np.concatenate([np.asarray(committed[g.elemType])[..., slot.start].mean(axis=1) for g in mesh.Get_list_groupElem(dim)])
                nz = float(np.abs(want).max())
                ctx.event("internal-variable-nonzero" if nz > 0 else "internal-variable-zero")
                P.elemental(n, want, oracle="internal-variable", family="internal-variable")
    if base == "hyperelastic" and len(mesh.Get_list_groupElem(dim)) == 1:
        # active fibre stress: the reported second Piola-Kirchhoff stress is the passive one plus tau (T x T), for a scalar tau and
        # for a per-element activation field that is zero in part of the elements
        with ctx.monitored("no-exception", key0 + "/active-stress/raised"):
            with quiet():
                comps = NAMES2 if dim == 2 else NAMES3
                passive = {c_: np.asarray(simu.Result("S" + c_, nodeValues=False), float).copy() for c_ in comps}
                nPg = np.asarray(simu._Calc_SecondPiolaKirchhoff()).shape[1]
                Tv = np.zeros(3)
                Tv[:dim] = rng.normal(size=dim)
                Tv /= np.linalg.norm(Tv)
                from EasyFEA.FEM import FeArray as _Fe
                simu.material.Set_active_stress_vec(_Fe.asfearray(np.broadcast_to(Tv, (Ne, nPg, 3)).copy()))
                idx = {"xx": (0, 0), "yy": (1, 1), "zz": (2, 2), "yz": (1, 2), "xz": (0, 2), "xy": (0, 1)}
                for form_ in ("scalar", "field-with-zeros", "field"):
                    if form_ == "scalar":
                        tau = float(rng.uniform(1, 5))
                    else:
                        tau = rng.uniform(1, 5, Ne)
                        if form_ == "field-with-zeros":
                            tau[rng.random(Ne) < 0.5] = 0.0
                            tau[0] = 0.0
                            tau[-1] = 3.0
                    simu.material.active_stress = tau
                    worst = 0.0
                    for c_ in comps:
                        got = np.asarray(simu.Result("S" + c_, nodeValues=False), float)
                        i_, j_ = idx[c_]
                        want = passive[c_] + np.asarray(tau) * Tv[i_] * Tv[j_]
                        worst = max(worst, float(np.abs(got - want).max()))
                    ctx.check("tensor-component", worst / 5.0, 1e-10, f"{key0}/active-stress/{form_}/S=S_passive+tau.TxT", Ne=Ne)
                simu.material.active_stress = 0.0
    for n in ("ZZ1", "ZZ1_e", "W", "W_e", "Wdef", "Wdef_e", "Psi_Crack", "psiP", "p", "Strain", "Stress"):
        if n in names and n not in seen:
            seen.add(n)
            scalar_or_field(P, ctx, key0, n)
    # ---- constants survive the conversions ----------------------------------------------------------------------------
    c0 = float(rng.uniform(1, 3))
    for k in (1, 3):
        cn = np.full((Nn, k), c0) if k > 1 else np.full(Nn, c0)
        ce = np.full((Ne, k), c0) if k > 1 else np.full(Ne, c0)
        for vals, nv, stored, n_other in ((cn, False, "nodes", Ne), (ce, True, "elements", Nn)):
            suf = "@size-collision" if collides(vals.size, n_other) else ""
            try:
                with quiet():
                    import inspect
                    if "onNodes" in inspect.signature(simu.Results_Reshape_values).parameters:
                        out = np.asarray(simu.Results_Reshape_values(vals.copy(), nv, onNodes=(stored == "nodes")), float)
                    else:
                        out = np.asarray(simu.Results_Reshape_values(vals.copy(), nv), float)
                ok = out.size == (Nn if nv else Ne) * k and np.allclose(out, c0, rtol=1e-13, atol=0)
                ctx.require("constant-field", ok, f"{key0}/constant/{stored}-to-{'nodes' if nv else 'elements'}{suf}", k=k, got_shape=list(out.shape), Nn=Nn, Ne=Ne)
            except Exception as e:  # noqa: BLE001
                ctx.require("constant-field", False, f"{key0}/constant/{stored}-to-{'nodes' if nv else 'elements'}{suf}/raised", raised=type(e).__name__, message=str(e)[:200])
    # ---- reactions on arbitrary states: K u (+ C v + M a) as documented --------------------------------------------------
    if base in ("elastic", "thermal") or (base == "weakforms"):
        with quiet():
            try:
                K, C, M, _ = simu.Get_K_C_M_F()
                dofs = np.sort(rng.choice(K.shape[0], size=max(1, K.shape[0] // 3), replace=False))
                R = np.asarray(simu.Calc_Reaction(dofs))
                want = K[dofs] @ u
                if simu.algo == AlgoType.parabolic:
                    want = want + C[dofs] @ v
                elif simu.algo in AlgoType.Get_Hyperbolic_Types():
                    want = want + C[dofs] @ v + M[dofs] @ a
                ctx.check("reaction", relerr(R, want, scale=np.abs(want).max() + 1e-300), 1e-11, f"{key0}/reaction=Ku+Cv+Ma/{simu.algo}")
            except NotImplementedError:
                pass
    # ---- every advertised name must at least be retrievable in both forms --------------------------------------------------
    for n in names:
        if n in seen:
            continue
        for nv in (True, False):
            try:
                val = P.get(n, nv)
                ctx.require("retrievable", val is not None, f"{key0}/unverified-name/{'none' if val is None else 'ok'}", name=n, nodeValues=nv)
            except Exception as e:  # noqa: BLE001
                ctx.require("retrievable", False, f"{key0}/unverified-name/raised", name=n, nodeValues=nv, raised=type(e).__name__, message=str(e)[:200])
    distinct = not (np.allclose(u, v) or np.allclose(u, a))
    ctx.describe(f"{kind}/{dim}D/{et}/{case['mesh']}/{case['state']}", mesh.Ne >= 2 and distinct and np.abs(u).max() > 0, kind=kind, et=et, Nn=Nn, Ne=Ne, names=len(names))


def scalar_or_field(P, ctx, key0, n):
    """Names without an independent oracle here (error estimator, hyperelastic energy, crack energy, internal variables):
    retrievable, finite, and the node form of an element field is the node average of its element form."""
    try:
        e = P.get(n, False)
    except Exception as ex:  # noqa: BLE001
        ctx.require("retrievable", False, f"{key0}/{n}/raised", raised=type(ex).__name__, message=str(ex)[:200])
        return
    if e is None:
        ctx.require("retrievable", False, f"{key0}/{n}/none")
        return
    e = np.asarray(e, float)
    ctx.finite("finite", e, f"{key0}/{n}/finite")
    if e.ndim >= 1 and e.shape[0] == P.Ne:
        P.elemental(n, e, oracle="conversion", family="element-scalar")


def gauss_field(simu, info, st, tensor):
    """Per-group (Ne, nPg, 3|6) tensor components at the Gauss points from the simulation's kinematics (None when not exposed)."""
    base = info["base"]
    mesh = simu.mesh
    try:
        with quiet():
            if base == "elastic":
                u = st[simu.Get_problemTypes()[0]][0]
                out = []
                for g in mesh.Get_list_groupElem(mesh.dim):
                    eps = simu._Calc_Epsilon_e_pg(u, g)
                    out.append(unmandel(np.asarray(eps if tensor == "Strain" else simu._Calc_Sigma_e_pg(eps, g))))
                return out
            if base == "phasefield":
                u = st[simu.ProblemTypes.elastic][0]
                out = []
                for g in mesh.Get_list_groupElem(mesh.dim):
                    eps = simu._Calc_Epsilon_e_pg(u, groupElem=g)
                    out.append(unmandel(np.asarray(eps if tensor == "Strain" else simu._Calc_Sigma_e_pg(eps, groupElem=g))))
                return out
            if base == "inelastic" and tensor == "Strain":
                u = st[simu.Get_problemTypes()[0]][0]
                return [unmandel(np.asarray(simu._Calc_Epsilon_e_pg(u, g))) for g in mesh.Get_list_groupElem(mesh.dim)]
            if base == "hyperelastic":
                out = []
                for g in mesh.Get_list_groupElem(mesh.dim):
                    f = np.asarray(simu._Calc_GreenLagrange(groupElem=g) if tensor == "Strain" else simu._Calc_SecondPiolaKirchhoff(groupElem=g))
                    f = unmandel(f)
                    if f.shape[-1] == 6 and mesh.dim == 2:
                        f = f[..., [NAMES3.index(n) for n in NAMES2]]
                    out.append(f)
                return out
    except Exception:  # noqa: BLE001
        return None
    return None


# ------------------------------------------------------------------------------------------
def run_stored(case, ctx, rng, simu, info, key0):
    """Results of stored iterations read back in any order through Result(name, iter=i): each must be the result of THAT
    state - the same value a brand-new simulation holding only that state reports (a new object has assembled nothing, so
    nothing it reports can come from another state)."""
    key = key0 + "/stored-iterations"
    n_it = 3
    states = []
    # a simulation that has solved nothing yet stores its initial state, and every advertised result of that iteration can be read
    with ctx.monitored("no-exception", key + "/raised (Save_Iter before any Solve)"):
        with quiet():
            virgin, _ = build(case, np.random.default_rng([case["seed"], NUM, case["index"]]))
            virgin.Save_Iter()
            for nm in virgin.Results_Available():
                if nm != "displacement_matrix":
                    val = virgin.Result(nm, iter=0)
                    ctx.require("retrievable", val is not None, f"{key}/initial-state/{'none' if val is None else 'ok'}", name=nm)
    if info["base"] == "phasefield":
        # first, real load steps (load, load more, unload) with the staggered solver: the energy reported right after each Solve is
        # the one a brand-new simulation holding that displacement and that damage reports
        mesh_ = simu.mesh
        Xs = mesh_.coord
        used_ = gm.used_nodes(mesh_)
        xs_ = Xs[used_, 0]
        Lx_ = float(xs_.max() - xs_.min())
        n0_, nL_ = used_[np.abs(xs_ - xs_.min()) < 1e-9], used_[np.abs(xs_ - xs_.max()) < 1e-9]
        un_ = ["x", "y", "z"][: info["dim"]]
        with ctx.monitored("no-exception", key0 + "/after-solve/raised"):
            with quiet():
                for lam in (0.10, 0.16, 0.04, 0.12):
                    simu.Bc_Init()
                    simu.add_dirichlet(n0_, [0.0] * len(un_), un_)
                    simu.add_dirichlet(nL_, [lam * Lx_], ["x"])
                    u_, d_, _ = simu.Solve()
                    got = {nm: simu.Result(nm) for nm in ("Wdef", "Psi_Crack") if nm in simu.Results_Available()}
                    twin, _ = build(case, np.random.default_rng([case["seed"], NUM, case["index"]]))
                    twin._Set_solutions(twin.ProblemTypes.elastic, np.asarray(u_, float).copy())
                    twin._Set_solutions(twin.ProblemTypes.damage, np.asarray(d_, float).copy())
                    twin.Need_Update()
                    wref = float(twin.Result("Wdef"))
                    # (the stiffness kept after a converged staggered step may be the one of its last pass: it differs from K(d returned) by
                    # the last damage increment, observed <= 3e-6 relative; a stiffness of another state is off by orders of magnitude more)
                    ctx.check("energy", abs(float(got["Wdef"]) - wref) / max(abs(wref), 1e-300), 1e-3, f"{key0}/after-solve/Wdef", load=lam, solver=info.get("solver"),
                              damage_max=float(np.max(d_)))
                simu.Bc_Init()
    with ctx.monitored("no-exception", key + "/raised"):
        with quiet():
            for i in range(n_it):
                st, _ = set_state(simu, info, {"state": "random"}, rng)
                # rates are part of an iteration only for the schemes that use them
                keep = 3 if case["kind"] == "elastic-dyn" else (2 if case["kind"] == "thermal-dyn" else 1)
                for pt, (u, v, a) in list(st.items()):
                    vv = [u, v if keep >= 2 else np.zeros_like(v), a if keep >= 3 else np.zeros_like(a)]
                    st[pt] = tuple(vv)
                    simu._Set_solutions(pt, vv[0].copy(), vv[1].copy(), vv[2].copy())
                simu.Need_Update()
                # something is assembled and reported from this state before it is saved (as a load step would do)
                for nm in ("Wdef", "Psi_Crack", "Wkin"):
                    if nm in simu.Results_Available():
                        simu.Result(nm)
                simu.Save_Iter()
                states.append(st)
            # a twin per stored state
            refs = []
            # psiP / Psi_Crack of a phase-field simulation depend on the history field (the states seen before), which a new object lacks
            names = [n for n in simu.Results_Available() if n not in ("displacement_matrix", "psiP", "Psi_Crack")]
            for i in range(n_it):
                twin, _ = build(case, np.random.default_rng([case["seed"], NUM, case["index"]]))
                for pt, (u, v, a) in states[i].items():
                    twin._Set_solutions(pt, u.copy(), v.copy(), a.copy())
                twin.Need_Update()
                ref = {}
                for nm in names:
                    for nv in (True, False):
                        try:
                            ref[(nm, nv)] = copy.deepcopy(twin.Result(nm, nodeValues=nv))
                        except Exception as e:  # noqa: BLE001 - availability is judged by the other scenarios
                            ref[(nm, nv)] = ("raised", type(e).__name__)
                refs.append(ref)
            order = [0, 2, 1, 0, 2] if case["index"] % 2 else list(rng.permutation(n_it)) + [int(rng.integers(n_it))]
            n = 0
            for i in order:
                for nm in names:
                    nv = bool(rng.integers(2))
                    want = refs[i][(nm, nv)]
                    if isinstance(want, tuple) or want is None:
                        continue
                    got = simu.Result(nm, nodeValues=nv, iter=int(i))
                    w = np.asarray(want, float)
                    g = np.asarray(got, float) if got is not None else np.full(w.shape, np.nan)
                    scalar = w.ndim == 0
                    fam = "scalar" if scalar else "field"
                    ctx.check("result-of-stored-iteration", relerr(g.reshape(w.shape), w, scale=np.abs(w).max() + 1e-300) if g.size == w.size else np.inf, 1e-9,
                              f"{key}/{fam}", name=nm, nodeValues=nv, iteration=int(i), order=[int(x) for x in order])
                    n += 1
    ctx.event(f"stored-results-read:{n}")


def run_beam(case, ctx, rng, simu, info, P, U, names, seen):
    key0 = P.key0
    dim = info["dim"]
    dofnames = {1: ["ux"], 2: ["ux", "uy", "rz"], 3: ["ux", "uy", "uz", "rx", "ry", "rz"]}[dim]
    fnames = {1: ["fx"], 2: ["fx", "fy", "cz"], 3: ["fx", "fy", "fz", "cx", "cy", "cz"]}[dim]
    Nn = P.Nn
    seen.add("displacement")
    P.nodal("displacement", U, family="vector")
    for i, n in enumerate(dofnames):
        if n in names:
            seen.add(n)
            P.nodal(n, U[:, i])
    if "displacement_matrix" in names:
        seen.add("displacement_matrix")
        M = np.zeros((Nn, 3))
        M[:, :min(dim, 3)] = U[:, :min(dim, 3)] if dim > 1 else U[:, :1]
        P.nodal("displacement_matrix", M, family="vector")
        if "displacement_norm" in names:
            seen.add("displacement_norm")
            P.nodal("displacement_norm", np.linalg.norm(M, axis=1))
    with quiet():
        K = simu.Get_K_C_M_F()[0]
    nd = Nn * len(dofnames)
    F = (K.tocsr()[:nd, :nd] @ U.ravel()).reshape(Nn, -1)
    for i, n in enumerate(fnames):
        if n in names:
            seen.add(n)
            P.nodal(n, F[:, i], family="force=Ku")
    # generalised strains / internal forces / stresses: components of the simulation's own Gauss-point fields
    try:
        with quiet():
            eps = np.asarray(simu._Calc_Epsilon_e_pg(U.ravel()))
            frc = np.asarray(simu._Calc_InternalForces_e_pg(simu._Calc_Epsilon_e_pg(U.ravel())))
            sig = np.asarray(simu._Calc_Sigma_e_pg(simu._Calc_Epsilon_e_pg(U.ravel())))
    except Exception as e:  # noqa: BLE001
        ctx.require("tensor-component", False, key0 + "/gauss-fields/raised", raised=type(e).__name__, message=str(e)[:200])
        return
    dnames = {1: ["ux'"], 2: ["ux'", "rz'"], 3: ["ux'", "rx'", "ry'", "rz'"]}[dim]
    for i, n in enumerate(dnames):
        if n in names:
            seen.add(n)
            P.elemental(n, eps[:, :, i].mean(axis=1), family="generalised-strain")
    inames = {1: ["N"], 2: ["N", "Mz"], 3: ["N", "Mx", "My", "Mz"]}[dim]
    for i, n in enumerate(inames):
        if n in names:
            seen.add(n)
            P.elemental(n, frc[:, :, i].mean(axis=1), family="internal-force")
    snames = {1: ["Sxx"], 2: ["Sxx", "Syy", "Sxy"], 3: ["Sxx", "Syy", "Szz", "Syz", "Sxz", "Sxy"]}[dim]
    for i, n in enumerate(snames):
        if n in names:
            seen.add(n)
            P.elemental(n, sig[:, :, i].mean(axis=1), family="section-stress")
    for n in ("Ty", "Tz"):
        if n in names:
            seen.add(n)
            scalar_or_field(P, ctx, key0, n)


# ------------------------------------------------------------------------------------------
def run_frame_reaction(case, ctx, rng, key0):
    """L-shaped frame of two members welded by `add_connection_fixed` (the assembled matrices carry multiplier rows), clamped at
    one end, loaded at the other: `Calc_Reaction` at the clamp and the nodal-force results balance the tip load (forces, and the
    moment about the clamp)."""
    from EasyFEA import ElemType, Mesher
    from EasyFEA.Geoms import Line, Point
    from . import _beam_common as bcm

    dim, et, theory = case["dim"], case["et"], case["theory"]
    L1, L2 = float(rng.uniform(1, 2)), float(rng.uniform(1, 2))
    with ctx.monitored("no-exception", key0 + "/build/raised"):
        with quiet():
            l1 = Line(Point(0, 0), Point(L1, 0), L1 / 3)
            l2 = Line(Point(L1, 0), Point(L1, L2), L2 / 3)
            beams = [Models.Beam.Isotropic(dim, l, bcm.rect_section(0.1, 0.2), 1e4, 0.3) for l in (l1, l2)]
            mesh = Mesher().Mesh_Beams(beams, elemType=ElemType(et))
            simu = Simulations.Beam(mesh, Models.Beam.BeamStructure(beams), useTimoshenko=(theory == "Timo"))
            mesh = simu.mesh
            clamp, corner, tip = (mesh.Nodes_Point(Point(*p)) for p in ((0, 0), (L1, 0), (L1, L2)))
            un = simu.Get_unknowns()
            simu.add_dirichlet(clamp, [0.0] * len(un), un)
            simu.add_connection_fixed(corner)
            F = rng.uniform(-2, 2, dim)
            names = ["x", "y", "z"][:dim]
            simu.add_neumann(tip, [float(x) for x in F], names)
            simu.Solve()
    dof_n = len(un)
    with ctx.monitored("no-exception", key0 + "/Calc_Reaction-with-connection/raised"):
        with quiet():
            dofs0 = simu.Bc_dofs_nodes(clamp, un)
            R = np.asarray(simu.Calc_Reaction(dofs0), float).reshape(len(clamp), dof_n).sum(axis=0)
        ctx.check("reaction", float(np.abs(R[:dim] + F).max()) / np.abs(F).max(), 1e-8, key0 + "/balance/force")
        # moment about the clamp (z component): the tip sits at (L1, L2)
        mz = L1 * F[1] - L2 * F[0]
        ctx.check("reaction", abs(R[un.index("rz")] + mz) / max(abs(mz), 1e-300), 1e-8, key0 + "/balance/moment")
    with ctx.monitored("no-exception", key0 + "/nodal-forces/raised"):
        with quiet():
            fx, fy = (np.asarray(simu.Result(n, True), float) for n in ("fx", "fy"))
        ctx.check("reaction", max(abs(fx[clamp].sum() + F[0]), abs(fy[clamp].sum() + F[1])) / np.abs(F).max(), 1e-8, key0 + "/balance/nodal-force-results")
    ctx.describe(f"frame/{dim}D/{et}/{theory}/reaction", True, kind="frame", et=et, theory=theory, n_lagrange=len(simu.Bc_Lagrange))


def run_equilibrium(case, ctx, rng, simu, info, key0):
    """Fully constrained boundary + loads elsewhere: the reactions balance the applied loads."""
    base, dim = info["base"], info["dim"]
    mesh = simu.mesh
    X = mesh.coord
    used = gm.used_nodes(mesh)
    xs = X[used, 0]
    n0 = used[np.abs(xs - xs.min()) < 1e-9]
    rest = np.setdiff1d(used, n0)
    with ctx.monitored("no-exception", key0 + "/equilibrium/raised"):
        with quiet():
            if base == "beam":
                un = simu.Get_unknowns()
                L = info["L"]
                nL = used[np.abs(xs - xs.max()) < 1e-9]
                simu.add_dirichlet(n0, [0.0] * len(un), un)
                load = {}
                for d in (["x"] if dim == 1 else ["x", "y"] if dim == 2 else ["x", "y", "z"]):
                    load[d] = float(rng.uniform(-2, 2))
                    simu.add_neumann(nL, [load[d]], [d])
                simu.Solve()
                res = {n: np.asarray(simu.Result(n, True), float) for n in ({1: ["fx"], 2: ["fx", "fy", "cz"], 3: ["fx", "fy", "fz", "cx", "cy", "cz"]}[dim])}
                for d in load:
                    ctx.check("reaction", abs(res["f" + d][n0].sum() + load[d]) / max(abs(load[d]), 1e-300), 1e-8, f"{key0}/balance/force")
                    ctx.check("reaction", abs(res["f" + d][nL].sum() - load[d]) / max(abs(load[d]), 1e-300), 1e-8, f"{key0}/balance/applied-node")
                if dim >= 2:
                    # clamp moment about z balances the transverse tip load: cz(clamp) = -Fy * L
                    ctx.check("reaction", abs(res["cz"][n0].sum() + load["y"] * L) / max(abs(load["y"] * L), 1e-300), 1e-8, f"{key0}/balance/moment")
                if dim == 3:
                    ctx.check("reaction", abs(res["cy"][n0].sum() - load["z"] * L) / max(abs(load["z"] * L), 1e-300), 1e-8, f"{key0}/balance/moment")
                # internal forces of the statically determinate cantilever: every cross-section carries the tip load (same sign convention
                # for the normal force and for both shear forces, whatever the beam theory)
                for nm, d in (("N", "x"), ("Ty", "y"), ("Tz", "z")):
                    if d in load and nm in simu.Results_Available():
                        v_ = np.asarray(simu.Result(nm, nodeValues=False), float)
                        ctx.check("reaction", float(np.abs(v_ - load[d]).max()) / max(abs(load[d]), 1e-300), 1e-7, f"{key0}/balance/internal-force-{nm}")
                return
            if base == "elastic":
                un = simu.Get_unknowns()
                simu.add_dirichlet(n0, [0.0] * dim, un)
                tot = np.zeros(dim)
                nodes = rng.choice(rest, size=min(4, len(rest)), replace=False)
                for d in range(dim):
                    val = float(rng.uniform(-1, 1))
                    simu.add_neumann(nodes, [val], [un[d]])  # a nodal load is shared between the nodes given: the total is the value
                    tot[d] += val
                # (loads on free nodes only: Calc_Reaction returns K u, which contains the load wherever one is applied)
                simu.Solve()
                if case["kind"].endswith("dyn"):
                    # one more step so that v, a are non-zero: the balance then includes inertia and damping
                    simu.Solve()
                dofs0 = simu.Bc_dofs_nodes(n0, un)
                R = np.asarray(simu.Calc_Reaction(dofs0)).reshape(len(n0), dim) if False else None
                Rfull = np.zeros(mesh.Nn * dim)
                Rfull[dofs0] = np.asarray(simu.Calc_Reaction(dofs0))
                Rsum = Rfull.reshape(mesh.Nn, dim).sum(axis=0)
                if case["kind"].endswith("dyn"):
                    K, C, M, _ = simu.Get_K_C_M_F()
                    pt = simu.problemType
                    # K u + C v + M a = F + lambda and t'K u = 0 for a rigid translation t: sum(lambda) = sum(C v + M a) - sum(F)
                    inert = (C @ simu._Get_v_n(pt) + M @ simu._Get_a_n(pt))
                    tot = tot - inert.reshape(mesh.Nn, dim).sum(axis=0)
                ctx.check("reaction", relerr(Rsum, -tot, scale=np.abs(tot).max()), 1e-8, f"{key0}/balance/force")
                return
            if base == "thermal":
                simu.add_dirichlet(n0, [0.0], ["t"])
                nodes = rng.choice(rest, size=min(5, len(rest)), replace=False)
                r = float(rng.uniform(0.5, 2))
                simu.add_neumann(nodes, [r], ["t"])
                tot = r
                simu.Solve()
                dofs0 = simu.Bc_dofs_nodes(n0, ["t"])
                if case["kind"].endswith("dyn"):
                    simu.Solve()
                    K, C, M, _ = simu.Get_K_C_M_F()
                    tot = tot - float((C @ simu._Get_v_n(simu.problemType)).sum())
                Rsum = float(np.asarray(simu.Calc_Reaction(dofs0)).sum())
                ctx.check("reaction", abs(Rsum + tot) / abs(tot), 1e-8, f"{key0}/balance/flux")
