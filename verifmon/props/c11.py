"""C11 — linear elastic laws are SPD, mutually inverse, notation- and frame-consistent.

Oracle: independent tensor algebra (ref.tensors): textbook compliance from engineering constants, Kelvin <->
full (3,3,3,3) tensor conversion, rotation by einsum, plane-stress / plane-strain reductions, Voigt <->
Kelvin-Mandel scaling, fresh-object comparison after parameter writes.
"""

from __future__ import annotations

import numpy as np

from EasyFEA import Models
from EasyFEA.Models._utils import Apply_Pmat, Get_Pmat

from . import _suite
from ..core import Ctx, quiet, relerr
from ..gen import materials as gmat
from ..ref import tensors as T

PROP = "C11"
NUM = 11
RULE = (
    "cases = (law class, dimension and 2-D simplification, axis class orthonormal / orthogonal-unnormalised / default, "
    "parameter form homogeneous / (Ne,) / (Ne,nPg), scenario law / notation / pmat / update-sequence / walpole) x seeded "
    "admissible moduli and axes. Signature = (scenario, law, dim, planeStress, axis class, parameter form). Non-trivial iff "
    "the law is anisotropic or the axes are not the default ones, or a parameter write is involved."
)
ASSUMPTIONS = [
    "moduli ratios <= 20, Poisson ratios bounded away from the admissibility limits (compliance eigenvalue ratio <= 20)",
    "constructor rejections (AssertionError from the law's own admissibility checks) are not failures and are counted",
    "Kelvin-Mandel ordering [11,22,33,sqrt2*23,sqrt2*13,sqrt2*12]; relative tolerance 1e-10",
]
TIMEOUT_CASE = 120
MIN_EVALS = {"C-spd": 50, "C-times-S": 50, "C-matches-reference": 50, "plane-reduction": 20, "voigt-vs-mandel": 8, "pmat-orthogonal": 12,
             "axes-any-length": 15, "update-matches-fresh": 15, "heterogeneous-slices": 4}
REQUIRED_COVERAGE = ["Get_Pmat", "Apply_Pmat", "Apply_basis_transformation", "KelvinMandel_Matrix", "Aniso_Behavior"]
TOL = 1e-10


def anchors():
    from EasyFEA.Models import _utils
    from EasyFEA.Models.Elastic import _laws

    return [
        ("Get_Pmat", _utils, "Get_Pmat"), ("Apply_Pmat", _utils, "Apply_Pmat"), ("KelvinMandel_Matrix", _utils, "KelvinMandel_Matrix"),
        ("Apply_basis_transformation", _laws._Elastic, "_Apply_basis_transformation"),
        ("Iso_Behavior", _laws.Isotropic, "_Behavior"), ("Trans_Behavior", _laws.TransverselyIsotropic, "_Behavior"),
        ("Ortho_Behavior", _laws.Orthotropic, "_Behavior"), ("Aniso_Behavior", _laws.Anisotropic, "_Behavior"),
    ]


def cases(tier: str, seed: int) -> list[dict]:
    out = []
    rep = 2 if tier == "quick" else 40
    for r in range(rep):
        for kind in ["iso", "trans", "ortho"]:
            for dim, ps in [(3, False), (2, True), (2, False)]:
                for axes in ["default", "orthonormal", "unnormalised", "axis1-on-x", "axis2-on-y"]:
                    out.append({"sc": "law", "kind": kind, "dim": dim, "ps": ps, "axes": axes})
                if dim == 2 and kind != "iso":
                    # a 2-D model of a material whose axes leave the plane (a generic 3-D frame): the out-of-plane shear couples in
                    out.append({"sc": "law", "kind": kind, "dim": 2, "ps": ps, "axes": "out-of-plane"})
            out.append({"sc": "hetero", "kind": kind, "dim": [3, 2][r % 2], "ps": bool(r % 2), "form": ["Ne", "NePg"][r % 2]})
            out.append({"sc": "update", "kind": kind, "dim": [3, 2][r % 2], "ps": bool((r // 2) % 2)})
            out.append({"sc": "walpole", "kind": kind})
            # asked of a 2-D model (plane stress or plane strain): still the decomposition of the material's 3-D law
            out.append({"sc": "walpole", "kind": kind, "wdim": 2, "ps": bool(r % 2), "form": ["homog", "Ne"][(r // 2) % 2]})
            out.append({"sc": "walpole", "kind": kind, "axes": ["unnormalised", "default", "orthonormal"][r % 3], "form": ["Ne", "NePg", "homog"][(r // 3 + r) % 3]})
            out.append({"sc": "walpole", "kind": kind, "axes": "unnormalised", "form": ["homog", "Ne", "NePg"][r % 3]})
            out.append({"sc": "update", "kind": kind, "dim": [2, 3][r % 2], "ps": bool(r % 2), "inplace": True})
        for dim in (2, 3):
            for axes in ["default", "orthonormal", "unnormalised"]:
                out.append({"sc": "aniso", "dim": dim, "axes": axes, "notation": ["voigt", "mandel"][r % 2], "form": ["homog", "Ne", "NePg"][r % 3]})
            if r == 0:
                # every (notation, field form) pair once per dimension
                for notation in ("voigt", "mandel"):
                    for form in ("homog", "Ne", "NePg"):
                        out.append({"sc": "aniso", "dim": dim, "axes": ["orthonormal", "unnormalised"][len(out) % 2], "notation": notation, "form": form})
            out.append({"sc": "update", "kind": "aniso", "dim": dim, "ps": False})
        for adim in (2, 3):
            for axes in ["orthonormal", "unnormalised", "per-element", "per-gauss-point"]:
                out.append({"sc": "pmat", "adim": adim, "axes": axes, "mandel": bool(r % 2)})
    for i, c in enumerate(out):
        c["id"] = f"C11-{i:05d}-{c['sc']}-{c.get('kind', '')}-{c.get('dim', c.get('adim'))}-{c.get('axes', c.get('form', ''))}"
        c["index"] = i
    for c in _suite.suite_cases(PROP, tier):
        c["index"] = len(out)
        out.append(c)
    return out


def _axes(rng, dim, cls):
    if cls == "default":
        return np.array([1.0, 0, 0]), np.array([0, 1.0, 0]), np.eye(3)
    if cls in ("axis1-on-x", "axis2-on-y"):
        # the material turned about one global axis: ONE of the two axes coincides with a global axis (any length), the other does not
        th = float(rng.uniform(0.3, 2.8))
        if dim == 2:
            a1, a2 = (np.array([1.0, 0, 0]), np.array([0, -1.0, 0])) if cls == "axis1-on-x" else (np.array([-1.0, 0, 0]), np.array([0, 1.0, 0]))
        elif cls == "axis1-on-x":
            a1, a2 = np.array([1.0, 0, 0]), np.array([0, np.cos(th), np.sin(th)])
        else:
            a1, a2 = np.array([np.cos(th), 0, np.sin(th)]), np.array([0, 1.0, 0])
        P = T.frame(a1, a2)
        return a1 * float(rng.uniform(0.2, 5)), a2 * float(rng.uniform(0.2, 5)), P
    a1, a2 = gmat.random_axes(rng, 3 if cls == "out-of-plane" else dim)
    P = T.frame(a1, a2)
    if cls == "unnormalised":
        a1, a2 = a1 * float(rng.uniform(0.2, 5)), a2 * float(rng.uniform(0.2, 5))
    return a1, a2, P


def _make(kind, dim, p, a1, a2, ps, th=1.0):
    E = Models.Elastic
    if kind == "iso":
        return E.Isotropic(dim, planeStress=ps, thickness=th, **p)
    if kind == "trans":
        return E.TransverselyIsotropic(dim, axis_l=a1, axis_t=a2, planeStress=ps, thickness=th, **p)
    if kind == "ortho":
        return E.Orthotropic(dim, axis_1=a1, axis_2=a2, planeStress=ps, thickness=th, **p)
    raise ValueError(kind)


def _expected_C(kind, p, P, dim, ps):
    C3 = T.rotate_km(np.linalg.inv(T.compliance_material(kind, p)), P)
    return C3 if dim == 3 else T.reduce_2d(C3, ps), C3


def _basic_law_checks(ctx, C, S, key):
    n = C.shape[-1]
    lam = np.linalg.eigvalsh(0.5 * (C + np.swapaxes(C, -1, -2)))
    ctx.check("C-symmetric", float(np.abs(C - np.swapaxes(C, -1, -2)).max() / np.abs(C).max()), 1e-12, key + "/C-symmetric")
    ctx.check("C-spd", max(0.0, float(-(lam.min(-1) / lam.max(-1)).min()) + 1e-9), 1e-9, key + "/C-spd", lam_min=float(lam.min()), lam_max=float(lam.max()))
    ctx.check("C-times-S", float(np.abs(C @ S - np.eye(n)).max()), 1e-10, key + "/C-times-S")


def run_case(case: dict, ctx: Ctx) -> None:
    if case.get("fam") == "suite":
        return _suite.run_suite(case, ctx, PROP)
    rng = np.random.default_rng([case["seed"], NUM, case["index"]])
    {"law": run_law, "aniso": run_aniso, "pmat": run_pmat, "update": run_update, "hetero": run_hetero, "walpole": run_walpole}[case["sc"]](case, ctx, rng)


def run_law(case, ctx, rng):
    kind, dim, ps, axcls = case["kind"], case["dim"], case["ps"], case["axes"]
    key = f"C11/{kind}/{dim}D/ps={ps}/{axcls}"
    ctx.default_key = key
    p = gmat.law_params(rng, kind)
    a1, a2, P = _axes(rng, dim, axcls)
    try:
        with ctx.monitored("no-exception", key + "/raised", expect=(AssertionError,)):
            with quiet():
                law = _make(kind, dim, p, a1, a2, ps)
                C, S = np.asarray(law.C), np.asarray(law.S)
    except AssertionError as e:
        ctx.event("constructor-rejection")
        ctx.describe(f"law/{kind}/rejected", False, rejected=str(e)[:100])
        return
    want, C3 = _expected_C(kind, p, P, dim, ps)
    _basic_law_checks(ctx, C, S, key)
    ctx.check("C-matches-reference", relerr(C, want), TOL, key + "/C-vs-reference", params=p)
    if dim == 2:
        # the 2-D law is the reduction of the 3-D law of the same material (real 3-D object as second witness)
        with quiet():
            law3 = _make(kind, 3, p, a1, a2, False)
        ctx.check("plane-reduction", relerr(C, T.reduce_2d(np.asarray(law3.C), ps)), TOL, key + "/plane-reduction")
    if axcls == "unnormalised":
        with quiet():
            lawn = _make(kind, dim, p, a1 / np.linalg.norm(a1), a2 / np.linalg.norm(a2), ps)
        ctx.check("axes-any-length", relerr(C, np.asarray(lawn.C)), TOL, key + "/axes-any-length")
    ctx.describe(f"law/{kind}/{dim}D/ps={ps}/{axcls}", kind != "iso" or axcls != "default", kind=kind, dim=dim, planeStress=ps, axes=axcls, params=p)


def run_aniso(case, ctx, rng):
    dim, axcls, notation, form = case["dim"], case["axes"], case["notation"], case["form"]
    key = f"C11/aniso/{dim}D/{notation}/{axcls}/{form}"
    ctx.default_key = key
    n = 3 if dim == 2 else 6
    Ne, nPg = 3, 2
    lead = {"homog": (), "Ne": (Ne,), "NePg": (Ne, nPg)}[form]
    Ckm = np.empty(lead + (n, n))
    for idx in np.ndindex(*lead) if lead else [()]:
        Ckm[idx] = gmat.random_spd(rng, n)
    w = np.array([1, 1, T.R2]) if n == 3 else T.W
    Cin = Ckm / np.outer(w, w) if notation == "voigt" else Ckm
    a1, a2, P = _axes(rng, dim, axcls)
    with ctx.monitored("no-exception", key + "/raised"):
        with quiet():
            law = Models.Elastic.Anisotropic(dim, Cin, notation == "voigt", axis1=a1, axis2=a2)
            C, S = np.asarray(law.C), np.asarray(law.S)
    worst = 0.0
    for idx in np.ndindex(*lead) if lead else [()]:
        if dim == 3:
            want = T.rotate_km(Ckm[idx], P)
        else:
            C6 = np.zeros((6, 6))
            C6[np.ix_(T.IDX2D, T.IDX2D)] = Ckm[idx]
            want = T.rotate_km(C6, P)[np.ix_(T.IDX2D, T.IDX2D)]
        worst = max(worst, relerr(C[idx], want))
    _basic_law_checks(ctx, C, S, key)
    ctx.check("C-matches-reference", worst, TOL, key + "/C-vs-reference")
    # the same material entered in the other notation must give the same law
    with ctx.monitored("no-exception", key + "/raised"):
        with quiet():
            other = Models.Elastic.Anisotropic(dim, Ckm if notation == "voigt" else Ckm / np.outer(w, w), notation != "voigt", axis1=a1, axis2=a2)
    ctx.check("voigt-vs-mandel", relerr(np.asarray(other.C), C), TOL, key + "/voigt-vs-mandel")
    if axcls == "unnormalised":
        with quiet():
            lawn = Models.Elastic.Anisotropic(dim, Cin, notation == "voigt", axis1=a1 / np.linalg.norm(a1), axis2=a2 / np.linalg.norm(a2))
        ctx.check("axes-any-length", relerr(C, np.asarray(lawn.C)), TOL, key + "/axes-any-length")
    ctx.describe(f"aniso/{dim}D/{notation}/{axcls}/{form}", True, dim=dim, notation=notation, axes=axcls, form=form)


def run_pmat(case, ctx, rng):
    adim, axcls, mandel = case["adim"], case["axes"], case["mandel"]
    key = f"C11/pmat/{adim}D/{axcls}/mandel={mandel}"
    ctx.default_key = key
    Ne, nPg = 3, 2
    lead = {"per-element": (Ne,), "per-gauss-point": (Ne, nPg)}.get(axcls, ())
    A1 = np.empty(lead + (adim,))
    A2 = np.empty(lead + (adim,))
    Ps = np.empty(lead + (3, 3))
    for idx in np.ndindex(*lead) if lead else [()]:
        a1, a2 = gmat.random_axes(rng, 2 if adim == 2 else 3)
        Ps[idx] = T.frame(a1, a2)
        s1, s2 = (float(rng.uniform(0.2, 5)), float(rng.uniform(0.2, 5))) if axcls != "orthonormal" else (1.0, 1.0)
        A1[idx], A2[idx] = (a1 * s1)[:adim], (a2 * s2)[:adim]
    with ctx.monitored("no-exception", key + "/raised"):
        res = Get_Pmat(A1, A2, useMandel=mandel)
    n = 3 if adim == 2 else 6
    idx2 = T.IDX2D if adim == 2 else np.arange(6)
    worst_orth = worst_ref = 0.0
    for idx in np.ndindex(*lead) if lead else [()]:
        want = T.pmat_km(Ps[idx])[np.ix_(idx2, idx2)]
        if mandel:
            Pm = np.asarray(res)[idx]
            worst_orth = max(worst_orth, float(np.abs(Pm @ Pm.T - np.eye(n)).max()))
            worst_ref = max(worst_ref, relerr(Pm, want))
        else:
            Psig, Peps = np.asarray(res[0])[idx], np.asarray(res[1])[idx]
            worst_orth = max(worst_orth, float(np.abs(Psig @ Peps.T - np.eye(n)).max()))  # inv(Ps) = Pe^T
            w = (np.array([1, 1, T.R2]) if adim == 2 else T.W)
            # Voigt matrices from the Kelvin-Mandel one: Ps = D^-1 Pm D with D = diag(w) ... checked through the stress map
            worst_ref = max(worst_ref, relerr(Psig, want * np.outer(1 / w, w)), relerr(Peps, want * np.outer(w, 1 / w)))
    ctx.check("pmat-orthogonal", worst_orth, 1e-10, key + "/orthogonal")
    ctx.check("pmat-matches-reference", worst_ref, 1e-10, key + "/reference")
    if mandel:
        # Apply_Pmat round trip and rotation of a random SPD matrix
        Pm = np.asarray(res)
        M = gmat.random_spd(rng, n)
        with ctx.monitored("no-exception", key + "/raised"):
            G = Apply_Pmat(Pm, M, toGlobal=True)
            back = Apply_Pmat(Pm, G, toGlobal=False)
        worst = 0.0
        for idx in np.ndindex(*lead) if lead else [()]:
            M6 = np.zeros((6, 6))
            M6[np.ix_(idx2, idx2)] = M
            want = T.rotate_km(M6, Ps[idx])[np.ix_(idx2, idx2)] if adim == 3 else None
            if want is not None:
                worst = max(worst, relerr(G[idx], want))
            worst = max(worst, relerr(back[idx], M))
        ctx.check("apply-pmat", worst, 1e-10, key + "/apply")
    ctx.describe(f"pmat/{adim}D/{axcls}/mandel={mandel}", True, adim=adim, axes=axcls, mandel=mandel)


def _random_write(rng, kind, law, p):
    """One admissible parameter write; returns the updated parameter dict."""
    p = dict(p)
    if kind == "aniso":
        return p
    name = str(rng.choice(list(p)))
    # ordinary changes, and changes as small as a finite-difference step (1e-8 .. 1e-5 relative): every change counts
    factor = float(rng.uniform(0.8, 1.25)) if rng.random() < 0.5 else 1.0 + float(rng.choice([-1, 1])) * 10 ** float(rng.uniform(-8, -5))
    new = p[name] * factor
    if name.startswith("v"):
        new = float(np.clip(new, 0.0, 0.35))
    setattr(law, name, new)
    p[name] = new
    return p


def run_update_inplace(case, ctx, rng):
    """Array-valued parameters written through the caller's own array: the array is updated in place and assigned again
    (the same object carries new content), or a new array with new content is assigned; the law read next must be the
    law of the content now held."""
    kind, dim, ps = case["kind"], case["dim"], case["ps"]
    key = f"C11/update/{kind}/{dim}D/array-parameter"
    ctx.default_key = key
    a1, a2, P = _axes(rng, dim, "orthonormal")
    p = gmat.law_params(rng, kind)
    shape = [(4,), (4, 3)][int(rng.integers(2))]
    names = [k for k in p if not k.startswith("v")]
    name = names[int(rng.integers(len(names)))]
    arr = p[name] * rng.uniform(0.8, 1.25, shape)
    ph = dict(p)
    ph[name] = arr
    nw = 0
    try:
        with ctx.monitored("no-exception", key + "/raised", expect=(AssertionError,)):
            with quiet():
                law = _make(kind, dim, ph, a1, a2, ps)
                _ = law.C, law.S
                for step in range(int(rng.integers(2, 5))):
                    mode = ["same-object", "equal-then-changed", "new-object"][int(rng.integers(3))]
                    if mode == "same-object":
                        arr *= rng.uniform(0.7, 1.4, shape)
                        setattr(law, name, arr)
                    elif mode == "equal-then-changed":
                        setattr(law, name, arr.copy())          # equal content: same law
                        _ = law.C
                        arr = arr * rng.uniform(0.7, 1.4, shape)
                        setattr(law, name, arr)
                    else:
                        arr = arr * rng.uniform(0.7, 1.4, shape)
                        setattr(law, name, arr)
                    nw += 1
                    q = dict(p)
                    q[name] = arr.copy()
                    fresh = _make(kind, dim, q, a1, a2, ps)
                    ctx.check("update-matches-fresh", relerr(np.asarray(law.C), np.asarray(fresh.C)), 1e-13, key + "/C", step=step, mode=mode, param=name)
                    ctx.check("update-matches-fresh", relerr(np.asarray(law.S), np.asarray(fresh.S)), 1e-13, key + "/S", step=step, mode=mode, param=name)
                    ctx.check("parameter-read-back", relerr(np.asarray(getattr(law, name)), arr), 0.0, key + "/read-back", mode=mode)
    except AssertionError:
        ctx.event("constructor-rejection")
    ctx.describe(f"update/{kind}/{dim}D/array-parameter/{len(shape)}", nw > 0, kind=kind, dim=dim, writes=nw, form=["Ne", "NePg"][len(shape) - 1])


def run_update(case, ctx, rng):
    if case.get("inplace"):
        return run_update_inplace(case, ctx, rng)
    kind, dim, ps = case["kind"], case["dim"], case["ps"]
    key = f"C11/update/{kind}/{dim}D"
    ctx.default_key = key
    a1, a2, P = _axes(rng, dim, "orthonormal")
    if kind == "aniso":
        n = 3 if dim == 2 else 6
        C0, C1 = gmat.random_spd(rng, n), gmat.random_spd(rng, n)
        with ctx.monitored("no-exception", key + "/raised"):
            with quiet():
                law = Models.Elastic.Anisotropic(dim, C0, False, axis1=a1, axis2=a2)
                _ = law.C
                law.Set_C(C1, False)
                fresh = Models.Elastic.Anisotropic(dim, C1, False, axis1=a1, axis2=a2)
        ctx.check("update-matches-fresh", relerr(np.asarray(law.C), np.asarray(fresh.C)), 1e-13, key + "/Set_C")
        ctx.check("update-matches-fresh", relerr(np.asarray(law.S), np.asarray(fresh.S)), 1e-13, key + "/Set_C-S")
        ctx.describe(f"update/aniso/{dim}D", True, kind=kind)
        return
    p = gmat.law_params(rng, kind)
    if rng.random() < 0.3:
        # another unit system (N/Angstrom^2 ...): moduli of order 1e-9
        p = {k: (v * 1e-9 if not k.startswith("v") else v) for k, v in p.items()}
    nw = 0
    try:
        with ctx.monitored("no-exception", key + "/raised", expect=(AssertionError,)):
            with quiet():
                law = _make(kind, dim, p, a1, a2, ps)
                _ = law.C
                for step in range(int(rng.integers(2, 6))):
                    reads = rng.integers(3)
                    p = _random_write(rng, kind, law, p)
                    if rng.random() < 0.3 and dim == 2:
                        ps = not ps
                        law.planeStress = ps
                    nw += 1
                    if reads == 0:
                        continue  # several writes before the next read
                    if dim == 3 and rng.random() < 0.5:
                        # the decomposition is the FIRST thing read after the write (before C or S)
                        try:
                            ci, Ei = law.Walpole_Decomposition()
                            rec = sum(np.asarray(c_, float)[..., None, None] * np.asarray(E_) for c_, E_ in zip(ci, Ei))
                            freshW = _make(kind, dim, p, a1, a2, ps)
                            ctx.check("update-matches-fresh", relerr(rec, np.asarray(freshW.C)), 1e-10, key + "/Walpole-read-first", step=step)
                        except AssertionError as e_:
                            ctx.require("update-matches-fresh", False, key + "/Walpole-read-first/assertion", message=str(e_)[:160], step=step)
                    got_C = np.asarray(law.C) if reads == 1 else None
                    got_S = np.asarray(law.S)
                    fresh = _make(kind, dim, p, a1, a2, ps)
                    if got_C is not None:
                        ctx.check("update-matches-fresh", float(np.abs(got_C - np.asarray(fresh.C)).max() / np.abs(got_C).max()), 1e-14, key + "/C", step=step)
                    ctx.check("update-matches-fresh", relerr(got_S, np.asarray(fresh.S)), 1e-13, key + "/S", step=step)
                fresh = _make(kind, dim, p, a1, a2, ps)
                ctx.check("update-matches-fresh", relerr(np.asarray(law.C), np.asarray(fresh.C)), 1e-13, key + "/C-final")
    except AssertionError:
        ctx.event("constructor-rejection")
    ctx.describe(f"update/{kind}/{dim}D", nw > 0, kind=kind, dim=dim, writes=nw)


def run_hetero(case, ctx, rng):
    kind, dim, ps, form = case["kind"], case["dim"], case["ps"], case["form"]
    key = f"C11/hetero/{kind}/{dim}D/{form}"
    ctx.default_key = key
    Ne, nPg = 4, 3
    shape = (Ne,) if form == "Ne" else (Ne, nPg)
    p = gmat.law_params(rng, kind)
    name = [k for k in p if not k.startswith("v")][int(rng.integers(len([k for k in p if not k.startswith("v")])))]
    field = p[name] * rng.uniform(0.8, 1.25, shape)
    ph = dict(p)
    ph[name] = field
    a1, a2, P = _axes(rng, dim, "orthonormal")
    try:
        with ctx.monitored("no-exception", key + "/raised", expect=(AssertionError,)):
            with quiet():
                law = _make(kind, dim, ph, a1, a2, ps)
                C, S = np.asarray(law.C), np.asarray(law.S)
    except AssertionError:
        ctx.event("constructor-rejection")
        return
    ctx.require("heterogeneous-shape", C.shape[:-2] == shape, key + "/shape", got=list(C.shape))
    worst = 0.0
    for idx in np.ndindex(*shape):
        q = dict(p)
        q[name] = float(field[idx])
        want, _ = _expected_C(kind, q, P, dim, ps)
        worst = max(worst, relerr(C[idx], want), float(np.abs(C[idx] @ S[idx] - np.eye(C.shape[-1])).max()))
    ctx.check("heterogeneous-slices", worst, TOL, key + "/slices", param=name)
    ctx.describe(f"hetero/{kind}/{dim}D/{form}", True, kind=kind, form=form, param=name)


def run_walpole(case, ctx, rng):
    """C = sum ci Ei, for axes of any length (the basis tensors are built from the stored axis) and for homogeneous or
    per-element / per-Gauss-point parameters (the decomposition's own assertion only covers the homogeneous case)."""
    kind = case["kind"]
    axes = case.get("axes", "orthonormal")
    form = case.get("form", "homog")
    wdim = case.get("wdim", 3)
    key = f"C11/walpole/{kind}" + ("" if (axes, form) == ("orthonormal", "homog") else f"/{axes}/{form}") + (f"/2D-model/ps={case['ps']}" if wdim == 2 else "")
    ctx.default_key = key
    p = gmat.law_params(rng, kind)
    shape = {"homog": (), "Ne": (4,), "NePg": (4, 3)}[form]
    if shape:
        names = [k for k in p if not k.startswith("v")]
        name = names[int(rng.integers(len(names)))]
        p = dict(p)
        p[name] = p[name] * rng.uniform(0.8, 1.25, shape)
    a1, a2, P = _axes(rng, wdim, axes)
    try:
        with ctx.monitored("no-exception", key + "/raised", expect=(AssertionError,)):
            with quiet():
                law = _make(kind, wdim, p, a1, a2, bool(case.get("ps", False)))
                ci, Ei = law.Walpole_Decomposition()
                # (for a 2-D model the reference is the 3-D law of the same material, a second real object)
                C = np.asarray((law if wdim == 3 else _make(kind, 3, p, a1, a2, False)).C)
    except AssertionError as e:
        # the decomposition carries its own consistency assertion: a failure of that assertion is a failure of the decomposition
        ctx.require("walpole-sum", False, key + "/assertion", message=str(e)[:200])
        return
    rec = sum(np.asarray(c, float)[..., None, None] * np.asarray(E) for c, E in zip(ci, Ei))
    ctx.check("walpole-sum", relerr(np.broadcast_to(rec, C.shape), C), 1e-10, key + "/sum", axes=axes, form=form)
    ctx.describe(f"walpole/{kind}/{axes}/{form}", True, kind=kind, n_terms=len(ci), axes=axes, form=form)
