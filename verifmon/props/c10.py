"""C10 — frame indifference: a rigidly moved problem has the rigidly moved solution.

Oracle: twin execution. The moved problem P' is constructed here (mesh rebuilt from transformed coordinates or
moved with Mesh.Translate/Rotate/Symmetry; material axes, beam axes, Dirichlet and load vectors transformed);
the oracle is the algebraic relation between the two real solutions, plus closed-form member response for beams.
"""

from __future__ import annotations

import numpy as np

from EasyFEA import AlgoType, ElemType, Mesher, Models, Simulations
from EasyFEA.Geoms import Line, Point

from ..core import Ctx, quiet, relerr
from ..gen import materials as gmat
from ..gen import meshes as gm
from . import _beam_common as bcm
from . import _sims
from .c08 import _apply_motion

PROP = "C10"
NUM = 10
RULE = (
    "cases = (analysis: elastic / thermal / hyperelastic / beam, dimension, element type, law or beam theory, motion class "
    "proper / improper, construction of the moved problem rebuilt / moved-mesh-object, static / one dynamic step) x seeded "
    "rotations with generic angles, translations, reflections, material axes, loads. Signature = (analysis, dim, et, law, "
    "motion class, construction, dynamic). Non-trivial iff the reference solution is non-zero and the motion is not the identity."
)
ASSUMPTIONS = [
    "Dirichlet data are prescribed on all components of the constrained nodes so that the transformed constraint is expressible",
    "fully anisotropic (triclinic) laws are moved by proper rotations only (a reflection changes the handedness of the material frame)",
    "beam rotations / moments transform as axial vectors: theta' = det(Q) Q theta",
    "relative tolerance 1e-8 on solutions (direct solver, moderate conditioning), 1e-6 for hyperelastic Newton solutions",
]
TIMEOUT_CASE = 300
MIN_EVALS = {"vector-field-rotated": 30, "energy-invariant": 15, "scalar-field-invariant": 5, "beam-member-response": 12, "beam-closed-form": 6}
REQUIRED_COVERAGE = ["Compute_P_e_pg", "Calc_P", "Apply_basis_transformation", "Get_Pmat"]


def anchors():
    from EasyFEA.FEM.Elems import _beam as EB
    from EasyFEA.Models.Beam import _beam as MB
    from EasyFEA.Models.Elastic import _laws
    from EasyFEA.Models import _utils

    return [
        ("Compute_P_e_pg", EB._EulerBernoulli, "_Compute_P_e_pg"),
        ("Calc_P", MB._Beam, "_Calc_P"),
        ("Apply_basis_transformation", _laws._Elastic, "_Apply_basis_transformation"),
        ("Get_Pmat", _utils, "Get_Pmat"),
        ("Apply_Pmat", _utils, "Apply_Pmat"),
    ]


def cases(tier: str, seed: int) -> list[dict]:
    out = []
    rep = 1 if tier == "quick" else 6
    k = 0
    for r in range(rep):
        for et in ["TRI3", "TRI6", "QUAD4", "QUAD9", "TRI10", "QUAD8"]:
            for law in gmat.KINDS:
                out.append({"an": "elastic", "dim": 2, "et": et, "law": law, "improper": bool((k + r) % 2) and law != "aniso",
                            "constr": ["rebuilt", "moved"][(k // 2 + r) % 2], "dyn": (k % 5 == 0)})
                k += 1
        for et in ["TETRA4", "HEXA8", "PRISM6", "TETRA10"] + (["HEXA20", "PRISM15"] if tier == "thorough" else []):
            for law in gmat.KINDS:
                out.append({"an": "elastic", "dim": 3, "et": et, "law": law, "improper": bool((k + r) % 2) and law != "aniso",
                            "constr": ["rebuilt", "moved"][(k // 2 + r) % 2], "dyn": (k % 5 == 0)})
                k += 1
        for et in ["TRI3", "QUAD8", "TETRA4", "PRISM6", "SEG3"]:
            out.append({"an": "thermal", "dim": 1 if et.startswith("SEG") else (2 if et in gm.ET_2D else 3), "et": et, "improper": bool(k % 2),
                        "constr": ["rebuilt", "moved"][k % 2], "embedded": et in ("TRI3", "QUAD8", "SEG3")})
            k += 1
        for et, dim in [("TRI3", 2), ("QUAD4", 2), ("TETRA4", 3), ("HEXA8", 3)]:
            out.append({"an": "hyperelastic", "dim": dim, "et": et, "improper": bool(k % 2), "constr": "rebuilt"})
            k += 1
        # fibre-reinforced law: the fibre and sheet directions are part of the configuration and rotate with the body
        for et, dim, hl in [("TETRA4", 3, "holzapfel"), ("HEXA8", 3, "holzapfel"), ("TRI3", 2, "holzapfel"), ("TETRA4", 3, "mooney")]:
            out.append({"an": "hyperelastic", "dim": dim, "et": et, "improper": bool(k % 2), "constr": "rebuilt", "law": hl})
            k += 1
        for bdim in (2, 3):
            for theory in ("EB", "Timo"):
                for et in gm.ET_1D:
                    out.append({"an": "beam", "dim": bdim, "et": et, "theory": theory, "improper": bool(k % 2), "frame": (k % 3 == 0), "dyn": (k % 4 == 0)})
                    # the same with distributed loads along the members (consistent nodal loads of the member shape functions)
                    out.append({"an": "beam", "dim": bdim, "et": et, "theory": theory, "improper": not bool(k % 2), "frame": (k % 3 != 1), "dyn": (k % 4 == 1), "line": True})
                    k += 1
        # exact symmetries of the coordinate axes (quarter and half turns, mirror images, with or without an integer shift): the image
        # lies exactly on a global axis or plane again, possibly pointing the other way, so the mesh is recognised as 1-D / planar
        for bdim in (2, 3):
            for theory in ("EB", "Timo"):
                for j, et in enumerate(gm.ET_1D):
                    for improper in (False, True):
                        out.append({"an": "beam", "dim": bdim, "et": et, "theory": theory, "improper": improper, "frame": (j % 3 == 2), "dyn": False, "exact": True,
                                    "line": (j % 2 == 1), "shift": (k % 4 == 3)})
                        k += 1
        # a 3-D member turned about its own axis ON THE SAME OBJECTS (the section axes are re-assigned on the beam of an assembled
        # simulation, loads turned likewise): the response turns with it
        for theory in ("EB", "Timo"):
            for et in ("SEG2", "SEG3"):
                out.append({"an": "beam-turned", "dim": 3, "et": et, "theory": theory, "improper": False})
    for i, c in enumerate(out):
        c["id"] = f"C10-{i:05d}-{c['an']}-{c['dim']}d-{c['et']}-{c.get('law', c.get('theory', ''))}-{'improper' if c['improper'] else 'proper'}"
        c["index"] = i
    return out


def random_orthogonal(rng, dim, improper):
    Q = gm.random_rotation(rng, dim)
    if improper:
        # reflect through a random direction of the working space
        n = np.zeros(3)
        n[:dim] = rng.normal(size=dim)
        n /= np.linalg.norm(n)
        Q = Q @ (np.eye(3) - 2 * np.outer(n, n))
    return Q


def run_case(case: dict, ctx: Ctx) -> None:
    rng = np.random.default_rng([case["seed"], NUM, case["index"]])
    {"elastic": run_continuum, "thermal": run_thermal, "hyperelastic": run_continuum, "beam": run_beam, "beam-turned": run_beam_turned}[case["an"]](case, ctx, rng)


def _moved_mesh(rng, mesh, dim, improper, constr):
    """Returns (mesh', Q, t)."""
    if constr == "rebuilt":
        Q = random_orthogonal(rng, dim, improper)
        t = np.zeros(3)
        t[:dim] = rng.uniform(-2, 2, dim)
        return gm.rebuild(mesh, coord=mesh.coord @ Q.T + t), Q, t
    m2 = mesh.copy()
    fs = []
    with quiet():
        fs.append(_apply_motion(rng, m2, "rotate", dim, inplane=(dim == 2)))
        fs.append(_apply_motion(rng, m2, "translate", dim))
        if improper:
            fs.append(_apply_motion(rng, m2, "symmetry", dim))

    def f(X):
        for g in fs:
            X = g(X)
        return X

    O = f(np.zeros((1, 3)))[0]
    Q = np.stack([f(np.eye(3)[i][None])[0] - O for i in range(3)], axis=1)
    return m2, Q, O


def _law_pair(rng, dim, kind, Q):
    """The same material in the original and in the moved frame (axes rotated by Q)."""
    ps = bool(rng.integers(2))
    th = float(rng.uniform(0.5, 2)) if dim == 2 else 1.0
    a1, a2 = gmat.random_axes(rng, dim)
    b1, b2 = Q @ a1, Q @ a2
    E = Models.Elastic
    if kind == "iso":
        p = gmat.law_params(rng, kind)
        return E.Isotropic(dim, planeStress=ps, thickness=th, **p), E.Isotropic(dim, planeStress=ps, thickness=th, **p)
    if kind == "trans":
        p = gmat.law_params(rng, kind)
        return (E.TransverselyIsotropic(dim, axis_l=a1, axis_t=a2, planeStress=ps, thickness=th, **p),
                E.TransverselyIsotropic(dim, axis_l=b1, axis_t=b2, planeStress=ps, thickness=th, **p))
    if kind == "ortho":
        p = gmat.law_params(rng, kind)
        return (E.Orthotropic(dim, axis_1=a1, axis_2=a2, planeStress=ps, thickness=th, **p),
                E.Orthotropic(dim, axis_1=b1, axis_2=b2, planeStress=ps, thickness=th, **p))
    C = gmat.random_spd(rng, 3 if dim == 2 else 6)
    return E.Anisotropic(dim, C, False, axis1=a1, axis2=a2, thickness=th), E.Anisotropic(dim, C, False, axis1=b1, axis2=b2, thickness=th)


def run_continuum(case, ctx, rng):
    an, dim, et = case["an"], case["dim"], case["et"]
    law = case.get("law", "neo")
    cls = "improper" if case["improper"] else "proper"
    key = f"C10/{an}/{dim}D/{law}/{cls}"
    ctx.default_key = key
    with ctx.monitored("no-exception", key + "/raised"):
        with quiet():
            mesh, (Lx, Ly, h) = _sims.small_mesh(rng, dim, et, size=1.2)
        mesh2, Q, t = _moved_mesh(rng, mesh, dim, case["improper"], case["constr"])
    Qd = Q[:dim, :dim]
    n0, nL = _sims.nodes_x(mesh, 0.0), _sims.nodes_x(mesh, Lx)
    used = gm.used_nodes(mesh)
    names = ["x", "y", "z"][:dim]
    ud = rng.uniform(-1, 1, dim) * 0.02
    fvol = rng.uniform(-1, 1, dim)
    fsurf = rng.uniform(-1, 1, dim)
    top = used[np.abs(mesh.coord[used, 1] - Ly) < 1e-8]

    def build(m, R, lawobj):
        with quiet():
            if an == "elastic":
                s = Simulations.Elastic(m, lawobj)
            else:
                s = Simulations.HyperElastic(m, lawobj, verbosity=False)
            s.add_dirichlet(n0, [0.0] * dim, names)
            v = R @ ud
            s.add_dirichlet(nL, list(v), names)
            fv = R @ fvol
            s.add_volumeLoad(used, list(fv), names)
            fs_ = R @ fsurf
            s.add_surfLoad(top, list(fs_), names)
        return s

    with ctx.monitored("no-exception", key + "/raised"):
        if an == "elastic":
            l1, l2 = _law_pair(rng, dim, law, Q)
        else:
            K = float(rng.uniform(20, 80))
            if law == "holzapfel":
                T1 = rng.normal(size=3)
                T2 = np.cross(T1, rng.normal(size=3))
                if dim == 2:
                    T1[2] = 0.0
                    T2 = np.array([-T1[1], T1[0], 0.0])
                cs = [float(x) for x in rng.uniform(2, 10, 8)]
                mk = lambda a, b: Models.HyperElastic.HolzapfelOgden(dim, *cs, K=K, Mu1=3.0, Mu2=2.0, T1=a, T2=b)  # noqa: E731
                l1, l2 = mk(T1, T2), mk(Q @ T1, Q @ T2)
            elif law == "mooney":
                l1 = Models.HyperElastic.MooneyRivlin(dim, K1=0.3 * K, K2=0.2 * K, K=K)
                l2 = Models.HyperElastic.MooneyRivlin(dim, K1=0.3 * K, K2=0.2 * K, K=K)
            else:
                l1 = Models.HyperElastic.NeoHookean(dim, K=K)
                l2 = Models.HyperElastic.NeoHookean(dim, K=K)
        s1, s2 = build(mesh, np.eye(dim), l1), build(mesh2, Qd, l2)
        with quiet():
            if case.get("dyn"):
                for s in (s1, s2):
                    s.rho = 1.3
                    s.Solver_Set_Hyperbolic_Algorithm(0.05, algo=AlgoType.newmark)
            u1 = s1.Solve().reshape(-1, dim)
            u2 = s2.Solve().reshape(-1, dim)
            w1 = float(s1.Result("Wdef")) if an == "elastic" else float(s1._Calc_W())
            w2 = float(s2.Result("Wdef")) if an == "elastic" else float(s2._Calc_W())
    tol = 1e-8 if an == "elastic" else 1e-6
    ctx.check("vector-field-rotated", relerr(u2[used], u1[used] @ Qd.T), tol, key + "/displacement", et=et, constr=case["constr"], dyn=bool(case.get("dyn")))
    ctx.check("energy-invariant", abs(w2 - w1) / abs(w1), tol, key + "/energy", w1=w1, w2=w2)
    if an == "elastic":
        with quiet():
            svm1 = np.asarray(s1.Result("Svm", nodeValues=False))
            svm2 = np.asarray(s2.Result("Svm", nodeValues=False))
        ctx.check("scalar-result-invariant", relerr(svm2, svm1), 1e-7, key + "/Svm")
    ctx.describe(f"{an}/{dim}D/{et}/{law}/{cls}/{case['constr']}/dyn={bool(case.get('dyn'))}", np.abs(u1).max() > 0, an=an, et=et, law=law, motion=cls,
                 constr=case["constr"], detQ=float(np.linalg.det(Q)), Q=Q)


def run_thermal(case, ctx, rng):
    dim, et = case["dim"], case["et"]
    cls = "improper" if case["improper"] else "proper"
    key = f"C10/thermal/{dim}D/{cls}/embedded={case['embedded']}"
    ctx.default_key = key
    with ctx.monitored("no-exception", key + "/raised"):
        with quiet():
            if dim == 1:
                mesh = gm.mesh1d(et, 2.0, 5)
                Lx = 2.0
            else:
                mesh, (Lx, Ly, h) = _sims.small_mesh(rng, dim, et, size=1.2)
        # an embedded problem is moved in the full 3-D space (a surface / line mesh leaving its plane)
        Q = random_orthogonal(rng, 3 if case["embedded"] else dim, case["improper"])
        t = rng.uniform(-1, 1, 3) * (1 if case["embedded"] else np.array([1, 1, 1 if dim == 3 else 0]) * (dim > 1))
        if dim == 1 and not case["embedded"]:
            Q = np.diag([-1.0 if case["improper"] else 1.0, 1, 1])
        mesh2 = gm.rebuild(mesh, coord=mesh.coord @ Q.T + t)
    n0, nL = _sims.nodes_x(mesh, 0.0), _sims.nodes_x(mesh, Lx)
    used = gm.used_nodes(mesh)

    def build(m):
        with quiet():
            s = Simulations.Thermal(m, Models.Thermal(k=1.7, c=1.0))
            s.add_dirichlet(n0, [0.0], ["t"])
            s.add_dirichlet(nL, [1.0], ["t"])
            if dim > 1:
                s.add_volumeLoad(used, [0.5], ["t"])
        return s

    with ctx.monitored("no-exception", key + "/raised"):
        s1, s2 = build(mesh), build(mesh2)
        with quiet():
            t1, t2 = s1.Solve(), s2.Solve()
    ctx.check("scalar-field-invariant", relerr(t2[used], t1[used]), 1e-8, key + "/temperature", et=et)
    ctx.describe(f"thermal/{dim}D/{et}/{cls}/embedded={case['embedded']}", True, et=et, motion=cls, embedded=case["embedded"], detQ=float(np.linalg.det(Q)))


# ------------------------------------------------------------------------------------------
def run_beam_turned(case, ctx, rng):
    et, theory = case["et"], case["theory"]
    key = f"C10/beam/3D/{theory}/turned-about-own-axis"
    ctx.default_key = key
    b, h = float(rng.uniform(0.05, 0.1)), float(rng.uniform(0.15, 0.3))      # Iy != Iz
    E, v, L = float(rng.uniform(1e3, 1e5)), float(rng.uniform(0.0, 0.4)), float(rng.uniform(1, 2))
    Q = gm.random_rotation(rng, 3)
    e1, y0 = Q[:, 0], Q[:, 1]
    F = rng.uniform(-1, 1, 3)
    Mo = rng.uniform(-1, 1, 3) * 0.2
    th = float(rng.uniform(0.3, 2.5))
    Kx = np.array([[0, -e1[2], e1[1]], [e1[2], 0, -e1[0]], [-e1[1], e1[0], 0]])
    R = np.eye(3) + np.sin(th) * Kx + (1 - np.cos(th)) * Kx @ Kx
    y1 = R @ y0
    y1 = y1 - (y1 @ e1) * e1          # perpendicular to the member axis to round-off
    y1 /= np.linalg.norm(y1)

    def loads(s, m, rot):
        un = s.Get_unknowns()
        s.add_dirichlet(m.Nodes_Point(Point(0, 0, 0)), [0.0] * 6, un)
        s.add_neumann(m.Nodes_Point(Point(*(L * e1))), list(rot @ F) + list(rot @ Mo), un)

    def fresh(ya):
        line = Line(Point(0, 0, 0), Point(*(L * e1)), L / 3)
        beam = Models.Beam.Isotropic(3, line, bcm.rect_section(b, h), E, v, yAxis=tuple(ya))
        mesh = Mesher().Mesh_Beams([beam], elemType=ElemType(et))
        s = Simulations.Beam(mesh, Models.Beam.BeamStructure([beam]), useTimoshenko=(theory == "Timo"))
        return s, s.mesh, beam

    with ctx.monitored("no-exception", key + "/raised"):
        with quiet():
            s, m, beam = fresh(y0)
            loads(s, m, np.eye(3))
            u1 = s.Solve().reshape(m.Nn, 6).copy()
            # the same beam, simulation and mesh objects: section axes re-assigned, boundary conditions entered again, turned
            beam.yAxis = tuple(y1)
            s.Bc_Init()
            loads(s, m, R)
            u2 = s.Solve().reshape(m.Nn, 6).copy()
            s3, m3, _ = fresh(y1)
            loads(s3, m3, R)
            u3 = s3.Solve().reshape(m3.Nn, 6).copy()
    sc = np.abs(u1[:, :3]).max()
    ctx.check("beam-member-response", float(np.abs(u2[:, :3] - u1[:, :3] @ R.T).max() / sc), 1e-7, key + "/translations", et=et, theta=th)
    ctx.check("beam-member-response", float(np.abs(u2[:, 3:] - u1[:, 3:] @ R.T).max() / np.abs(u1[:, 3:]).max()), 1e-7, key + "/rotations", et=et, theta=th)
    ctx.check("beam-member-response", float(np.abs(u2 - u3).max() / np.abs(u3).max()), 1e-9, key + "/same-as-built-turned", et=et)
    ctx.describe(f"beam-turned/{et}/{theory}", sc > 0, et=et, theory=theory, theta=th, direction=e1)


def run_beam(case, ctx, rng):
    bdim, et, theory = case["dim"], case["et"], case["theory"]
    cls = "improper" if case["improper"] else "proper"
    frame = case["frame"]
    key = f"C10/beam/{bdim}D/{theory}/{cls}/{'frame' if frame else 'member'}" + ("/line-load" if case.get("line") else "")
    ctx.default_key = key
    b, h = float(rng.uniform(0.08, 0.2)), float(rng.uniform(0.08, 0.2))
    E, v = float(rng.uniform(1e3, 1e5)), float(rng.uniform(0.0, 0.4))
    L1, L2 = float(rng.uniform(1, 2)), float(rng.uniform(1, 2))
    Q = random_orthogonal(rng, bdim, case["improper"])
    t = np.zeros(3)
    t[:bdim] = rng.uniform(-1, 1, bdim)
    if case.get("exact"):
        key += "/axis-symmetry"
        ctx.default_key = key
        # a signed permutation of the working axes with the requested determinant; single members always end up pointing along -x
        # (the image most easily mistaken for the original), frames get any of them
        for _ in range(200):
            perm = rng.permutation(bdim) if frame else np.arange(bdim)
            sg = rng.choice([-1.0, 1.0], size=bdim)
            if not frame:
                sg[0] = -1.0
            Q = np.eye(3)
            Q[:bdim, :bdim] = 0.0
            Q[perm, np.arange(bdim)] = sg
            if (np.linalg.det(Q) < 0) == bool(case["improper"]):
                break
        t = np.zeros(3)
        if case.get("shift"):
            t[:bdim] = rng.integers(-2, 3, bdim)
    detQ = float(np.linalg.det(Q))
    pts = [np.zeros(3), np.array([L1, 0, 0.0])]
    if frame:
        pts.append(np.array([L1, L2, 0.0]))
    y0 = np.array([0, 1.0, 0])
    if bdim == 3:
        # generic section orientation about the member axis for the first member
        a = rng.uniform(0, np.pi)
        y0 = np.array([0, np.cos(a), np.sin(a)])
    F = np.zeros(3)
    F[:bdim] = rng.uniform(-1, 1, bdim)
    Mom = np.zeros(3)
    if bdim == 2:
        Mom[2] = rng.uniform(-1, 1) * 0.3
    else:
        Mom = rng.uniform(-1, 1, 3) * 0.3
    qd = np.zeros(3)
    qd[:bdim] = rng.uniform(-1, 1, bdim)
    md = np.zeros(3)
    if bdim == 2:
        md[2] = rng.uniform(-1, 1) * 0.3
    else:
        md = rng.uniform(-1, 1, 3) * 0.3

    def build(R, tt, dR):
        P = [R @ p + tt for p in pts]
        with quiet():
            beams = []
            for i in range(len(P) - 1):
                line = Line(Point(*P[i]), Point(*P[i + 1]), np.linalg.norm(P[i + 1] - P[i]) / 3)
                ya = R @ (y0 if i == 0 else np.array([-1.0, 0, 0]))
                beams.append(Models.Beam.Isotropic(bdim, line, bcm.rect_section(b, h), E, v, yAxis=tuple(ya)))
            mesh = Mesher().Mesh_Beams(beams, elemType=ElemType(et))
            s = Simulations.Beam(mesh, Models.Beam.BeamStructure(beams), useTimoshenko=(theory == "Timo"))
            m = s.mesh
            un = s.Get_unknowns()
            clamp = m.Nodes_Point(Point(*P[0]))
            tip = m.Nodes_Point(Point(*P[-1]))
            s.add_dirichlet(clamp, [0.0] * len(un), un)
            if frame:
                s.add_connection_fixed(m.Nodes_Point(Point(*P[1])))
            Fg = R @ F
            Mg = dR * (R @ Mom)
            if bdim == 2:
                s.add_neumann(tip, [Fg[0], Fg[1], Mg[2]], ["x", "y", "rz"])
            else:
                s.add_neumann(tip, list(Fg) + list(Mg), un)
            if case.get("line"):
                qg = R @ qd
                mg = dR * (R @ md)
                allnodes = np.unique(m.groupElem.connect.ravel())
                if bdim == 2:
                    s.add_lineLoad(allnodes, [qg[0], qg[1], mg[2]], ["x", "y", "rz"])
                else:
                    s.add_lineLoad(allnodes, list(qg) + list(mg), un)
            if case.get("dyn"):
                s.rho = 2.0
                s.Solver_Set_Hyperbolic_Algorithm(0.01, algo=AlgoType.newmark)
            u = s.Solve().reshape(m.Nn, -1)
        return s, m, u, tip, un

    with ctx.monitored("no-exception", key + "/raised"):
        s1, m1, u1, tip1, un = build(np.eye(3), np.zeros(3), 1.0)
        s2, m2, u2, tip2, _ = build(Q, t, detQ)
    # node correspondence through coordinates (gmsh may number the two meshes differently)
    X1, X2 = m1.coord, m2.coord
    used1 = np.unique(m1.groupElem.connect.ravel())
    img = X1[used1] @ Q.T + t
    from scipy.spatial import cKDTree

    tree = cKDTree(X2)
    d, idx = tree.query(img, k=2 if frame else 1)
    if frame:
        # duplicated corner nodes: both copies carry the same kinematics (welded); take the nearest
        idx, d = idx[:, 0], d[:, 0]
    if d.max() > 1e-8:
        raise RuntimeError("twin meshes do not correspond node to node")
    tr1 = np.zeros((len(used1), 3))
    tr2 = np.zeros((len(used1), 3))
    tr1[:, :bdim] = u1[used1][:, :bdim]
    tr2[:, :bdim] = u2[idx][:, :bdim]
    ctx.check("beam-member-response", relerr(tr2, tr1 @ Q.T), 1e-7, key + "/translations", et=et, dyn=bool(case.get("dyn")))
    if bdim == 2:
        r1, r2 = u1[used1][:, 2], u2[idx][:, 2]
        ctx.check("beam-member-response", relerr(r2, detQ * r1), 1e-7, key + "/rotations", et=et)
    else:
        r1, r2 = u1[used1][:, 3:6], u2[idx][:, 3:6]
        ctx.check("beam-member-response", relerr(r2, detQ * (r1 @ Q.T)), 1e-7, key + "/rotations", et=et)
    # internal forces are given in the member axes (i along the member, j the section axis given, k = i x j): N, Ty and Mz keep their
    # values under any isometry, Tz, Mx and My change sign with a mirror image (k and the moment pseudo-vector do)
    if not case.get("dyn"):
        with ctx.monitored("no-exception", key + "/internal-forces/raised"):
            c1 = m1.coord[m1.groupElem.connect].mean(axis=1) @ Q.T + t
            c2 = m2.coord[m2.groupElem.connect].mean(axis=1)
            de, ie = cKDTree(c2).query(c1)
            if de.max() > 1e-8:
                raise RuntimeError("twin meshes do not correspond element to element")
            names = ["N", "Ty", "Mz"] if bdim == 2 else ["N", "Ty", "Tz", "Mx", "My", "Mz"]
            with quiet():
                f1 = {nm: np.asarray(s1.Result(nm, nodeValues=False), float) for nm in names}
                f2 = {nm: np.asarray(s2.Result(nm, nodeValues=False), float)[ie] for nm in names}
            fscale = max(np.abs(f1["N"]).max(), np.abs(f1["Ty"]).max(), 1e-300)
            mscale = max(np.abs(f1["Mz"]).max(), 1e-300)
            for nm in names:
                sgn = detQ if nm in ("Tz", "Mx", "My") else 1.0
                ctx.check("beam-internal-forces", float(np.abs(f2[nm] - sgn * f1[nm]).max()) / (mscale if nm.startswith("M") else fscale), 1e-6, key + "/internal-forces", et=et, name=nm)
    # closed form for a single Euler-Bernoulli / Timoshenko cantilever (static): response in member axes
    if not frame and not case.get("dyn") and not case.get("line"):
        sp = bcm.section_props(b, h)
        A_, G = sp["A"], E / (2 * (1 + v))
        ut = u2[tip2[0]]
        e1 = Q @ np.array([1.0, 0, 0])
        e2 = Q @ y0
        e3 = detQ * np.cross(e1, e2) if bdim == 3 else np.array([0, 0, 1.0])
        Floc = np.array([F @ np.array([1.0, 0, 0]), F @ y0, F @ np.cross([1.0, 0, 0], y0)])
        Mloc = np.array([Mom @ np.array([1.0, 0, 0]), Mom @ y0, Mom @ np.cross([1.0, 0, 0], y0)])
        # in member axes (i, j, k): bending about k uses Iz = int y^2 dA (section y along j), about j uses Iy
        # section mesh: x-axis of the section is the beam's z (k), y-axis is the beam's y (j)  => Iz = b h^3/12 with b along k, h along j
        Iz, Iy = sp["Iz"], sp["Iy"]
        ux = Floc[0] * L1 / (E * A_)
        shear = (theory == "Timo") and gm.ORDER[et] >= 2  # SEG2 Timoshenko is only O(h^2): closed form not expected
        if theory == "EB" or shear:
            ky = float(s2.structure.beams[0]._ky)
            kz = float(s2.structure.beams[0]._kz)
            uy = Floc[1] * L1**3 / (3 * E * Iz) + Mloc[2] * L1**2 / (2 * E * Iz) + (Floc[1] * L1 / (ky * G * A_) if theory == "Timo" else 0.0)
            got_ux = float(ut[:bdim] @ e1[:bdim])
            got_uy = float(ut[:bdim] @ e2[:bdim])
            sc = max(abs(ux), abs(uy), 1e-300)
            ctx.check("beam-closed-form", max(abs(got_ux - ux), abs(got_uy - uy)) / sc, 1e-6, key + "/closed-form", et=et, ux=ux, uy=uy, got=[got_ux, got_uy])
            if bdim == 3:
                uz = Floc[2] * L1**3 / (3 * E * Iy) - Mloc[1] * L1**2 / (2 * E * Iy) + (Floc[2] * L1 / (kz * G * A_) if theory == "Timo" else 0.0)
                got_uz = float(ut[:3] @ e3)
                ctx.check("beam-closed-form", abs(got_uz - uz) / max(abs(uz), sc), 1e-6, key + "/closed-form-z", et=et, uz=uz, got=got_uz)
    ctx.describe(f"beam/{bdim}D/{et}/{theory}/{cls}/frame={frame}/dyn={bool(case.get('dyn'))}/line={bool(case.get('line'))}", np.abs(u1).max() > 0, et=et, theory=theory, motion=cls, frame=frame,
                 detQ=detQ, direction=Q[:, 0])
