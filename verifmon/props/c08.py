"""C08 — geometry, orientation and point location are consistent across element groups.

Oracle: analytic measure of the generating polygon / polyhedron; closure and flux integrals formed here
from Get_normals_e_pg x Get_weightedJacobian_e_pg x Get_GaussCoordinates_e_pg; outwardness from
connectivity; polynomial nodal fields for point location and projection.
"""

from __future__ import annotations

import itertools

import numpy as np

from EasyFEA import MatrixType, Models, Simulations
from EasyFEA.FEM import Calc_projector

from . import _suite
from ..core import Ctx, quiet, relerr
from ..gen import meshes as gm
from ..ref import geometry as geo
from .c07 import bilinear_map

PROP = "C08"
NUM = 8
RULE = (
    "cases = (scenario: rigid motions / boundary normals / embedded surface / point location / projector, element type, "
    "mesh class, orientation class as-meshed / mirrored / moved) x seeded polygons, motions with generic angles, query "
    "batches (1 point, several points per element, points on edges and nodes, batch sizes colliding with dim). Signature = "
    "(scenario, element type, mesh class, orientation). Non-trivial iff the mesh has >= 2 elements and (for location) the "
    "polynomial has degree >= 1."
)
ASSUMPTIONS = [
    "polynomial degree = element order on simplices / affine images; on general straight-sided quads/hexas degree 1 for every type "
    "and degree 2 for QUAD9/HEXA27 only (serendipity spaces do not contain P2 on non-affine elements)",
    "query points are generated inside elements from barycentric / reference coordinates by the harness (shrunk by 1e-9 "
    "towards the centroid only for interior class; edge and node classes are exact)",
    "outwardness is judged per boundary element against the centroid of the adjacent volume element found from connectivity",
]
TIMEOUT_CASE = 300
MIN_EVALS = {"measure-exact": 15, "measure-invariant": 30, "normals-closure": 15, "normals-flux": 15, "location-values": 40, "projector-linear": 5}
REQUIRED_COVERAGE = ["Get_normals_e_pg", "Get_Mapping", "Get_pointsInElem", "Evaluate_dofsValues_at_coordinates", "Rotate", "Symmetry"]


def anchors():
    from EasyFEA.FEM._group_elem import _GroupElem
    from EasyFEA.FEM._mesh import Mesh
    from EasyFEA.FEM import _mesh

    return [
        ("Get_normals_e_pg", _GroupElem, "Get_normals_e_pg"),
        ("Get_sysCoord_e", _GroupElem, "_Get_sysCoord_e"),
        ("Get_Mapping", _GroupElem, "_Get_Mapping"),
        ("Get_pointsInElem", _GroupElem, "Get_pointsInElem"),
        ("Evaluate_dofsValues_at_coordinates", Mesh, "Evaluate_dofsValues_at_coordinates"),
        ("Calc_projector", _mesh, "Calc_projector"),
        ("Translate", Mesh, "Translate"), ("Rotate", Mesh, "Rotate"), ("Symmetry", Mesh, "Symmetry"),
    ]


def cases(tier: str, seed: int) -> list[dict]:
    out = []
    rep = 1 if tier == "quick" else 8
    for r in range(rep):
        for et in gm.ET_2D + gm.ET_3D:
            out.append({"sc": "motion", "et": et})
            out.append({"sc": "normals", "et": et})
            for mc in ["gmsh", "affine"] + (["general"] if et[:4] in ("QUAD", "HEXA") else []) + (["partly-distorted"] if et in ("QUAD4", "HEXA8") else []) + (["warped-faces"] if et == "HEXA8" else []):
                out.append({"sc": "locate", "et": et, "mesh": mc})
        for et in gm.ET_1D:
            out.append({"sc": "motion", "et": et})
            out.append({"sc": "locate", "et": et, "mesh": "gmsh"})
        for et in gm.ET_2D:
            out.append({"sc": "embedded", "et": et})
        for et in gm.ET_3D:
            out.append({"sc": "reconstruct", "et": et})
        for et in ["TRI3", "TRI6", "QUAD4", "TETRA4", "HEXA8", "PRISM6"]:
            out.append({"sc": "projector", "et": et})
        for et in ["TRI3", "QUAD8", "TETRA4", "PRISM6", "HEXA20"]:
            out.append({"sc": "deformed", "et": et})
        for et in ["TRI3", "TRI6", "QUAD4", "TRI10"]:
            out.append({"sc": "warm-translate", "et": et})
    for i, c in enumerate(out):
        c["id"] = f"C08-{i:05d}-{c['sc']}-{c['et']}-{c.get('mesh', '')}"
        c["index"] = i
    for c in _suite.suite_cases(PROP, tier):
        c["index"] = len(out)
        out.append(c)
    return out


# ------------------------------------------------------------------------------------------
def make_mesh(rng, et, mc="gmsh", concave=None):
    shape = geo.topo(et)
    dim = {"SEG": 1, "TRI": 2, "QUAD": 2, "TETRA": 3, "HEXA": 3, "PRISM": 3}[shape]
    info = {}
    with quiet():
        if dim == 1:
            L = float(rng.uniform(1, 3))
            mesh = gm.mesh1d(et, L, int(rng.integers(2, 6)))
            return mesh, dim, L, np.array([L / 2, 0, 0]), info
        h = float(rng.uniform(0.5, 1.2))
        if mc == "general":
            Lx, Ly = float(rng.uniform(1, 2)), float(rng.uniform(1, 2))
            rect = np.array([[0, 0], [Lx, 0], [Lx, Ly], [0, Ly]], float)
            ms = Lx / int(rng.integers(2, 4))
            mesh = gm.mesh2d(rect, et, ms, organised=True) if dim == 2 else gm.mesh3d(rect, et, h, int(rng.integers(1, 3)), ms, organised=True)
            poly = rect + rng.uniform(-0.22, 0.22, (4, 2)) * min(Lx, Ly)
            mesh = gm.rebuild(mesh, coord=bilinear_map(mesh.coord, Lx, Ly, poly))
        else:
            poly = gm.random_polygon(rng, n=int(rng.integers(4, 7)), concave=bool(rng.integers(2)) if concave is None else concave)
            o = gm.ORDER[et]
            ms = float({1: 0.5, 2: 0.7, 3: 0.85, 4: 1.0}[o] * (1.5 if dim == 3 else 1.0))
            mesh = gm.mesh2d(poly, et, ms) if dim == 2 else gm.mesh3d(poly, et, h, int(rng.integers(1, 3)), ms)
    area, c2 = gm.shoelace(poly)
    measure = abs(area) * (h if dim == 3 else 1.0)
    cen = np.array([c2[0], c2[1], h / 2 if dim == 3 else 0.0])
    if mc == "affine":
        A, t = gm.affine_map(rng, dim)
        mesh = gm.rebuild(mesh, coord=mesh.coord @ A.T + t, keep_dims=None)
        measure *= abs(np.linalg.det(A))
        cen = A @ cen + t
        info["detA"] = float(np.linalg.det(A))
    return mesh, dim, measure, cen, info


def mesh_measure(mesh, dim):
    return {1: mesh.length, 2: mesh.area, 3: mesh.volume}[dim]


def boundary_integrals(mesh, dim):
    """closure = sum n dS ; flux = sum (x . n) dS over all (dim-1) groups; returns also per-element data."""
    closure = np.zeros(3)
    flux = 0.0
    per_group = []
    for g in mesh.Get_list_groupElem(dim - 1):
        n = np.asarray(g.Get_normals_e_pg(MatrixType.mass))
        wJ = np.asarray(g.Get_weightedJacobian_e_pg(MatrixType.mass))
        x = np.asarray(g.Get_GaussCoordinates_e_pg(MatrixType.mass))
        closure += np.einsum("ep,epd->d", wJ, n)
        flux += float(np.einsum("ep,epd,epd->", wJ, n, x))
        per_group.append((g, n, wJ, x))
    return closure, flux, per_group


def outward_fraction(mesh, dim, per_group, face_class=None):
    """Per boundary element: sign of n . (x_face - x_adjacent volume element centroid), adjacency from connectivity."""
    X = mesh.coord
    vol_groups = mesh.Get_list_groupElem(dim)
    # node -> list of (group index, element)
    node2elem = {}
    cents = []
    for gi, vg in enumerate(vol_groups):
        con = vg.connect
        nv = geo.NVERT[geo.topo(vg.elemType.value)]
        cents.append(X[con[:, :nv]].mean(1))
        for e, row in enumerate(con[:, :nv]):
            for nd in row:
                node2elem.setdefault(int(nd), []).append((gi, e))
    n_out = n_in = n_interior = 0
    unit_err = 0.0
    by_class = {}
    for gidx, (g, n, wJ, x) in enumerate(per_group):
        nvb = geo.NVERT[geo.topo(g.elemType.value)]
        for e, row in enumerate(g.connect[:, :nvb]):
            cand = None
            for nd in row:
                s = set(node2elem.get(int(nd), []))
                cand = s if cand is None else (cand & s)
            if not cand:
                continue
            if len(cand) > 1:
                n_interior += 1  # an interior interface (e.g. after Merge): orientation undefined
                continue
            gi, ve = next(iter(cand))
            xf = X[row].mean(0)
            s = float(n[e].mean(0) @ (xf - cents[gi][ve]))
            c = by_class.setdefault(face_class[gidx][e] if face_class is not None else "all", [0, 0])
            if s > 0:
                n_out += 1
                c[0] += 1
            else:
                n_in += 1
                c[1] += 1
        unit_err = max(unit_err, float(np.abs(np.linalg.norm(n, axis=-1) - 1).max()))
    return n_out, n_in, n_interior, unit_err, by_class


def run_case(case: dict, ctx: Ctx) -> None:
    if case.get("fam") == "suite":
        return _suite.run_suite(case, ctx, PROP)
    rng = np.random.default_rng([case["seed"], NUM, case["index"]])
    {"reconstruct": run_reconstruct, "motion": run_motion, "normals": run_normals, "embedded": run_embedded, "locate": run_locate, "projector": run_projector, "deformed": run_deformed, "warm-translate": run_warm_translate}[case["sc"]](case, ctx, rng)


# ------------------------------------------------------------------------------------------
def _apply_motion(rng, mesh, kind, dim, inplane=False):
    """Applies a rigid motion to the mesh object and returns the same map as a callable on coordinates."""
    if kind == "translate":
        d = np.zeros(3)
        d[: max(dim, 2)] = rng.uniform(-2, 2, max(dim, 2))
        mesh.Translate(*d)
        return lambda X: X + d
    if kind == "rotate":
        theta = float(rng.uniform(10, 350))
        center = np.zeros(3)
        center[: max(dim, 2)] = rng.uniform(-1, 1, max(dim, 2))
        if dim == 3 or (rng.random() < 0.3 and not inplane):
            direction = rng.normal(size=3)
            direction /= np.linalg.norm(direction)
        else:
            direction = np.array([0, 0, 1.0])
        mesh.Rotate(theta, tuple(center), tuple(direction))
        th = np.deg2rad(theta)
        Kx = np.array([[0, -direction[2], direction[1]], [direction[2], 0, -direction[0]], [-direction[1], direction[0], 0]])
        R = np.eye(3) + np.sin(th) * Kx + (1 - np.cos(th)) * Kx @ Kx  # Rodrigues
        return lambda X: (X - center) @ R.T + center
    if kind == "symmetry":
        point = np.zeros(3)
        point[: max(dim, 2)] = rng.uniform(-1, 1, max(dim, 2))
        n = np.zeros(3)
        n[: max(dim, 2)] = rng.normal(size=max(dim, 2))
        n /= np.linalg.norm(n)
        mesh.Symmetry(tuple(point), tuple(n))
        return lambda X: X - 2 * ((X - point) @ n)[:, None] * n
    raise ValueError(kind)


def _locate_some(rng, mesh, dim):
    """A few points inside elements are located (with reference coordinates) through the public mapping of the main groups."""
    for g in mesh.Get_list_groupElem(dim):
        Xe = mesh.coord[g.connect[: min(4, g.Ne)]]
        pts = Xe.mean(1)
        g.Get_Mapping(pts, needCoordinates=True)


def run_motion(case, ctx, rng):
    et = case["et"]
    key = f"C08/motion/{et}"
    ctx.default_key = key
    with ctx.monitored("no-exception", key + "/raised"):
        mesh, dim, measure, cen, info = make_mesh(rng, et)
        m0 = mesh_measure(mesh, dim)
    ctx.check("measure-exact", abs(m0 - measure) / measure, 1e-9, key + "/measure-exact", got=m0, want=measure)
    ctx.check("center-exact", float(np.abs(np.asarray(mesh.center) - cen).max() / measure ** (1 / dim)), 1e-9, key + "/center-exact")
    con0 = {k.value: g.connect.copy() for k, g in mesh.dict_groupElem.items()}
    # an observer must be told about every motion (stale-matrix protection is C14's subject; here: the notification itself)
    with quiet():
        if dim == 1:
            simu = Simulations.Thermal(mesh, Models.Thermal(k=1.0))
        else:
            simu = Simulations.Elastic(mesh, Models.Elastic.Isotropic(dim)) if dim > 1 else None
        simu.Get_K_C_M_F()
    kinds = list(rng.permutation(["translate", "rotate", "symmetry"])) + ["rotate"]
    done = []
    X = mesh.coord
    for kind in kinds:
        with ctx.monitored("no-exception", key + f"/{kind}/raised"):
            with quiet():
                simu.Need_Update(False)
                # an in-plane problem (2-D elasticity) legitimately refuses a mesh leaving its plane:
                # out-of-plane rotations are exercised by the embedded-surface scenario
                f = _apply_motion(rng, mesh, kind, dim, inplane=True)
                Xn = mesh.coord
                located_first = bool((case["index"] + len(done)) % 2)
                if located_first:
                    # a point location is the first thing asked of the moved mesh (it reads signed jacobians)
                    _locate_some(rng, mesh, dim)
                m1 = mesh_measure(mesh, dim)
                c1 = np.asarray(mesh.center)
                if not located_first:
                    _locate_some(rng, mesh, dim)
                # integrals with the default (mass) rule of the element groups: the measure and the first moments of the moved mesh
                groups_ = mesh.Get_list_groupElem(dim)
                mI = float(sum(np.sum(g.Integrate_e(lambda x, y, z: 1.0 + 0.0 * x)) for g in groups_))
                fI = np.array([float(sum(np.sum(g.Integrate_e(lambda x, y, z, d=d: (x, y, z)[d])) for g in groups_)) for d in range(3)])
        ctx.check("measure-invariant", abs(mI - m0) / m0, 1e-10, key + f"/{kind}/integrated-measure", before=m0, after=mI, located_first=located_first)
        ctx.check("center-follows", float(np.abs(fI / m0 - f(cen[None])[0]).max() / measure ** (1 / dim)), 1e-9, key + f"/{kind}/integrated-first-moments",
                  located_first=located_first)
        ctx.check("coords-moved-as-specified", relerr(Xn, f(X), scale=np.abs(X).max() + 1), 1e-12, key + f"/{kind}/coords")
        ctx.check("measure-invariant", abs(m1 - m0) / m0, 1e-10, key + f"/{kind}/measure", before=m0, after=m1)
        ctx.check("center-follows", float(np.abs(c1 - f(cen[None])[0]).max() / measure ** (1 / dim)), 1e-9, key + f"/{kind}/center")
        ctx.require("connectivity-unchanged", all(np.array_equal(con0[k.value], g.connect) for k, g in mesh.dict_groupElem.items()) and mesh.Nn == X.shape[0],
                    key + f"/{kind}/connectivity")
        ctx.require("observers-notified", bool(simu.needUpdate), key + f"/{kind}/notify")
        X, cen = Xn, f(cen[None])[0]
        done.append(kind)
    ctx.describe(f"motion/{et}", mesh.Ne >= 2, et=et, Ne=mesh.Ne, measure=measure, motions=done)


def run_normals(case, ctx, rng):
    et = case["et"]
    shape = geo.topo(et)
    with ctx.monitored("no-exception", f"C08/normals/{et}/raised"):
        mesh, dim, measure, cen, info = make_mesh(rng, et)
    # face classes from the construction (before any motion): bottom / top caps of the extrusion, lateral faces
    face_class = []
    X0 = mesh.coord
    zmax = X0[:, 2].max()
    for g in mesh.Get_list_groupElem(dim - 1):
        nvb = geo.NVERT[geo.topo(g.elemType.value)]
        z = X0[g.connect[:, :nvb], 2]
        if dim == 3:
            lab = np.where(np.all(np.abs(z) < 1e-9, 1), "bottom-cap", np.where(np.all(np.abs(z - zmax) < 1e-9, 1), "top-cap", "lateral"))
        else:
            lab = np.array(["edge"] * g.Ne)
        face_class.append(lab)
    with quiet():
        # move the domain away from the coordinate planes so that every face contributes to the flux integral
        mesh.Translate(*(rng.uniform(0.5, 1.5, 3) * np.array([1, 1, 1 if dim == 3 else 0])))
    cls = "as-meshed"
    for stage in range(3):
        construction = "polygon" if dim == 2 else "extrusion"
        key = f"C08/normals/{dim}D/{construction}/{cls}"
        ctx.default_key = key
        with ctx.monitored("no-exception", key + "/raised"):
            closure, flux, per_group = boundary_integrals(mesh, dim)
            n_out, n_in, n_int, unit_err, by_class = outward_fraction(mesh, dim, per_group, face_class)
        bsize = measure ** ((dim - 1) / dim)
        ctx.check("normals-unit", unit_err, 1e-12, key + "/unit")
        ctx.check("normals-closure", float(np.abs(closure).max() / bsize), 1e-9, key + "/closure", closure=closure, et=et)
        ctx.check("normals-flux", abs(flux - dim * measure) / (dim * measure), 1e-9, key + "/flux", flux=flux, want=dim * measure, et=et)
        for fc, (no, ni) in sorted(by_class.items()):
            ctx.require("normals-outward", ni == 0 and no > 0, key + f"/{fc}-outward", outward=no, inward=ni, et=et, face_class=fc)
        if stage == 0:
            with quiet():
                _apply_motion(rng, mesh, "symmetry", dim)
            cls = "mirrored"
        elif stage == 1:
            with quiet():
                _apply_motion(rng, mesh, "rotate", dim, inplane=True)
                _apply_motion(rng, mesh, "symmetry", dim)
            cls = "mirrored-twice-and-rotated"
    ctx.describe(f"normals/{et}", mesh.Ne >= 2, et=et, dim=dim, Ne=mesh.Ne, boundary_groups=[g.elemType.value for g in mesh.Get_list_groupElem(dim - 1)])


def run_reconstruct(case, ctx, rng):
    """Boundary reconstructed from the volume elements' face tables (MeshIO.Surface_reconstruction): the skin must
    close the domain with outward normals as built and after a rigid motion; after a mirror it must still close and
    carry |flux| = 3 V."""
    from EasyFEA import MeshIO

    et = case["et"]
    key = f"C08/reconstruct/{et}"
    ctx.default_key = key
    with ctx.monitored("no-exception", key + "/raised"):
        mesh, dim, measure, cen, info = make_mesh(rng, et)
        with quiet():
            vol_only = gm.rebuild(mesh, keep_dims=(3,))
            vol_only.Translate(*rng.uniform(0.5, 1.5, 3))
            skin = MeshIO.Surface_reconstruction(vol_only)
    # analytic boundary area: two caps + lateral faces
    X = mesh.coord
    h = float(X[:, 2].max() - X[:, 2].min())
    bsize = measure ** (2 / 3)
    stage = "as-built"
    for k in range(3):
        with ctx.monitored("no-exception", key + "/raised"):
            closure, flux, per_group = boundary_integrals(skin, 3)
            n_out, n_in, n_int, unit_err, by_class = outward_fraction(skin, 3, per_group)
            area = sum(float(np.asarray(wJ).sum()) for g, n, wJ, x in per_group)
        ctx.check("reconstructed-closure", float(np.abs(closure).max() / bsize), 1e-9, key + f"/{stage}/closure")
        if stage == "mirrored":
            ctx.check("reconstructed-flux", abs(abs(flux) - 3 * measure) / (3 * measure), 1e-9, key + f"/{stage}/flux-magnitude")
        else:
            ctx.check("reconstructed-flux", abs(flux - 3 * measure) / (3 * measure), 1e-9, key + f"/{stage}/flux")
            ctx.require("reconstructed-outward", n_in == 0 and n_out > 0, key + f"/{stage}/outward", outward=n_out, inward=n_in)
        ctx.require("reconstructed-covers-boundary", n_int == 0 and n_out + n_in == sum(g.Ne for g in skin.Get_list_groupElem(2)), key + f"/{stage}/faces",
                    interior=n_int)
        if k == 0:
            ctx.event("skin-area", 1)
            with quiet():
                _apply_motion(rng, skin, "rotate", 3)
                _apply_motion(rng, skin, "translate", 3)
            stage = "moved"
        elif k == 1:
            with quiet():
                _apply_motion(rng, skin, "symmetry", 3)
            stage = "mirrored"
    ctx.describe(f"reconstruct/{et}", True, et=et, Ne=mesh.Ne, faces=[(g.elemType.value, g.Ne) for g in skin.Get_list_groupElem(2)])


def run_embedded(case, ctx, rng):
    """A 2-D mesh rotated out of its plane: area unchanged, Gauss-point normals of the surface group are unit and
    orthogonal to the surface, in-plane gradients keep reproducing linear fields."""
    et = case["et"]
    key = f"C08/embedded/{et}"
    ctx.default_key = key
    with ctx.monitored("no-exception", key + "/raised"):
        mesh, dim, measure, cen, info = make_mesh(rng, et)
        with quiet():
            axis = rng.normal(size=3)
            axis[2] *= 0.3
            axis /= np.linalg.norm(axis)
            theta = float(rng.uniform(20, 160))
            mesh.Rotate(theta, (0, 0, 0), tuple(axis))
            if rng.random() < 0.5:
                mesh.Translate(0.3, -0.2, 0.7)
        a1 = mesh.area
        g = mesh.Get_list_groupElem(2)[0]
        n = np.asarray(g.Get_normals_e_pg(MatrixType.mass))
    th = np.deg2rad(theta)
    Kx = np.array([[0, -axis[2], axis[1]], [axis[2], 0, -axis[0]], [-axis[1], axis[0], 0]])
    R = np.eye(3) + np.sin(th) * Kx + (1 - np.cos(th)) * Kx @ Kx
    nz = R @ np.array([0, 0, 1.0])
    ctx.require("embedded-inDim", mesh.inDim == 3, key + "/inDim", inDim=mesh.inDim)
    ctx.check("embedded-area", abs(a1 - measure) / measure, 1e-9, key + "/area", got=a1, want=measure)
    ctx.check("embedded-normals-unit", float(np.abs(np.linalg.norm(n, axis=-1) - 1).max()), 1e-12, key + "/unit")
    ctx.check("embedded-normals-orthogonal", float(np.abs(np.abs(n @ nz) - 1).max()), 1e-9, key + "/orthogonal")
    ctx.require("embedded-normals-consistent", bool(np.all(n @ nz > 0) or np.all(n @ nz < 0)), key + "/consistent-side")
    # heat conduction patch test on the embedded surface (linear field of the 3-D coordinates restricted to the plane)
    X = mesh.coord
    gvec = rng.uniform(-1, 1, 3)
    t_lin = X @ gvec + 0.3
    with ctx.monitored("no-exception", key + "/raised"):
        with quiet():
            bnd = gm.boundary_nodes(mesh)
            simu = Simulations.Thermal(mesh, Models.Thermal(k=1.3))
            simu.add_dirichlet(bnd, [t_lin[bnd]], ["t"])
            sol = simu.Solve()
    used = gm.used_nodes(mesh)
    ctx.check("embedded-patch-test", relerr(sol[used], t_lin[used]), 1e-8, key + "/patch-test", n_interior=len(np.setdiff1d(used, bnd)))
    ctx.describe(f"embedded/{et}", mesh.Ne >= 2, et=et, theta=theta, axis=axis)


# ------------------------------------------------------------------------------------------
def run_deformed(case, ctx, rng):
    """Geometric queries on the configuration X + U given by ``displacementMatrix`` (affine U = A X): Gauss coordinates,
    area-weighted normals; and - queries being reads - the reference configuration untouched afterwards, however often asked."""
    et = case["et"]
    key = f"C08/deformed/{et}"
    ctx.default_key = key
    with ctx.monitored("no-exception", key + "/raised"):
        mesh, dim, measure, cen, info = make_mesh(rng, et)
    X = mesh.coord
    A = np.zeros((3, 3))
    A[:dim, :dim] = rng.uniform(-0.25, 0.25, (dim, dim))
    t = np.zeros(3)
    t[:dim] = rng.uniform(-0.5, 0.5, dim)
    U = X @ A.T + t
    F = np.eye(3) + A
    J = float(np.linalg.det(F[:dim, :dim]))
    groups_b = mesh.Get_list_groupElem(dim - 1)
    groups_m = mesh.Get_list_groupElem(dim)

    def reference_state():
        out = []
        for g in groups_b + groups_m:
            out.append(np.asarray(g.Get_GaussCoordinates_e_pg(MatrixType.mass)).copy())
            out.append(np.asarray(g.coord).copy())
        for g in groups_b:
            out.append(np.asarray(g.Get_normals_e_pg(MatrixType.mass)).copy())
        return out

    with ctx.monitored("no-exception", key + "/raised"):
        with quiet():
            ref0 = reference_state()
            for rep in range(2):
                flux = 0.0
                worst_x = 0.0
                for g in groups_b:
                    x0 = np.asarray(g.Get_GaussCoordinates_e_pg(MatrixType.mass))
                    xd = np.asarray(g.Get_GaussCoordinates_e_pg(MatrixType.mass, displacementMatrix=U))
                    worst_x = max(worst_x, float(np.abs(xd - (x0 @ F.T + t)).max()))
                    nd = np.asarray(g.Get_normals_e_pg(MatrixType.mass, U, normalize=False))
                    w = np.asarray(g.Get_weight_pg(MatrixType.mass))
                    flux += float(np.einsum("p,epd,epd->", w, nd, xd - t))
                for g in groups_m:
                    x0 = np.asarray(g.Get_GaussCoordinates_e_pg(MatrixType.mass))
                    xd = np.asarray(g.Get_GaussCoordinates_e_pg(MatrixType.mass, displacementMatrix=U))
                    worst_x = max(worst_x, float(np.abs(xd - (x0 @ F.T + t)).max()))
                size = measure ** (1 / dim)
                ctx.check("deformed-gauss-coordinates", worst_x / size, 1e-12, key + "/gauss-coordinates", query=rep)
                # divergence theorem on the deformed boundary (magnitude: the orientation of boundary elements is C08's known finding)
                ctx.check("deformed-flux", abs(abs(flux) - dim * abs(J) * measure) / (dim * abs(J) * measure), 1e-9, key + "/flux-magnitude", query=rep)
                ref1 = reference_state()
                ctx.require("query-leaves-reference-untouched", all(np.array_equal(a, b) for a, b in zip(ref0, ref1)), key + "/reference-configuration-moved", query=rep)
    ctx.describe(f"deformed/{et}", mesh.Ne >= 2, et=et, detF=J)


def run_warm_translate(case, ctx, rng):
    """Point location / interpolation on a planar mesh, before and after translations that take it out of its plane and back,
    with every cache warm (the queries come first)."""
    et = case["et"]
    key = f"C08/warm-translate/{et}"
    ctx.default_key = key
    with ctx.monitored("no-exception", key + "/raised"):
        mesh, dim, measure, cen, info = make_mesh(rng, et)
    g = mesh.Get_list_groupElem(2)[0]
    gvec = rng.uniform(-1, 1, 3)

    def query(stage, shift):
        X = mesh.coord
        used = gm.used_nodes(mesh)
        # points: element centroids moved a little towards a vertex (inside straight-sided elements)
        cen_e = X[g.connect[:, : g.Nvertex]].mean(axis=1)
        pts = 0.8 * cen_e + 0.2 * X[g.connect[:, 0]]
        field = X @ gvec + 0.7  # a linear field of the current coordinates
        with quiet():
            val = np.asarray(mesh.Evaluate_dofsValues_at_coordinates(pts, field)).ravel()
        want = pts @ gvec + 0.7
        # (quadrangles are located by an iterative inverse map that stops at ~1e-6, see the locate scenario)
        ctx.check("warm-translate-interpolation", float(np.abs(val - want).max()) / (np.abs(want).max() + 1e-300), 1e-6 if et.startswith("QUAD") else 1e-9, key + "/" + stage, shift=shift)

    with ctx.monitored("no-exception", key + "/raised"):
        query("before", None)
        with quiet():
            mesh2 = mesh.copy() if rng.random() < 0.5 else mesh  # a copy carries the caches of the mesh it was made from
        d = rng.uniform(-0.5, 0.5, 3)
        d[2] = float(rng.choice([-1, 1])) * float(rng.uniform(0.4, 1.0))
        mesh_ = mesh2
        for stage, vec in (("out-of-plane", d), ("in-plane-again", np.array([0.3, -0.2, -d[2]])), ("out-again", np.array([0.0, 0.0, 0.6]))):
            with quiet():
                mesh_.Translate(*[float(x) for x in vec])
            mesh = mesh_
            g = mesh.Get_list_groupElem(2)[0]
            query(stage, [float(x) for x in vec])
    ctx.describe(f"warm-translate/{et}", mesh.Ne >= 2, et=et)


def _poly_field(rng, dim, deg):
    terms = [pw for pw in itertools.product(range(deg + 1), repeat=dim) if sum(pw) <= deg]
    coefs = rng.normal(size=(2, len(terms)))

    def f(X):
        out = np.zeros((X.shape[0], 2))
        for k in range(2):
            for c, pw in zip(coefs[k], terms):
                out[:, k] += c * np.prod([X[:, d] ** pw[d] for d in range(dim)], axis=0)
        return out

    return f


def _ref_points(shape, rng, n, cls):
    """Reference coordinates (barycentric weights over the vertices) of n points of class interior/edge/node."""
    nv = geo.NVERT[shape]
    W = np.zeros((n, nv))
    if shape in ("SEG", "TRI", "TETRA"):
        if cls == "interior":
            W = rng.dirichlet(np.ones(nv) * 2, n)
        elif cls == "edge":
            for i in range(n):
                a, b = rng.choice(nv, 2, replace=False)
                t = rng.uniform(0.1, 0.9)
                W[i, a], W[i, b] = t, 1 - t
        else:
            W[np.arange(n), rng.integers(nv, size=n)] = 1.0
        return W
    return None


def mesh_eval(mesh, P, dofs):
    return np.asarray(mesh.Evaluate_dofsValues_at_coordinates(P, dofs))


def run_locate(case, ctx, rng):
    et, mc = case["et"], case["mesh"]
    shape = geo.topo(et)
    key = f"C08/locate/{shape}/{mc}"
    ctx.default_key = key
    with ctx.monitored("no-exception", key + "/raised"):
        if mc in ("partly-distorted", "warped-faces"):
            # a structured mesh of parallelogram elements in which a few interior vertices are moved: elements with a closed-form
            # inverse map and elements needing the iterative one share edges, faces and nodes in ONE group
            with quiet():
                dim = 2 if shape == "QUAD" else 3
                Lx, Ly, h = float(rng.uniform(1, 2)), float(rng.uniform(1, 2)), float(rng.uniform(0.6, 1.2))
                rect = np.array([[0, 0], [Lx, 0], [Lx, Ly], [0, Ly]], float)
                ms = Lx / 4
                mesh = gm.mesh2d(rect, et, ms, organised=True) if dim == 2 else gm.mesh3d(rect, et, h, 2, ms, organised=True)
                Xc = mesh.coord.copy()
                inner = np.where((Xc[:, 0] > 1e-9) & (Xc[:, 0] < Lx - 1e-9) & (Xc[:, 1] > 1e-9) & (Xc[:, 1] < Ly - 1e-9))[0]
                if mc == "warped-faces":
                    # every chosen vertex moves on its own: the faces of the hexahedra around it are no longer planar
                    moved = rng.choice(inner, max(1, len(inner) // 3), replace=False)
                    Xc[moved, :2] += rng.uniform(-0.2, 0.2, (len(moved), 2)) * ms
                else:
                    # whole columns of vertices (same x, y) move together: general quadrangles extruded, all faces stay planar
                    cols = np.unique(np.round(Xc[inner, :2], 9), axis=0)
                    for c_ in cols[rng.choice(len(cols), max(1, len(cols) // 3), replace=False)]:
                        col = np.where(np.abs(Xc[:, :2] - c_).max(1) < 1e-8)[0]
                        Xc[col, :2] += rng.uniform(-0.2, 0.2, 2) * ms
                mesh = gm.rebuild(mesh, coord=Xc)
        else:
            mesh, dim, measure, cen, info = make_mesh(rng, et, mc)
    # the length unit is the user's: the same mesh in metres, millimetres-as-metres, ... locates its points equally well
    unit = float([1.0, 1e-3, 1e3, 1e-2][case["index"] % 4]) if mc in ("gmsh", "general", "partly-distorted") else 1.0
    if unit != 1.0:
        with quiet():
            mesh = gm.rebuild(mesh, coord=mesh.coord * unit)
        key = key + "@unit-scaled"
        ctx.default_key = key
        ctx.event(f"length-unit:{unit:g}")
    # the origin is the user's too: the same mesh far from it (coordinates of size 1e5 for a part of size 1), where the positions of
    # points on edges and nodes carry a round-off of 1e-11
    offset = None
    if mc in ("gmsh", "organised", "affine") and unit == 1.0 and case["index"] % 3 == 1:
        offset = np.zeros(3)
        offset[:dim] = rng.choice([-1.0, 1.0], dim) * rng.uniform(0.5, 1.5, dim) * 1e5
        with quiet():
            mesh = gm.rebuild(mesh, coord=mesh.coord + offset)
        key = key + "@far-from-origin"
        ctx.default_key = key
        ctx.event("far-from-origin")
    order = gm.ORDER[et]
    X = mesh.coord
    tensor = shape in ("QUAD", "HEXA")
    # gmsh's unstructured quads / extruded hexas are general (non-parallelogram) as well
    if tensor:
        deg = 2 if et in ("QUAD9", "HEXA27") else 1
    elif shape == "PRISM":
        deg = order  # triangle x segment: affine prisms for extruded triangles
    else:
        deg = order
    f0 = _poly_field(rng, dim, deg)
    f = (lambda P: f0(np.asarray(P) / unit)) if unit != 1.0 else f0      # the same field, written in the user's unit
    if offset is not None:
        f = lambda P: f0(np.asarray(P) - offset)  # noqa: E731  (the same field about the part's own corner)
    vals = f(X)
    dofs = vals.ravel()
    groups = mesh.Get_list_groupElem(dim)
    # ---- query points built by the harness inside known elements -------------------------------------
    def points_in(g, elems, cls):
        nv = geo.NVERT[geo.topo(g.elemType.value)]
        V = X[g.connect[elems][:, :nv]]  # (m, nv, 3)
        gshape = geo.topo(g.elemType.value)
        m = len(elems)
        if gshape in ("SEG", "TRI", "TETRA"):
            W = _ref_points(gshape, rng, m, cls)
            return np.einsum("mv,mvd->md", W, V)
        # tensor / prism shapes: multilinear map of the vertices at random reference coordinates
        if gshape == "QUAD":
            s, t = (rng.uniform(0.05, 0.95, m), rng.uniform(0.05, 0.95, m))
            if cls == "edge":
                s = np.where(rng.random(m) < 0.5, 0.0, 1.0)
            if cls == "node":
                s, t = rng.integers(2, size=m).astype(float), rng.integers(2, size=m).astype(float)
            N = np.stack([(1 - s) * (1 - t), s * (1 - t), s * t, (1 - s) * t], 1)
            return np.einsum("mv,mvd->md", N, V)
        if gshape == "HEXA":
            s, t, u = (rng.uniform(0.05, 0.95, m) for _ in range(3))
            if cls == "edge":
                s = np.where(rng.random(m) < 0.5, 0.0, 1.0)
            if cls == "node":
                s, t, u = (rng.integers(2, size=m).astype(float) for _ in range(3))
            N = np.stack([(1 - s) * (1 - t) * (1 - u), s * (1 - t) * (1 - u), s * t * (1 - u), (1 - s) * t * (1 - u),
                          (1 - s) * (1 - t) * u, s * (1 - t) * u, s * t * u, (1 - s) * t * u], 1)
            return np.einsum("mv,mvd->md", N, V)
        if gshape == "PRISM":
            W = _ref_points("TRI", rng, m, cls if cls != "edge" else "interior")
            u = rng.uniform(0.05, 0.95, m) if cls == "interior" else (np.where(rng.random(m) < 0.5, 0.0, 1.0) if cls == "edge" else rng.integers(2, size=m).astype(float))
            N = np.concatenate([W * (1 - u)[:, None], W * u[:, None]], 1)
            return np.einsum("mv,mvd->md", N, V)
        raise ValueError(gshape)

    nontrivial = False
    g = groups[int(rng.integers(len(groups)))]
    for cls, batch in [("interior", "single"), ("interior", "per-element-multi"), ("interior", f"batch-{dim}"), ("interior", "batch-large"),
                       ("edge", "batch"), ("node", "batch")]:
        if batch == "single":
            elems = rng.integers(g.Ne, size=1)
        elif batch == "per-element-multi":
            e0 = rng.integers(g.Ne, size=2)
            elems = np.repeat(e0, [3, 2])  # several points inside the same element
        elif batch == f"batch-{dim}":
            elems = np.repeat(rng.integers(g.Ne, size=1), dim)  # batch size == dim, all in one element
        elif batch == "batch-large":
            elems = rng.integers(g.Ne, size=int(rng.integers(10, 40)))
        else:
            elems = rng.integers(g.Ne, size=8)
        P = points_in(g, elems, cls)
        ckey = f"{key}/{cls}/{batch if not batch.startswith('batch-') or batch == 'batch-large' else 'batch-eq-dim'}"
        try:
            with ctx.monitored("location-no-exception", ckey + "/raised"):
                with quiet():
                    got = mesh.Evaluate_dofsValues_at_coordinates(P, dofs)
        except Exception as e:  # noqa: BLE001
            if type(e).__name__ == "MonitoredFailure":
                continue
            raise
        want = f(P)
        # general quads / hexas go through scipy.optimize.least_squares with its default 1e-8 tolerances
        tol = 1e-6 if tensor else 1e-9
        if offset is not None:
            tol = max(tol, 1e-7)  # positions given at 1e5 carry a round-off of 1e-11 of the part's size, amplified by the polynomial's gradient
        if cls in ("edge", "node") and len(groups) == 1 and mc != "warped-faces":
            # the optional list of candidate elements, given in no particular order
            with ctx.monitored("location-no-exception", ckey + "/elements-argument/raised"):
                with quiet():
                    got_el = mesh.Evaluate_dofsValues_at_coordinates(P, dofs, rng.permutation(g.Ne))
            ctx.check("location-values", relerr(got_el, want, scale=np.abs(vals).max()), tol, ckey + "/values@elements-given-unsorted", n=len(P), et=et)
        if mc == "warped-faces":
            # two questions, two keys: is every point (built inside an element, or on its boundary) found in some element at all,
            # and is the field right at the points that were found
            with quiet():
                found = np.zeros(len(P), bool)
                found[np.asarray(g.Get_Mapping(P, needCoordinates=False)[0], int)] = True
            ctx.require("location-found", bool(found.all()), ckey + "/found", n=len(P), not_found=int((~found).sum()))
            if found.any():
                ctx.check("location-values", relerr(np.asarray(got).reshape(len(P), -1)[found], np.asarray(want).reshape(len(P), -1)[found], scale=np.abs(vals).max()), tol, ckey + "/values-where-found", n=int(found.sum()), et=et)
            nontrivial = True
            continue
        ctx.check("location-values", relerr(got, want, scale=np.abs(vals).max()), tol, ckey + "/values", n=len(P), degree=deg, et=et)
        nontrivial = True
    if dim == 2 and mc == "gmsh":
        # a full grid of integer (pixel) coordinates over a rectangle mesh with integer corners, as image-based measurements give
        # them: every pixel, those on the upper sides of the rectangle included, carries the field
        with ctx.monitored("no-exception", key + "/pixel-grid/raised"):
            with quiet():
                nxp, nyp = int(rng.integers(6, 12)), int(rng.integers(5, 10))
                rect = np.array([[0, 0], [nxp, 0], [nxp, nyp], [0, nyp]], float)
                gmesh = gm.mesh2d(rect, et, float(rng.uniform(1.5, 3.0)))
                xs_, ys_ = np.meshgrid(np.arange(0, nxp + 1), np.arange(0, nyp + 1))
                Pi = np.c_[xs_.ravel(), ys_.ravel(), np.zeros(xs_.size, int)]
                fl = _poly_field(rng, 2, 1)
                gdofs = fl(gmesh.coord).ravel()
                got_i = mesh_eval(gmesh, Pi, gdofs)
                got_f = mesh_eval(gmesh, Pi.astype(float), gdofs)
        want = fl(Pi.astype(float))
        ctx.check("location-values", relerr(got_f, want, scale=np.abs(want).max()), 1e-6 if tensor else 1e-9, key + "/pixel-grid/float-coordinates", n=len(Pi), et=et)
        ctx.check("location-values", relerr(got_i, want, scale=np.abs(want).max()), 1e-6 if tensor else 1e-9, key + "/pixel-grid/integer-coordinates", n=len(Pi), et=et)
        # the same integer points as a batch that is a full grid too, but not the pixels of an image listed row by row from (0, 0):
        # a window of the grid that starts elsewhere, the whole grid listed column by column, and in random order
        x0_, y0_ = int(rng.integers(1, 3)), int(rng.integers(1, 3))
        win = (Pi[:, 0] >= x0_) & (Pi[:, 1] >= y0_) & (Pi[:, 0] <= nxp - 1)
        order_c = np.lexsort((Pi[:, 1], Pi[:, 0]))
        for tag, sel_ in (("window-not-at-origin", np.where(win)[0]), ("column-by-column", order_c), ("shuffled", rng.permutation(len(Pi)))):
            with ctx.monitored("no-exception", f"{key}/pixel-grid/{tag}/raised"):
                with quiet():
                    got_w = mesh_eval(gmesh, Pi[sel_], gdofs)
            ctx.check("location-values", relerr(got_w, want[sel_], scale=np.abs(want).max()), 1e-6 if tensor else 1e-9, f"{key}/pixel-grid/integer-coordinates@{tag}", n=len(sel_), et=et)
    ctx.describe(f"locate/{et}/{mc}", nontrivial and mesh.Ne >= 2 and deg >= 1, et=et, mesh=mc, degree=deg, Ne=mesh.Ne)


def run_projector(case, ctx, rng):
    et = case["et"]
    key = f"C08/projector/{et}"
    ctx.default_key = key
    shape = geo.topo(et)
    dim = 2 if shape in ("TRI", "QUAD") else 3
    with ctx.monitored("no-exception", key + "/raised"):
        with quiet():
            poly = gm.random_polygon(rng, n=int(rng.integers(4, 6)), concave=False)
            h = 0.8
            ms1, ms2 = (0.55, 0.4) if dim == 2 else (0.9, 0.7)
            if dim == 2:
                old, new = gm.mesh2d(poly, et, ms1), gm.mesh2d(poly, et, ms2)
            else:
                old, new = gm.mesh3d(poly, et, h, 1, ms1), gm.mesh3d(poly, et, h, 2, ms2)
            if len(old.Get_list_groupElem(dim)) > 1 or len(new.Get_list_groupElem(dim)) > 1:
                ctx.describe(f"projector/{et}/skipped-multigroup", False)
                return
            proj = Calc_projector(old, new)
    gvec = np.zeros(3)
    gvec[:dim] = rng.uniform(-1, 1, dim)
    uo = old.coord @ gvec + 0.7
    un = new.coord @ gvec + 0.7
    used = gm.used_nodes(new)
    got = proj @ uo
    ctx.require("projector-shape", proj.shape == (new.Nn, old.Nn), key + "/shape")
    ctx.check("projector-linear", relerr(got[used], un[used]), 1e-6 if shape in ("QUAD", "HEXA") else 1e-9, key + "/linear", Nn_old=old.Nn, Nn_new=new.Nn)
    rowsum = np.asarray(proj.sum(1)).ravel()
    ctx.check("projector-partition-of-unity", float(np.abs(rowsum[used] - 1).max()), 1e-9, key + "/rowsum")
    ctx.describe(f"projector/{et}", True, et=et, Nn_old=old.Nn, Nn_new=new.Nn)
