"""C06 — shape functions interpolate and their derivative tables are the true derivatives.

Oracle: the real callables returned by _N(), _dN(), ... are executed on polynomial-ring elements (sympy
symbols); the observed polynomials are compared coefficient-wise with what the property states.
Complete enumeration of 19 Lagrange types + 4 Hermite families x all functions x all tables.
"""

from __future__ import annotations

import itertools

import numpy as np
import sympy as sp

from EasyFEA import ElemType, MatrixType
from EasyFEA.FEM import GroupElemFactory
from EasyFEA.FEM.Elems import _beam as EB

from ..core import Ctx, quiet, relerr
from ..gen import meshes as gm

PROP = "C06"
NUM = 6
EXHAUSTIVE = True
RULE = (
    "complete enumeration: every tabulated callable of the 19 Lagrange element types (tables N, dN, ddN, dddN, ddddN) and "
    "of the 4 Hermite beam families (N, dN, ddN, dddN) is executed on sympy symbols and compared as a polynomial; plus, per "
    "type and matrix type, the evaluation path (Get_*_pg, Get_dN_e_pg on random affine elements). Signature = (element "
    "type, table). Non-trivial iff the table is not identically zero or the identity checked involves >= 2 functions."
)
ASSUMPTIONS = [
    "coefficient-wise comparison with relative tolerance 1e-9 (tables carry 15-digit decimal constants)",
    "second and higher tables hold pure derivatives d^k/dxi_d^k, as documented in _group_elem.py",
    "Hermite slope functions have reference slope 1/2 (half-length of the reference segment) at their own node",
]
TIMEOUT_CASE = 600
LAGRANGE = gm.ET_1D + gm.ET_2D + gm.ET_3D
HERMITE = ["EULER_BERNOULLI2", "EULER_BERNOULLI3", "EULER_BERNOULLI4", "EULER_BERNOULLI5"]
MIN_EVALS = {"kronecker": 19, "partition-of-unity": 19, "reproduction": 19, "table-derivative": 19 * 4, "hermite-interpolation": 4,
             "hermite-derivative": 12, "eval-path": 19}
REQUIRED_COVERAGE = ["Eval_Functions", "Get_dN_e_pg"]
COEF_TOL = 1e-9


def anchors():
    from EasyFEA.FEM._group_elem import _GroupElem

    return [
        ("Eval_Functions", _GroupElem, "_Eval_Functions"),
        ("Get_N_pg", _GroupElem, "Get_N_pg"),
        ("Get_dN_pg", _GroupElem, "Get_dN_pg"),
        ("Get_dN_e_pg", _GroupElem, "Get_dN_e_pg"),
        ("Get_ddN_pg", _GroupElem, "Get_ddN_pg"),
    ]


def cases(tier: str, seed: int) -> list[dict]:
    out = []
    for et in LAGRANGE:
        out.append({"kind": "lagrange", "et": et})
        out.append({"kind": "evalpath", "et": et, "n": 3 if tier == "quick" else 12})
    for fam in HERMITE:
        out.append({"kind": "hermite", "et": fam})
        out.append({"kind": "hermite-evalpath", "et": fam})
        out.append({"kind": "hermite-physical", "et": fam})
    # every element type used one after the other in ONE process, in two orders: a table must not depend on which types were used before
    out.append({"kind": "sequence", "et": "all-forward", "order": "forward"})
    out.append({"kind": "sequence", "et": "all-reverse", "order": "reverse"})
    for i, c in enumerate(out):
        c["id"] = f"C06-{i:03d}-{c['kind']}-{c['et']}"
        c["index"] = i
    return out


# ------------------------------------------------------------------------------------------
SYMS = sp.symbols("xi eta zeta")


def reference_group(et: str):
    """One element whose physical coordinates are its own reference coordinates."""
    elemType = ElemType(et)
    nPe = GroupElemFactory.DICT_ELEMTYPE[elemType][1]
    dummy = GroupElemFactory.Create(elemType, np.arange(nPe)[None, :], np.zeros((nPe, 3)))
    loc = np.asarray(dummy.Get_Local_Coords(), float)
    coords = np.zeros((nPe, 3))
    coords[:, : loc.shape[1]] = loc
    return GroupElemFactory.Create(elemType, np.arange(nPe)[None, :], coords), loc


def as_poly(f, dim):
    expr = sp.sympify(f(*SYMS[:dim]))
    return sp.Poly(sp.expand(expr), *SYMS[:dim])


def poly_maxcoef(p: sp.Poly) -> float:
    cs = [abs(float(c)) for c in p.coeffs()]
    return max(cs) if cs else 0.0


def poly_diff_err(a: sp.Poly, b: sp.Poly) -> float:
    """max |coef(a-b)| / max(1, max|coef(b)|)."""
    d = a - b
    return poly_maxcoef(d) / max(1.0, poly_maxcoef(b))


def run_case(case: dict, ctx: Ctx) -> None:
    {"lagrange": run_lagrange, "evalpath": run_evalpath, "hermite": run_hermite, "hermite-evalpath": run_hermite_evalpath,
     "hermite-physical": run_hermite_physical, "sequence": run_sequence}[case["kind"]](case, ctx)


def run_lagrange(case, ctx):
    et = case["et"]
    key = f"C06/{et}"
    ctx.default_key = key
    g, loc = reference_group(et)
    dim, nPe, order = g.dim, g.nPe, g.order
    syms = SYMS[:dim]
    with ctx.monitored("tables-callable-on-symbols", key + "/symbolic-eval"):
        N = [as_poly(f[0], dim) for f in g._N()]
        tables = {1: g._dN(), 2: g._ddN(), 3: g._dddN(), 4: g._ddddN()}
        T = {k: [[as_poly(tab[i][d], dim) for d in range(dim)] for i in range(nPe)] for k, tab in tables.items()}
    ctx.require("table-shapes", len(N) == nPe and all(np.shape(t) == (nPe, dim) for t in tables.values()), key + "/shapes")

    # 1. Kronecker property at the element's own nodes
    V = np.array([[float(Ni.eval(tuple(map(float, x)))) if dim > 1 else float(Ni.eval(float(x[0]))) for x in loc] for Ni in N])
    ctx.check("kronecker", float(np.abs(V - np.eye(nPe)).max()), 1e-12, key + "/kronecker")
    # 2. partition of unity (identity between polynomials)
    ctx.check("partition-of-unity", poly_maxcoef(sum(N[1:], N[0]) - sp.Poly(1, *syms)), COEF_TOL, key + "/partition-of-unity")
    # 3. reproduction of every monomial of total degree <= order
    worst, nm = 0.0, 0
    for powers in itertools.product(range(order + 1), repeat=dim):
        if sum(powers) > order:
            continue
        m = sp.Poly(sp.prod([s**p for s, p in zip(syms, powers)]), *syms)
        vals = [float(np.prod([x[d] ** powers[d] for d in range(dim)])) for x in loc]
        interp = sum((sp.Poly(v, *syms) * Ni for v, Ni in zip(vals, N)), sp.Poly(0, *syms))
        worst = max(worst, poly_diff_err(interp, m))
        nm += 1
    ctx.check("reproduction", worst, COEF_TOL, key + "/reproduction", monomials=nm, order=order)
    # 4. table k == k-th pure derivative of table 0, for every function and direction
    nonzero = 0
    for k in (1, 2, 3, 4):
        worst = 0.0
        for i in range(nPe):
            for d in range(dim):
                want = N[i]
                for _ in range(k):
                    want = want.diff(syms[d])
                worst = max(worst, poly_diff_err(T[k][i][d], want))
                nonzero += int(not want.is_zero)
        ctx.check("table-derivative", worst, COEF_TOL, key + f"/d{k}N", k=k)
    ctx.describe(f"lagrange/{et}", True, et=et, nPe=nPe, dim=dim, order=order, expressions=nPe * (1 + 4 * dim), nonzero_derivative_entries=nonzero,
                 N0=str(N[0].as_expr())[:120])
    ctx.event("expressions", nPe * (1 + 4 * dim))


def run_evalpath(case, ctx):
    """Get_N_pg / Get_dN_pg / Get_ddN_pg ... equal the callables at the Gauss points of every matrix type;
    Get_dN_e_pg differentiates polynomial nodal fields of degree <= order exactly on random affine elements."""
    et = case["et"]
    key = f"C06/{et}/eval-path"
    ctx.default_key = key
    rng = np.random.default_rng([case["seed"], NUM, case["index"]])
    g, loc = reference_group(et)
    dim, nPe, order = g.dim, g.nPe, g.order
    mts = [MatrixType.rigi, MatrixType.mass] + ([MatrixType.beam, MatrixType.beam_shear] if dim == 1 else [])
    worst = 0.0
    with ctx.monitored("no-exception", key + "/raised"):
        for mt in mts:
            P = g.Get_gauss(mt).coord
            for getter, tab in ((g.Get_N_pg, g._N()), (g.Get_dN_pg, g._dN()), (g.Get_ddN_pg, g._ddN()), (g.Get_dddN_pg, g._dddN()), (g.Get_ddddN_pg, g._ddddN())):
                got = getter(mt)
                want = np.array([[[float(tab[i][f](*pt)) for i in range(nPe)] for f in range(tab.shape[1])] for pt in P])
                worst = max(worst, relerr(got, want, scale=1.0))
    ctx.check("eval-path", worst, 1e-13, key + "/tables-at-gauss-points", matrixTypes=[str(m) for m in mts])
    # the evaluation helper at the element's own nodes, given exactly as Get_Local_Coords() returns them (an integer array for the
    # element types whose reference nodes have integer coordinates) and as floats: values and derivatives of every table
    from EasyFEA.FEM._group_elem import _GroupElem  # noqa: PLC0415
    worst = 0.0
    with ctx.monitored("no-exception", key + "/at-nodes/raised"):
        raw = g.Get_Local_Coords()
        for pts in (raw, np.asarray(raw, float)):
            for tab in (g._N(), g._dN(), g._ddN()):
                got = np.asarray(_GroupElem._Eval_Functions(tab, np.asarray(pts)), float)
                want = np.array([[[float(tab[i][f](*[float(c_) for c_ in pt])) for i in range(nPe)] for f in range(tab.shape[1])] for pt in np.asarray(pts)])
                worst = max(worst, float(np.abs(got - want).max()))
    ctx.check("eval-path", worst, 1e-13, key + "/tables-at-nodes", points_dtype=str(np.asarray(raw).dtype))

    # physical gradient on affine images of the reference element
    worst = 0.0
    for _ in range(case["n"]):
        A, t = gm.affine_map(rng, dim)
        X = np.zeros((nPe, 3))
        X[:, :dim] = loc
        Xp = X @ A.T + t
        gp = GroupElemFactory.Create(ElemType(et), np.arange(nPe)[None, :], Xp)
        # random polynomial of total degree <= order in physical coordinates
        terms = [pw for pw in itertools.product(range(order + 1), repeat=dim) if sum(pw) <= order]
        coefs = rng.normal(size=len(terms))

        def f(x):
            return sum(c * np.prod([x[..., d] ** pw[d] for d in range(dim)], axis=0) for c, pw in zip(coefs, terms))

        def gradf(x):
            out = np.zeros(x.shape[:-1] + (dim,))
            for c, pw in zip(coefs, terms):
                for d in range(dim):
                    if pw[d] == 0:
                        continue
                    q = list(pw)
                    q[d] -= 1
                    out[..., d] += c * pw[d] * np.prod([x[..., e] ** q[e] for e in range(dim)], axis=0)
            return out

        vals = f(Xp)
        with ctx.monitored("no-exception", key + "/raised"):
            for mt in (MatrixType.rigi, MatrixType.mass):
                dN = np.asarray(gp.Get_dN_e_pg(mt))  # (1, nPg, dim, nPe)
                xg = np.asarray(gp.Get_GaussCoordinates_e_pg(mt))[0]  # (nPg, 3)
                got = np.einsum("pdn,n->pd", dN[0], vals)
                want = gradf(xg)
                worst = max(worst, relerr(got, want, scale=np.abs(want).max() + np.abs(coefs).max()))
    ctx.check("physical-gradient", worst, 1e-9, key + "/physical-gradient")
    ctx.describe(f"evalpath/{et}", True, et=et, affine_elements=case["n"])


# ------------------------------------------------------------------------------------------
def hermite_group(fam: str):
    cls = getattr(EB, fam)
    seg = "SEG" + fam[-1]
    elemType = ElemType(seg)
    gmshId, nPe = GroupElemFactory.DICT_ELEMTYPE[elemType][:2]
    ref, loc = reference_group(seg)
    coords = np.zeros((nPe, 3))
    coords[:, 0] = loc[:, 0]
    return cls(gmshId, np.arange(nPe)[None, :], coords), loc[:, 0]


def run_hermite(case, ctx):
    fam = case["et"]
    key = f"C06/{fam}"
    ctx.default_key = key
    g, xs = hermite_group(fam)
    nPe = g.nPe
    r = SYMS[0]
    with ctx.monitored("tables-callable-on-symbols", key + "/symbolic-eval"):
        H = [as_poly(f[0], 1) for f in g._Hermitian_N()]
        tabs = {1: g._Hermitian_dN(), 2: g._Hermitian_ddN(), 3: g._Hermitian_dddN()}
        T = {k: [as_poly(t[i][0], 1) for i in range(2 * nPe)] for k, t in tabs.items()}
    ctx.require("table-shapes", len(H) == 2 * nPe, key + "/shapes", n=len(H))
    # interpolation conditions: functions ordered [phi_1, psi_1, phi_2, psi_2, ...]
    val = np.array([[float(h.eval(float(x))) for x in xs] for h in H])
    slope = np.array([[float(h.diff(r).eval(float(x))) for x in xs] for h in H])
    want_val = np.zeros((2 * nPe, nPe))
    want_slope = np.zeros((2 * nPe, nPe))
    for n in range(nPe):
        want_val[2 * n, n] = 1.0
        want_slope[2 * n + 1, n] = 0.5
    err = max(np.abs(val - want_val).max(), np.abs(slope - want_slope).max())
    ctx.check("hermite-interpolation", float(err), 1e-10, key + "/interpolation", own_slopes=np.diag(slope[1::2]).tolist())
    for k in (1, 2, 3):
        worst = 0.0
        for i in range(2 * nPe):
            want = H[i]
            for _ in range(k):
                want = want.diff(r)
            worst = max(worst, poly_diff_err(T[k][i], want))
        ctx.check("hermite-derivative", worst, COEF_TOL, key + f"/d{k}N", k=k)
    ctx.describe(f"hermite/{fam}", True, family=fam, functions=2 * nPe, degree=int(max(h.degree() for h in H)))
    ctx.event("expressions", 2 * nPe * 4)


def run_sequence(case, ctx):
    """All Lagrange types in one process: shapes of N .. ddddN tables and of their Gauss-point evaluations, and each table
    still the derivative of the previous one at random points (central differences), whatever was used before."""
    key = f"C06/sequence/{case['order']}"
    ctx.default_key = key
    ets = list(LAGRANGE) if case["order"] == "forward" else list(LAGRANGE)[::-1]
    rng = np.random.default_rng(7)
    for rnd in range(2):
        for et in ets:
            with ctx.monitored("no-exception", f"{key}/{et}/raised"):
                g, loc = reference_group(et)
                dim, nPe = g.dim, g.nPe
                tabs = [g._N(), g._dN(), g._ddN(), g._dddN(), g._ddddN()]
            shapes_ok = tabs[0].shape == (nPe, 1) and all(t.shape == (nPe, dim) for t in tabs[1:])
            ctx.require("table-shapes", shapes_ok, f"{key}/{et}/table-shapes", shapes=[list(t.shape) for t in tabs], nPe=nPe, dim=dim, round=rnd)
            if not shapes_ok:
                continue
            with ctx.monitored("no-exception", f"{key}/{et}/pg/raised"):
                pg = [g.Get_N_pg(MatrixType.mass), g.Get_dN_pg(MatrixType.mass), g.Get_ddN_pg(MatrixType.mass), g.Get_dddN_pg(MatrixType.mass), g.Get_ddddN_pg(MatrixType.mass)]
            nPg = g.Get_gauss(MatrixType.mass).nPg
            ok = pg[0].shape == (nPg, 1, nPe) and all(p_.shape == (nPg, dim, nPe) for p_ in pg[1:])
            ctx.require("table-shapes", ok, f"{key}/{et}/pg-shapes", shapes=[list(p_.shape) for p_ in pg], round=rnd)
            # k-th table along axis d = derivative of the (k-1)-th along the same axis (pure derivatives d^k/dx_d^k)
            pts = np.asarray(loc, float).mean(0) + rng.uniform(-0.05, 0.05, size=(3, dim))
            h = 1e-4   # truncation h^2/6 times the third derivative ~ 3e-6 on the quartic triangle, round-off ~ 1e-10
            worst = 0.0
            for k in range(1, 5):
                for d in range(dim):
                    for i in range(nPe):
                        for pt in pts:
                            e = np.zeros(dim)
                            e[d] = h
                            prev = tabs[k - 1][i, 0 if k == 1 else d]
                            fd = (prev(*(pt + e)) - prev(*(pt - e))) / (2 * h)
                            worst = max(worst, abs(float(tabs[k][i, d](*pt)) - float(fd)))
            ctx.check("sequence-derivative", worst, 1e-4, f"{key}/{et}/tables-consistent", round=rnd)
    ctx.describe(f"sequence/{case['order']}", True, order=case["order"], types=len(ets))


def run_hermite_physical(case, ctx):
    """Physical Hermitian tables on elements of several lengths (none of them 1 or 2): with the nodal values and slopes of a
    random polynomial of degree 2 nPe - 1 as dofs, N, dN, ddN, dddN reproduce the polynomial and its first three
    x-derivatives at the integration points - the derivative consistency of the tables after the map to the element."""
    fam = case["et"]
    key = f"C06/{fam}/physical"
    ctx.default_key = key
    cls = getattr(EB, fam)
    seg = "SEG" + fam[-1]
    gmshId, nPe = GroupElemFactory.DICT_ELEMTYPE[ElemType(seg)][:2]
    _, loc = reference_group(seg)
    rng = np.random.default_rng([case.get("seed", 0), 6, nPe])
    lengths = [0.37, 1.9, 3.3, float(rng.uniform(0.2, 5))]
    coords, connect, x0 = [], [], float(rng.uniform(-1, 1))
    for L in lengths:
        base = len(coords)
        for xi in loc[:, 0]:
            coords.append([x0 + (xi + 1) / 2 * L, 0.0, 0.0])
        connect.append(list(range(base, base + nPe)))
        x0 += L
    coords, connect = np.array(coords), np.array(connect)
    deg = 2 * nPe - 1
    c = rng.normal(size=deg + 1)
    P = np.polynomial.Polynomial(c)
    with ctx.monitored("no-exception", key + "/raised"):
        g = cls(gmshId, connect, coords)
        xi_g = np.asarray(g.Get_gauss(MatrixType.beam).coord, float)[:, 0]
        tabs = [np.asarray(t, float) for t in (g.Get_Hermitian_N_e_pg(), g.Get_Hermitian_dN_e_pg(), g.Get_Hermitian_ddN_e_pg(), g.Get_Hermitian_dddN_e_pg())]
    for k, tab in enumerate(tabs):
        worst = 0.0
        for e, L in enumerate(lengths):
            xn = coords[connect[e], 0]
            dofs = np.empty(2 * nPe)
            dofs[0::2] = P(xn)
            dofs[1::2] = P.deriv(1)(xn)
            xg = xn[0] + (xi_g + 1) / 2 * L if abs(loc[0, 0] + 1) < 1e-12 else None
            if xg is None:
                xg = coords[connect[e], 0].min() + (xi_g + 1) / 2 * L
            want = (P.deriv(k) if k else P)(xg)
            got = tab[e, :, 0, :] @ dofs
            worst = max(worst, float(np.abs(got - want).max() / (np.abs(want).max() + np.abs(c).max())))
        ctx.check("hermite-physical-derivative", worst, 1e-10, key + f"/d{k}N", k=k, lengths=lengths)
    ctx.describe(f"hermite-physical/{fam}", True, family=fam, lengths=lengths)


def run_hermite_evalpath(case, ctx):
    fam = case["et"]
    key = f"C06/{fam}/eval-path"
    ctx.default_key = key
    g, xs = hermite_group(fam)
    worst = 0.0
    with ctx.monitored("no-exception", key + "/raised"):
        P = g.Get_gauss(MatrixType.beam).coord
        for getter, tab in ((g.Get_Hermitian_N_pg, g._Hermitian_N()), (g.Get_Hermitian_dN_pg, g._Hermitian_dN()),
                            (g.Get_Hermitian_ddN_pg, g._Hermitian_ddN()), (g.Get_Hermitian_dddN_pg, g._Hermitian_dddN())):
            got = getter()
            want = np.array([[[float(tab[i][0](pt[0])) for i in range(tab.shape[0])]] for pt in P])
            worst = max(worst, relerr(got, want, scale=1.0))
    ctx.check("eval-path", worst, 1e-13, key + "/tables-at-gauss-points")
    ctx.describe(f"hermite-evalpath/{fam}", True, family=fam)
