"""C09 — distributed loads are integrated to the correct resultant force and moment.

Oracle: exact integrals of polynomial densities over straight edges / planar polygonal faces / polygonal or
extruded domains computed here; observation through Bc_vector_Neumann() and mesh.coord.
"""

from __future__ import annotations

import itertools

import numpy as np

from EasyFEA import Models, Simulations

from . import _suite
from ..core import Ctx, quiet, relerr
from ..gen import meshes as gm
from ..ref import geometry as geo
from . import _beam_common as bcm

PROP = "C09"
NUM = 9
RULE = (
    "cases = (load kind line/surf/volume/pressure/point/beam-line, simulation type, element type, density form "
    "const/nodal-array/callable, selection class exact/with-stray-nodes/partial) x seeded polygons, thickness, densities. "
    "Signature = (load, simulation, element type, density form). Non-trivial iff >= 2 loaded elements and a non-zero density."
)
ASSUMPTIONS = [
    "polynomial densities of degree within the exactness of the element's mass rule (degree given per element type in max_degree())",
    "loaded regions are straight edges, planar caps / lateral faces of extrusions, whole polygons / extrusions",
    "pressure: collinearity with the geometric face normal and magnitude p*A are judged; the sign follows the face orientation (C08 finding)",
]
TIMEOUT_CASE = 300
MIN_EVALS = {"resultant-force": 40, "resultant-moment": 35, "pressure-resultant": 8, "point-load-total": 6, "stray-nodes-ignored": 10}
REQUIRED_COVERAGE = ["Bc_Integration_Dim", "Get_Elements_Nodes", "Bc_pointLoad", "Bc_pressureload"]

SIMS = ["elastic", "thermal", "phasefield", "hyperelastic", "inelastic", "weakforms"]


def anchors():
    from EasyFEA.Simulations._simu import _Simu
    from EasyFEA.FEM._group_elem import _GroupElem
    from EasyFEA.Simulations._beam import Beam

    return [
        ("Bc_Integration_Dim", _Simu, "_Simu__Bc_Integration_Dim"),
        ("Bc_pointLoad", _Simu, "_Simu__Bc_pointLoad"),
        ("Bc_pressureload", _Simu, "_Simu__Bc_pressureload"),
        ("Get_Elements_Nodes", _GroupElem, "Get_Elements_Nodes"),
        ("beam_add_lineLoad", Beam, "add_lineLoad"),
        ("add_surfLoad", _Simu, "add_surfLoad"),
        ("add_volumeLoad", _Simu, "add_volumeLoad"),
    ]


def max_degree(et: str, general: bool) -> int:
    """Largest density degree d such that density * N_i (* Jacobian) is within the exactness of the mass rule."""
    o = gm.ORDER[et]
    shape = geo.topo(et)
    if shape == "SEG":
        n = {1: 2, 2: 3, 3: 4, 4: 5}[o]
        return min(3, 2 * n - 1 - o)
    if shape == "TRI":
        return {1: 1, 2: 1, 3: 2, 4: 1}[o]
    if shape == "TETRA":
        return {1: 1, 2: 3}[o]
    if shape in ("QUAD", "HEXA"):
        n = 2 if o == 1 else 3
        return max(0, (2 * n - 1) - o - (1 if general else 0))
    if shape == "PRISM":
        return {1: 1, 2: 3}[o]
    raise ValueError(et)


def boundary_type(et: str) -> list[str]:
    """Element types of the (dim-1) groups."""
    m = {"TRI3": ["SEG2"], "TRI6": ["SEG3"], "TRI10": ["SEG4"], "TRI15": ["SEG5"], "QUAD4": ["SEG2"], "QUAD8": ["SEG3"], "QUAD9": ["SEG3"],
         "TETRA4": ["TRI3"], "TETRA10": ["TRI6"], "HEXA8": ["QUAD4"], "HEXA20": ["QUAD8"], "HEXA27": ["QUAD9"],
         "PRISM6": ["TRI3", "QUAD4"], "PRISM15": ["TRI6", "QUAD8"], "PRISM18": ["TRI6", "QUAD9"]}
    return m[et]


def cases(tier: str, seed: int) -> list[dict]:
    out = []
    rep = 1 if tier == "quick" else 8
    k = 0
    for r in range(rep):
        for et in gm.ET_2D + gm.ET_3D:
            dim = 2 if et in gm.ET_2D else 3
            loads = ["line", "surf", "volume", "pressure", "point"]
            for load in loads:
                sim = SIMS[(k + r) % len(SIMS)] if load != "pressure" else ["elastic", "phasefield", "hyperelastic", "inelastic"][(k + r) % 4]
                if sim == "weakforms" and load == "pressure":
                    sim = "elastic"
                out.append({"load": load, "sim": sim, "et": et, "dim": dim, "form": ["const", "array", "callable"][(k + r) % 3],
                            "sel": ["exact", "stray", "partial"][(k // 2 + r) % 3]})
                k += 1
                if load in ("line", "surf", "volume") and (k + r) % 2 == 1:
                    out.append({"load": load, "sim": sim, "et": et, "dim": dim, "form": ["const", "array", "callable"][(k + r) % 3], "sel": "dup"})
                if load in ("line", "surf") and (k + r) % 2 == 0:
                    out.append({"load": load, "sim": sim, "et": et, "dim": dim, "form": ["const", "array", "callable"][(k + r) % 3], "sel": "bulk"})
        # the whole boundary of a 2-D mesh as loaded region (a closed contour: as many boundary elements as nodes on linear meshes)
        for j, et in enumerate(["TRI3", "QUAD4", "TRI6", "QUAD8"]):
            for load in ("line", "surf"):
                out.append({"load": load, "sim": ["elastic", "thermal", "phasefield", "hyperelastic"][(j + r + (load == "surf")) % 4], "et": et, "dim": 2,
                            "form": ["array", "const", "callable"][(j + r + (load == "surf")) % 3] if et != "TRI3" else "array", "sel": "closed"})
        # loads on the curved boundary of a hole (elements of order >= 2): a pressure on a closed boundary has no resultant and no moment
        # about any point, a body force integrates to intensity x measure of the curved domain
        for j, et in enumerate([e for e in gm.ET_2D + gm.ET_3D if gm.ORDER[e] >= 2]):
            if tier == "quick" and et in ("HEXA27", "PRISM18", "HEXA20", "PRISM15", "TETRA10") and (j + r) % 2:
                continue
            out.append({"load": "curved-hole", "sim": ["elastic", "hyperelastic", "phasefield", "inelastic"][(j + r) % 4], "et": et, "dim": 2 if et in gm.ET_2D else 3,
                        "form": "const", "sel": "exact", "scale": [1.0, 1e-3, 1e2][(j + r) % 3]})
        for et in gm.ET_1D:
            for theory in ("EB", "Timo"):
                for bdim in (1, 2, 3):
                    out.append({"load": "beam-line", "sim": "beam", "et": et, "dim": bdim, "theory": theory, "form": ["const", "array", "callable"][(k + r) % 3], "sel": "exact"})
                    k += 1
                    if bdim > 1:
                        # the same member at a generic inclination, loads given in the global axes
                        out.append({"load": "beam-line", "sim": "beam", "et": et, "dim": bdim, "theory": theory, "form": ["const", "array", "callable"][(k + r) % 3], "sel": "inclined",
                                    "incl": True})
                        k += 1
    for i, c in enumerate(out):
        c["id"] = f"C09-{i:05d}-{c['load']}-{c['sim']}-{c['et']}-{c['form']}-{c['sel']}"
        c["index"] = i
    for c in _suite.suite_cases(PROP, tier):
        c["index"] = len(out)
        out.append(c)
    return out


# ------------------------------------------------------------------------------------------
def make_simu(sim: str, mesh, dim: int, thickness: float):
    with quiet():
        if sim == "elastic":
            return Simulations.Elastic(mesh, Models.Elastic.Isotropic(dim, E=10.0, v=0.3, thickness=thickness))
        if sim == "thermal":
            return Simulations.Thermal(mesh, Models.Thermal(k=1.0, c=1.0, thickness=thickness))
        if sim == "phasefield":
            mat = Models.Elastic.Isotropic(dim, E=10.0, v=0.3, planeStress=False, thickness=thickness)
            return Simulations.PhaseField(mesh, Models.PhaseField(mat, "Miehe", "AT2", 1.0, 0.2))
        if sim == "hyperelastic":
            return Simulations.HyperElastic(mesh, Models.HyperElastic.NeoHookean(dim, K=50.0, thickness=thickness) if dim == 2 else Models.HyperElastic.NeoHookean(dim, K=50.0), verbosity=False)
        if sim == "inelastic":
            el = Models.Elastic.Isotropic(3, E=10.0, v=0.3)
            return Simulations.InElastic(mesh, Models.InElastic.Behavior(dim, el, thickness=thickness))
        if sim == "weakforms":
            from EasyFEA.FEM import BiLinearForm, Field

            groups = mesh.Get_list_groupElem(mesh.dim)
            field = Field(groups[0], dim)

            @BiLinearForm
            def computeK(u, v):
                return u.grad.ddot(v.grad) if dim > 1 else u.grad.dot(v.grad)

            return Simulations.WeakForms(mesh, Models.WeakForms(field, computeK, thickness=thickness))
    raise ValueError(sim)


def _pt(simu):
    """Problem type carrying the mechanical loads (PhaseField's default problem type is the damage one)."""
    return simu.ProblemTypes.elastic if hasattr(simu, "ProblemTypes") else simu.problemType


def poly_density(rng, deg: int, nvar: int = 3):
    """Random polynomial density of total degree <= deg in (x, y, z): list of (coef, powers)."""
    terms = [pw for pw in itertools.product(range(deg + 1), repeat=nvar) if sum(pw) <= deg]
    return [(float(rng.uniform(-1, 1)), pw) for pw in terms]


def eval_density(terms, x, y, z):
    out = 0.0 * x
    for c, (a, b, d) in terms:
        out = out + c * x**a * y**b * z**d
    return out


def gl_segment(a, b, f, n=12):
    """∫ f(x(s)) ds over the straight segment a-b (Gauss-Legendre, n points)."""
    xi, w = np.polynomial.legendre.leggauss(n)
    P = 0.5 * (a + b)[None] + 0.5 * xi[:, None] * (b - a)[None]
    L = np.linalg.norm(b - a)
    return 0.5 * L * np.sum(w * f(P))


def polygon_integral(poly, f2, deg):
    """∫ f dA over a polygon for f given as list of (coef, (a,b)) monomials."""
    A, _ = gm.shoelace(poly)
    s = 0.0
    for c, (a, b) in f2:
        s += c * gm.polygon_moment(poly, a, b) * np.sign(A)
    return s


def run_case(case: dict, ctx: Ctx) -> None:
    if case.get("fam") == "suite":
        return _suite.run_suite(case, ctx, PROP)
    rng = np.random.default_rng([case["seed"], NUM, case["index"]])
    if case["load"] == "beam-line":
        return run_beam(case, ctx, rng)
    if case["load"] == "curved-hole":
        return run_curved_hole(case, ctx, rng)
    load, sim, et, dim, form, sel = case["load"], case["sim"], case["et"], case["dim"], case["form"], case["sel"]
    key = f"C09/{load}/{sim}/{et}"
    ctx.default_key = key
    shape = geo.topo(et)
    thickness = float(rng.uniform(0.4, 2.5)) if dim == 2 else 1.0
    if sim in ("thermal",) and dim == 3:
        thickness = 1.0
    with ctx.monitored("no-exception", key + "/raised"):
        with quiet():
            poly = gm.random_polygon(rng, n=int(rng.integers(4, 6)), concave=False)
            h = float(rng.uniform(0.6, 1.2))
            o = gm.ORDER[et]
            ms = float({1: 0.5, 2: 0.7, 3: 0.85, 4: 1.0}[o] * (1.5 if dim == 3 else 1.0))
            mesh = gm.mesh2d(poly, et, ms) if dim == 2 else gm.mesh3d(poly, et, h, int(rng.integers(1, 3)), ms)
            if len(mesh.Get_list_groupElem(dim)) > 1 and sim == "weakforms":
                sim = "elastic"
            simu = make_simu(sim, mesh, dim, thickness)
    X = mesh.coord
    used = gm.used_nodes(mesh)
    unknowns = simu.Get_unknowns()
    dof_n = simu.Get_dof_n()
    scalar = dof_n == 1
    tol_geo = 1e-7

    def on_edge(k):
        a, b = poly[k], poly[(k + 1) % len(poly)]
        ab = b - a
        t = ((X[:, :2] - a) @ ab) / (ab @ ab)
        d = np.linalg.norm(X[:, :2] - (a + np.clip(t, 0, 1)[:, None] * ab), axis=1)
        return (d < tol_geo) & (t > -1e-9) & (t < 1 + 1e-9)

    usedmask = np.zeros(mesh.Nn, bool)
    usedmask[used] = True
    kedge = int(rng.integers(len(poly)))
    a2, b2 = poly[kedge], poly[(kedge + 1) % len(poly)]
    a3, b3 = np.array([*a2, 0.0]), np.array([*b2, 0.0])

    # ---- region, exact integrals -------------------------------------------------------------------
    general = shape in ("QUAD", "HEXA")
    if load == "line":
        # 2-D: a polygon edge; 3-D: the bottom edge (z = 0) of a lateral face
        region = on_edge(kedge) & usedmask & ((np.abs(X[:, 2]) < tol_geo) if dim == 3 else True)
        bt = "SEG" + str(gm.ORDER[et] + 1)
        deg = max_degree(bt, False)
        factor = 1.0  # add_lineLoad never applies the thickness
        fn_name = "add_lineLoad"

        def exact(fterms, mom_weight=None):
            def f(P):
                v = eval_density(fterms, P[:, 0], P[:, 1], P[:, 2])
                return v if mom_weight is None else v * mom_weight(P)
            return gl_segment(a3, b3, f)
    elif load == "surf":
        if dim == 2:
            region = on_edge(kedge) & usedmask
            bt = "SEG" + str(gm.ORDER[et] + 1)
            deg = max_degree(bt, False)
            factor = thickness

            def exact(fterms, mom_weight=None):
                def f(P):
                    v = eval_density(fterms, P[:, 0], P[:, 1], P[:, 2])
                    return v if mom_weight is None else v * mom_weight(P)
                return gl_segment(a3, b3, f)
        else:
            # top cap z = h (planar polygon) — TRI or QUAD faces depending on the volume type
            region = (np.abs(X[:, 2] - h) < tol_geo) & usedmask
            bts = boundary_type(et)
            capt = bts[0]
            deg = max_degree(capt, geo.topo(capt) == "QUAD")
            factor = 1.0

            def exact(fterms, mom_weight=None):
                # expand density (and optional linear weight) into monomials of (x, y) at z = h
                return _poly_cap_integral(poly, fterms, h, mom_weight)
        fn_name = "add_surfLoad"
    elif load == "volume":
        region = usedmask.copy()
        deg = max_degree(et, general)
        factor = thickness if dim == 2 else 1.0
        fn_name = "add_volumeLoad"

        def exact(fterms, mom_weight=None):
            return _poly_volume_integral(poly, fterms, h if dim == 3 else None, mom_weight)
    elif load == "pressure":
        return run_pressure(case, ctx, rng, simu, mesh, poly, h, thickness, kedge, on_edge, usedmask)
    elif load == "point":
        return run_point(case, ctx, rng, simu, mesh, thickness)
    else:
        raise ValueError(load)

    if sel == "closed":
        region = np.zeros(mesh.Nn, bool)
        for k_ in range(len(poly)):
            region |= on_edge(k_)
        region &= usedmask

        def exact(fterms, mom_weight=None):  # noqa: F811
            def f(P):
                v = eval_density(fterms, P[:, 0], P[:, 1], P[:, 2])
                return v if mom_weight is None else v * mom_weight(P)
            return sum(gl_segment(np.array([*poly[k_], 0.0]), np.array([*poly[(k_ + 1) % len(poly)], 0.0]), f) for k_ in range(len(poly)))
    nodes = np.where(region)[0]
    sel_nodes = nodes
    if sel == "stray":
        # stray nodes must not complete an element of the loaded dimension: take them outside every group of that dimension
        ldim = {"line": 1, "surf": dim - 1, "volume": dim}[load]
        in_ldim = np.unique(np.concatenate([g.connect.ravel() for g in mesh.Get_list_groupElem(ldim)] + [np.array([], int)]))
        others = np.setdiff1d(np.setdiff1d(used, nodes), in_ldim)
        # stray nodes that do not complete any loaded element: isolated interior nodes far from the region are safest;
        # any node may be added as long as no element of the loaded dimension is completed by it — checked through the oracle itself
        extra = rng.choice(others, min(2, len(others)), replace=False) if len(others) and load != "volume" else np.array([], int)
        sel_nodes = np.concatenate([nodes, extra])
    elif sel == "bulk" and load in ("line", "surf"):
        # a region selection ("everything with x > ..."): the loaded edge / face plus every node that belongs to no element of the
        # loaded dimension at all (interior nodes) - usually more nodes than the whole boundary group has
        ldim = {"line": 1, "surf": dim - 1}[load]
        in_ldim = np.unique(np.concatenate([g.connect.ravel() for g in mesh.Get_list_groupElem(ldim)] + [np.array([], int)]))
        extra = np.setdiff1d(np.setdiff1d(used, nodes), in_ldim)
        sel_nodes = np.concatenate([nodes, extra])
        ctx.event("bulk-selection-larger-than-a-boundary-group" if any(len(sel_nodes) >= g.Nn for g in mesh.Get_list_groupElem(ldim)) else "bulk-selection-small")
    elif sel == "dup":
        # a selection put together from several pieces (two edges sharing a corner, ...): some nodes are listed more than once
        sel_nodes = np.concatenate([nodes, rng.choice(nodes, max(1, len(nodes) // 3), replace=False), nodes[:1]])
    elif sel == "partial" and load in ("line", "surf") and dim == 2:
        pass  # whole edge is the smallest exactly integrable region here; partial selections are covered by 'stray'

    # selections are given in arbitrary order (nodes listed along an edge, shuffled ...), never assumed sorted
    sel_nodes = rng.permutation(sel_nodes)
    # ---- density -----------------------------------------------------------------------------------
    ncomp = 1 if scalar else int(rng.integers(1, dof_n + 1))
    comps = list(rng.choice(dof_n, ncomp, replace=False))
    densities = []
    values = []
    for _ in comps:
        if form == "const":
            terms = [(float(rng.uniform(-2, 2)), (0, 0, 0))]
            values.append(terms[0][0])
        elif form == "array":
            d_arr = min(deg, gm.ORDER[et])
            if et in ("QUAD8", "HEXA20"):
                d_arr = min(d_arr, 1)  # serendipity spaces do not contain P2 on non-parallelogram elements
            if dim == 2:
                terms = [t for t in poly_density(rng, d_arr, 3) if t[1][2] == 0]
            else:
                terms = poly_density(rng, d_arr, 3)
            values.append(eval_density(terms, X[sel_nodes, 0], X[sel_nodes, 1], X[sel_nodes, 2]))
        else:
            terms = poly_density(rng, deg, 3)
            if dim == 2:
                terms = [t for t in terms if t[1][2] == 0]
            values.append(lambda x, y, z, t=terms: eval_density(t, x, y, z))
        densities.append(terms)

    with ctx.monitored("no-exception", key + "/raised"):
        with quiet():
            getattr(simu, fn_name)(sel_nodes, values, [unknowns[c] for c in comps])
            fvec = simu.Bc_vector_Neumann(_pt(simu)).reshape(mesh.Nn, dof_n)
    p0 = rng.uniform(-1, 1, 3)
    worstF = worstM = 0.0
    scaleF = 0.0
    for c, terms in zip(comps, densities):
        Fx = float(exact(terms)) * factor
        got = float(fvec[:, c].sum())
        # scale: region measure x an upper bound of |density| on the region
        fmax = sum(abs(cf) * float(np.max(np.abs(X[nodes, 0]) ** pw[0] * np.abs(X[nodes, 1]) ** pw[1] * np.abs(X[nodes, 2]) ** pw[2])) for cf, pw in terms)
        size = factor * float(exact([(1.0, (0, 0, 0))])) * fmax + 1e-300
        worstF = max(worstF, abs(got - Fx) / size)
        scaleF = max(scaleF, size)
        # first moments of this scalar component about p0: sum (x_i - p0) F_i = ∫ (x - p0) f
        for d in range(dim):
            Md = float(exact(terms, mom_weight=lambda P, d=d: P[:, d] - p0[d])) * factor
            gotM = float(((X[:, d] - p0[d]) * fvec[:, c]).sum())
            worstM = max(worstM, abs(gotM - Md) / (size * (np.abs(X - p0).max())))
    ctx.check("resultant-force", worstF, 1e-9, key + "/force", form=form, deg=deg, comps=comps)
    ctx.check("resultant-moment", worstM, 1e-9, key + "/moment", form=form, deg=deg)
    # unloaded components and nodes outside the region carry nothing
    other = [c for c in range(dof_n) if c not in comps]
    if other:
        ctx.check("unloaded-components-zero", float(np.abs(fvec[:, other]).max() / scaleF), 1e-14, key + "/other-components")
    outside = np.setdiff1d(np.arange(mesh.Nn), nodes)
    ctx.check("stray-nodes-ignored", float(np.abs(fvec[outside]).max() / scaleF) if len(outside) else 0.0, 1e-14, key + "/stray", sel=sel,
              n_stray=int(len(sel_nodes) - len(nodes)))
    ctx.describe(f"{load}/{sim}/{et}/{form}/{sel}", len(nodes) >= 3 and scaleF > 0, load=load, sim=sim, et=et, form=form, sel=sel, deg=deg,
                 n_region_nodes=int(len(nodes)), thickness=thickness, comps=comps)


def _expand(terms, weight_lin=None):
    return terms


def _poly_cap_integral(poly, terms, z0, mom_weight):
    """∫ over the planar polygon at z = z0 of density (* weight); weight is linear: handled by sampling identity
    weight(P) = w0 + w . P evaluated through three probe points."""
    def base(tt):
        s = 0.0
        A, _ = gm.shoelace(poly)
        for c, (a, b, d) in tt:
            s += c * z0**d * gm.polygon_moment(poly, a, b) * np.sign(A)
        return s

    if mom_weight is None:
        return base(terms)
    # linear weight: w(P) = w(0) + sum_k P_k * (w(e_k) - w(0))
    O = np.zeros((1, 3))
    w0 = float(mom_weight(O)[0])
    tot = w0 * base(terms)
    for k in range(3):
        e = np.zeros((1, 3))
        e[0, k] = 1
        gk = float(mom_weight(e)[0]) - w0
        if gk == 0:
            continue
        tt = [(c * gk, tuple(p + (1 if i == k else 0) for i, p in enumerate(pw))) for c, pw in terms]
        tot += base(tt)
    return tot


def _poly_volume_integral(poly, terms, h, mom_weight):
    def base(tt):
        s = 0.0
        A, _ = gm.shoelace(poly)
        for c, (a, b, d) in tt:
            zint = 1.0 if h is None else h ** (d + 1) / (d + 1)
            if h is None and d > 0:
                continue
            s += c * zint * gm.polygon_moment(poly, a, b) * np.sign(A)
        return s

    if mom_weight is None:
        return base(terms)
    O = np.zeros((1, 3))
    w0 = float(mom_weight(O)[0])
    tot = w0 * base(terms)
    for k in range(3):
        e = np.zeros((1, 3))
        e[0, k] = 1
        gk = float(mom_weight(e)[0]) - w0
        if gk == 0:
            continue
        tt = [(c * gk, tuple(p + (1 if i == k else 0) for i, p in enumerate(pw))) for c, pw in terms]
        tot += base(tt)
    return tot


def run_pressure(case, ctx, rng, simu, mesh, poly, h, thickness, kedge, on_edge, usedmask):
    et, dim, sim = case["et"], case["dim"], case["sim"]
    key = f"C09/pressure/{sim}/{et}"
    X = mesh.coord
    a2, b2 = poly[kedge], poly[(kedge + 1) % len(poly)]
    L = float(np.linalg.norm(b2 - a2))
    t2 = (b2 - a2) / L
    nrm = np.array([t2[1], -t2[0], 0.0])  # a unit normal of the edge / lateral face (sign irrelevant)
    if dim == 2 or rng.random() < 0.5:
        region = on_edge(kedge) & usedmask  # edge (2-D) or lateral face (3-D)
        area = L * (thickness if dim == 2 else h)
    else:
        region = (np.abs(X[:, 2] - h) < 1e-7) & usedmask
        area = abs(gm.shoelace(poly)[0])
        nrm = np.array([0, 0, 1.0])
    nodes = np.where(region)[0]
    p = float(rng.uniform(0.5, 3) * rng.choice([-1, 1]))
    with ctx.monitored("no-exception", key + "/raised"):
        with quiet():
            simu.add_pressureLoad(nodes, p)
            dof_n = simu.Get_dof_n()
            fvec = simu.Bc_vector_Neumann(_pt(simu)).reshape(mesh.Nn, dof_n)
    R = np.zeros(3)
    R[:dof_n] = fvec.sum(0)[:3]
    mag = float(np.linalg.norm(R))
    ctx.check("pressure-resultant", abs(mag - abs(p) * area) / (abs(p) * area), 1e-9, key + "/magnitude", got=mag, want=abs(p) * area)
    ctx.check("pressure-direction", float(np.linalg.norm(np.cross(R / max(mag, 1e-300), nrm))), 1e-9, key + "/direction", R=R, normal=nrm)
    outside = np.setdiff1d(np.arange(mesh.Nn), nodes)
    ctx.check("stray-nodes-ignored", float(np.abs(fvec[outside]).max() / (abs(p) * area)), 1e-14, key + "/stray")
    ctx.describe(f"pressure/{sim}/{et}", len(nodes) >= 3, load="pressure", sim=sim, et=et, p=p, area=area, sign=float(np.sign(R @ nrm * p)))


def _fe_curve_length(mesh, nodes_on_curve):
    """Length of the finite-element curve made of the 1-D elements whose nodes all belong to `nodes_on_curve`: each element is the
    polynomial through its nodes (harness-side Lagrange interpolation at the element's reference node positions), its length is
    integrated with a 24-point Gauss-Legendre rule."""
    xi, w = np.polynomial.legendre.leggauss(24)
    total, n = 0.0, 0
    for g in mesh.Get_list_groupElem(1):
        con = g.connect
        on = np.all(np.isin(con, nodes_on_curve), axis=1)
        if not on.any():
            continue
        loc = np.asarray(g.Get_Local_Coords(), float)[:, 0]  # reference positions of the element's nodes
        for nodes in con[on]:
            P = mesh.coord[nodes]
            der = np.zeros((len(xi), 3))
            for d in range(3):
                c = np.polyfit(loc, P[:, d], len(loc) - 1)
                der[:, d] = np.polyval(np.polyder(c), xi)
            total += float((np.linalg.norm(der, axis=1) * w).sum())
            n += 1
    return total, n


def run_curved_hole(case, ctx, rng):
    """Constant line / surface loads on the curved boundary of a circular hole and a body force on the curved domain."""
    sim, et, dim, scale = case["sim"], case["et"], case["dim"], case["scale"]
    key = f"C09/curved-hole/{sim}/{et}"
    ctx.default_key = key
    thickness = float(rng.uniform(0.4, 2.5)) if dim == 2 else 1.0
    with ctx.monitored("no-exception", key + "/build/raised"):
        with quiet():
            mesh, (Lx, Ly, h, c, R) = gm.mesh_curved(rng, et, dim, scale, layers=1)
            simu = make_simu(sim, mesh, dim, thickness)
    X = mesh.coord
    used = gm.used_nodes(mesh)
    rad = np.hypot(X[used, 0] - c[0], X[used, 1] - c[1])
    hole = used[np.abs(rad - R) < 1e-6 * R]
    ring = hole if dim == 2 else hole[np.abs(X[hole, 2]) < 1e-9 * scale]
    Lfe, nedges = _fe_curve_length(mesh, ring)
    ctx.require("hole-found", len(hole) >= 6 and nedges >= 4 and abs(Lfe - 2 * np.pi * R) < 0.02 * 2 * np.pi * R, key + "/harness-hole", n=int(len(hole)), edges=nedges, L=Lfe, circle=2 * np.pi * R)
    names = ["x", "y", "z"][:dim]
    pt = _pt(simu)
    kw = {"problemType": pt} if pt is not None else {}
    t = thickness if dim == 2 else 1.0

    def neumann():
        v = simu.Bc_vector_Neumann(pt) if pt is not None else simu.Bc_vector_Neumann()
        return np.asarray(v, float).reshape(mesh.Nn, -1)[:, :dim]

    # constant traction on the hole boundary: resultant = traction x (length of the curved boundary x thickness | x height)
    q = rng.uniform(-1, 1, dim)
    with ctx.monitored("no-exception", key + "/boundary-load/raised"):
        with quiet():
            simu.Bc_Init()
            simu.add_surfLoad(hole, [float(x) for x in q], names, **kw)  # (on a 2-D mesh: a traction on its edges, times the thickness)
            f = neumann()
    size = Lfe * (t if dim == 2 else h)
    # (the library integrates |x'| with the few points of its mass rule: not a polynomial, observed agreement 1e-7 .. 1e-6)
    ctx.check("force-resultant", float(np.abs(f.sum(0) - q * size).max()) / (np.abs(q).max() * size), 2e-5, key + "/boundary-load/resultant", loaded_size=size, chord_polygon=float(2 * nedges * R * np.sin(np.pi / nedges)) * (t if dim == 2 else h))
    ctx.require("load-support", float(np.abs(np.delete(f, hole, axis=0)).max()) == 0.0, key + "/boundary-load/support")
    # a pressure on the closed boundary (nodal normals interpolated by the library - an approximation on curved boundaries; the property
    # speaks of planar faces): recorded, not judged
    p0 = float(rng.uniform(0.5, 3.0))
    try:
        with quiet():
            simu.Bc_Init()
            simu.add_pressureLoad(hole, p0, **kw)
            fp = neumann()
        ctx.event("observed:closed-pressure-resultant<1e-9" if float(np.abs(fp.sum(0)).max()) < 1e-9 * p0 * size else "observed:closed-pressure-resultant>=1e-9")
    except Exception:  # noqa: BLE001
        ctx.event("observed:pressure-on-curved-boundary-raised")
    # body force on the curved domain
    qv = rng.uniform(-1, 1, dim)
    with ctx.monitored("no-exception", key + "/volume/raised"):
        with quiet():
            simu.Bc_Init()
            simu.add_volumeLoad(mesh.nodes, [float(x) for x in qv], names, **kw)
            fv = neumann()
            meas = float(mesh.area if dim == 2 else mesh.volume)
    ctx.check("force-resultant", float(np.abs(fv.sum(0) - qv * meas * t).max()) / (np.abs(qv).max() * meas * t), 1e-9, key + "/volume/resultant", measure=meas)
    ctx.describe(f"curved-hole/{sim}/{et}/scale={scale:g}", True, sim=sim, et=et, scale=scale, n_hole=int(len(hole)), R=R, edges=nedges)


def run_point(case, ctx, rng, simu, mesh, thickness):
    et, sim = case["et"], case["sim"]
    key = f"C09/point/{sim}/{et}"
    used = gm.used_nodes(mesh)
    n = int(rng.integers(1, 6))
    nodes = rng.choice(used, n, replace=False)
    unknowns = simu.Get_unknowns()
    dof_n = simu.Get_dof_n()
    tot = float(rng.uniform(-5, 5))
    with ctx.monitored("no-exception", key + "/raised"):
        with quiet():
            simu.add_neumann(nodes, [tot], [unknowns[0]])
            fvec = simu.Bc_vector_Neumann(_pt(simu)).reshape(mesh.Nn, dof_n)
    ctx.check("point-load-total", abs(fvec[:, 0].sum() - tot) / abs(tot), 1e-12, key + "/total", n_nodes=n)
    ctx.check("point-load-even-split", float(np.abs(fvec[nodes, 0] - tot / n).max() / abs(tot)), 1e-12, key + "/split")
    outside = np.setdiff1d(np.arange(mesh.Nn), nodes)
    ctx.check("stray-nodes-ignored", float(np.abs(fvec[outside]).max() / abs(tot)), 1e-14, key + "/stray")
    # a nodal array of intensities, owned by the caller and used again: for a second unknown in the same call, and once more
    # after Bc_Init (a load re-applied at every step of a loop). Every use gives the same nodal forces; the array is left alone.
    vals = rng.uniform(1, 5, n)
    keep = vals.copy()
    two = unknowns[:2] if len(unknowns) > 1 else unknowns[:1]
    with ctx.monitored("no-exception", key + "/array/raised"):
        with quiet():
            simu.Bc_Init()
            simu.add_neumann(nodes, [vals] * len(two), list(two))
            f1 = simu.Bc_vector_Neumann(_pt(simu)).reshape(mesh.Nn, dof_n).copy()
            simu.Bc_Init()
            simu.add_neumann(nodes, [vals], [unknowns[0]])
            f2 = simu.Bc_vector_Neumann(_pt(simu)).reshape(mesh.Nn, dof_n).copy()
    ctx.require("caller-array-untouched", np.array_equal(vals, keep), key + "/array/caller-array-modified", before=keep, after=vals)
    want = keep / n      # the intensities given are shared out over the selected nodes like a constant is
    sc = np.abs(want).max()
    ctx.check("point-load-array", float(np.abs(f1[nodes, 0] - want).max() / sc), 1e-12, key + "/array/first-unknown")
    if len(two) > 1:
        ctx.check("point-load-array", float(np.abs(f1[nodes, 1] - want).max() / sc), 1e-12, key + "/array/second-unknown-same-array")
    ctx.check("point-load-array", float(np.abs(f2[nodes, 0] - want).max() / sc), 1e-12, key + "/array/used-again-after-Bc_Init")
    ctx.describe(f"point/{sim}/{et}", True, load="point", sim=sim, et=et, n_nodes=n, total=tot)


def run_beam_inclined(case, ctx, rng):
    """Line load, in global components, on a member at a generic inclination that does not start at the origin: total
    force vector and total moment vector about the origin (nodal moments included) against the integrals of the density."""
    et, bdim, theory, form = case["et"], case["dim"], case["theory"], case["form"]
    key = f"C09/beam-line/{bdim}D/{et}/{theory}/inclined"
    ctx.default_key = key
    L = float(rng.uniform(1, 3))
    nel = int(rng.integers(2, 5))
    Q = gm.random_rotation(rng, bdim)
    e1 = Q[:, 0]
    p0 = np.zeros(3)
    p0[:bdim] = rng.uniform(-1, 1, bdim)
    ya = Q[:, 1]
    if bdim == 3:
        a = rng.uniform(0, np.pi)
        ya = np.cos(a) * Q[:, 1] + np.sin(a) * Q[:, 2]
    with ctx.monitored("no-exception", key + "/raised"):
        simu, mesh, beam, line = bcm.make_member(bdim, et, theory, p0, p0 + L * e1, nel, 0.1, 0.2, 1e4, 0.3, yAxis=tuple(ya))
    X = mesh.coord
    used = np.unique(mesh.groupElem.connect.ravel())
    unknowns = simu.Get_unknowns()
    dof_n = simu.Get_dof_n()
    trans = [u for u in unknowns if u in ("x", "y", "z")]
    rots = [u for u in unknowns if u in ("rx", "ry", "rz")]
    loaded = trans + (rots if case["index"] % 2 else [])     # every other case also carries distributed couples
    comp = str(rng.choice(trans))
    a_u = {u: float(rng.uniform(-3, 3)) for u in loaded}
    b = float(rng.uniform(-2, 2)) * (form != "const")
    sel = rng.permutation(used)
    s_of = lambda P: (np.asarray(P) - p0) @ e1
    if form == "const":
        val = a_u[comp]
    elif form == "array":
        val = a_u[comp] + b * s_of(X[sel])
    else:
        val = lambda x, y, z: a_u[comp] + b * ((x - p0[0]) * e1[0] + (y - p0[1]) * e1[1] + (z - p0[2]) * e1[2])
    order = [str(u) for u in rng.permutation(loaded)]
    with ctx.monitored("no-exception", key + "/raised"):
        with quiet():
            simu.add_lineLoad(sel, [val if u == comp else a_u[u] for u in order], order)
            fvec = simu.Bc_vector_Neumann(_pt(simu)).reshape(mesh.Nn, dof_n)
    ax = {"x": 0, "y": 1, "z": 2, "rx": 0, "ry": 1, "rz": 2}
    F0 = np.zeros(3)      # int q ds
    F1 = np.zeros(3)      # int s q ds
    C0 = np.zeros(3)      # int m ds
    for u in loaded:
        bu = b if u == comp else 0.0
        if u in trans:
            F0[ax[u]] += a_u[u] * L + bu * L**2 / 2
            F1[ax[u]] += a_u[u] * L**2 / 2 + bu * L**3 / 3
        else:
            C0[ax[u]] += a_u[u] * L
    M_exact = np.cross(p0, F0) + np.cross(e1, F1) + C0
    Fn = np.zeros((mesh.Nn, 3))
    Mn = np.zeros((mesh.Nn, 3))
    for u in trans:
        Fn[:, ax[u]] = fvec[:, unknowns.index(u)]
    for u in rots:
        Mn[:, ax[u]] = fvec[:, unknowns.index(u)]
    F_got = Fn.sum(0)
    M_got = np.cross(X, Fn).sum(0) + Mn.sum(0)
    size = sum(abs(a_u[u]) for u in trans) * L + abs(b) * L**2 / 2
    ctx.check("resultant-force", float(np.linalg.norm(F_got - F0)) / size, 1e-9, key + "/force-vector", comp=comp, form=form, got=F_got, want=F0,
              direction=e1, couples=bool(case["index"] % 2))
    arm = L + float(np.linalg.norm(p0))
    if bdim == 2:
        M_got, M_exact = M_got[2:], M_exact[2:]
    ctx.check("resultant-moment", float(np.linalg.norm(M_got - M_exact)) / (size * arm + np.abs(C0).sum()), 1e-9, key + "/moment-vector", comp=comp, form=form,
              got=M_got, want=M_exact, direction=e1, couples=bool(case["index"] % 2))
    outside = np.setdiff1d(np.arange(mesh.Nn), used)
    if len(outside):
        ctx.check("stray-nodes-ignored", float(np.abs(fvec[outside]).max() / size), 1e-14, key + "/stray")
    ctx.describe(f"beam-line/{bdim}D/{et}/{theory}/{form}/inclined", True, load="beam-line", et=et, theory=theory, comp=comp, form=form, L=L, inclined=True,
                 couples=bool(case["index"] % 2))


def run_beam(case, ctx, rng):
    if case.get("incl"):
        return run_beam_inclined(case, ctx, rng)
    return run_beam_aligned(case, ctx, rng)


def run_beam_aligned(case, ctx, rng):
    """Line load on a straight member: force and moment resultants about the first node (EB: Hermitian consistent nodal
    moments included through the rotational dofs)."""
    et, bdim, theory, form = case["et"], case["dim"], case["theory"], case["form"]
    key = f"C09/beam-line/{bdim}D/{et}/{theory}"
    ctx.default_key = key
    L = float(rng.uniform(1, 3))
    nel = int(rng.integers(2, 5))
    with ctx.monitored("no-exception", key + "/raised"):
        simu, mesh, beam, line = bcm.make_member(bdim, et, theory, (0, 0, 0), (L, 0, 0), nel, 0.1, 0.2, 1e4, 0.3)
    X = mesh.coord
    used = np.unique(mesh.groupElem.connect.ravel())
    unknowns = simu.Get_unknowns()
    dof_n = simu.Get_dof_n()
    o = gm.ORDER[et]
    # density degree: Lagrange path as for segments; Hermitian path integrates with the 'beam' rule (2, 4, 6, 8 points)
    deg = 1 if form != "const" else 0
    c0, c1 = float(rng.uniform(-2, 2)), float(rng.uniform(-2, 2)) * (deg > 0)
    q = lambda x: c0 + c1 * x
    trans = [u for u in unknowns if u in ("x", "y", "z")]
    comp = str(rng.choice(trans))
    sel = rng.permutation(used)
    if form == "const":
        val = c0
    elif form == "array":
        val = q(X[sel, 0])
    else:
        val = lambda x, y, z: c0 + c1 * x
    # the judged component is entered together with the other translations in ONE call, in random order, each with its
    # own (different) constant intensity
    others_c = {u: float(rng.uniform(-3, 3)) for u in trans if u != comp}
    order = list(rng.permutation(trans))
    with ctx.monitored("no-exception", key + "/raised"):
        with quiet():
            simu.add_lineLoad(sel, [val if u == comp else others_c[u] for u in order], [str(u) for u in order])
            fvec = simu.Bc_vector_Neumann(_pt(simu)).reshape(mesh.Nn, dof_n)
    for u, cu in others_c.items():
        ctx.check("resultant-force", abs(fvec[:, unknowns.index(u)].sum() - cu * L) / (abs(cu) * L + 1e-300), 1e-9, key + "/force-other-component", comp=u, order=order)
    F_exact = c0 * L + c1 * L**2 / 2
    M_exact = c0 * L**2 / 2 + c1 * L**3 / 3  # ∫ x q dx  (moment arm about the origin)
    ci = unknowns.index(comp)
    size = abs(c0) * L + abs(c1) * L**2 / 2
    ctx.check("resultant-force", abs(fvec[:, ci].sum() - F_exact) / size, 1e-9, key + "/force", comp=comp, form=form)
    # moment about the origin: sum x_i F_i plus the consistent nodal moments on the rotation paired with the load direction
    mom = float((X[:, 0] * fvec[:, ci]).sum())
    if comp == "y" and "rz" in unknowns:
        mom += float(fvec[:, unknowns.index("rz")].sum())       # v' = rz
    if comp == "z" and "ry" in unknowns:
        mom -= float(fvec[:, unknowns.index("ry")].sum())       # w' = -ry
    if comp != "x":
        ctx.check("resultant-moment", abs(mom - M_exact) / (size * L), 1e-9, key + "/moment", comp=comp, form=form)
    others = [i for i, u in enumerate(unknowns) if u not in trans and not (("y" in trans) and u == "rz") and not (("z" in trans) and u == "ry")]
    if others:
        ctx.check("unloaded-components-zero", float(np.abs(fvec[:, others]).max() / size), 1e-14, key + "/other-components")
    ctx.describe(f"beam-line/{bdim}D/{et}/{theory}/{form}", True, load="beam-line", et=et, theory=theory, comp=comp, form=form, L=L)
