"""Factory of small real simulations of every type (harness side), shared by several properties."""

from __future__ import annotations

import numpy as np

from EasyFEA import ElemType, Models, Simulations
from EasyFEA.FEM import BiLinearForm, Field, LinearForm, Sym_Grad, Trace

from ..core import quiet
from ..gen import materials as gmat
from ..gen import meshes as gm

KINDS = ["elastic", "thermal", "beam", "weakforms", "phasefield", "hyperelastic", "inelastic"]


def small_mesh(rng, dim: int, et: str, size: float = 1.0, organised: bool = False):
    """Rectangle [0,Lx]x[0,Ly] (x[0,h]) so that node selections by coordinates are easy. Returns mesh, (Lx, Ly, h)."""
    Lx, Ly, h = float(rng.uniform(1.0, 2.0)), float(rng.uniform(0.8, 1.2)), float(rng.uniform(0.5, 0.9))
    poly = np.array([[0, 0], [Lx, 0], [Lx, Ly], [0, Ly]], float)
    order = gm.ORDER[et]
    ms = size * {1: 0.45, 2: 0.7, 3: 0.9, 4: 1.1}[order]
    with quiet():
        if dim == 2:
            mesh = gm.mesh2d(poly, et, ms, organised=organised)
        else:
            mesh = gm.mesh3d(poly, et, h, 1, ms * 1.6, organised=organised)
    return mesh, (Lx, Ly, h)


def nodes_x(mesh, x: float, tol: float = 1e-8):
    X = mesh.coord
    used = gm.used_nodes(mesh)
    return used[np.abs(X[used, 0] - x) < tol]


def _wf_K1(u, v):
    return u.grad.dot(v.grad)


def _wf_M1(u, v):
    return u.dot(v)


def _wf_F1(v):
    return 1.0 * v


def make(kind: str, rng, dim: int = 2, et: str | None = None, bc: bool = True, **kw):
    """Returns (simu, info). The simulation carries Dirichlet conditions making it solvable
    (clamped at x=0, prescribed displacement / temperature at x=Lx)."""
    if kind == "beam":
        from . import _beam_common as bcm

        theory = kw.get("theory", "EB")
        bdim = kw.get("bdim", 2)
        L = float(rng.uniform(1, 3))
        simu, mesh, beam, line = bcm.make_member(bdim, et or "SEG2", theory, (0, 0, 0), (L, 0, 0), int(rng.integers(2, 5)),
                                                0.1, 0.2, 1e4, 0.3)
        n0 = nodes_x(mesh, 0.0)
        nL = nodes_x(mesh, L)
        with quiet():
            if not bc:
                return simu, {"kind": kind, "L": L, "Lx": L, "n0": n0, "nL": nL, "dim": bdim, "et": et}
            simu.add_dirichlet(n0, [0] * simu.Get_dof_n(), simu.Get_unknowns())
            if bdim > 1:
                simu.add_neumann(nL, [-1.0], ["y"])
            else:
                simu.add_neumann(nL, [1.0], ["x"])
        return simu, {"kind": kind, "L": L, "Lx": L, "n0": n0, "nL": nL, "dim": bdim, "et": et}

    et = et or ("TRI3" if dim == 2 else "TETRA4")
    # (a weak-form model holds one Field on one group of elements: a recombined mesh must not keep triangles)
    organised = kw.get("organised", False) or (kind == "weakforms" and et.startswith(("QUAD", "HEXA")))
    mesh, (Lx, Ly, h) = small_mesh(rng, dim, et, size=kw.get("size", 1.0), organised=organised)
    n0 = nodes_x(mesh, 0.0)
    nL = nodes_x(mesh, Lx)
    names = ["x", "y", "z"][:dim]
    info = {"kind": kind, "Lx": Lx, "n0": n0, "nL": nL, "et": et, "dim": dim}
    with quiet():
        if kind == "elastic":
            law, _ = gmat.make_law(rng, dim, kw.get("law", "iso"), planeStress=True, thickness=1.0)
            simu = Simulations.Elastic(mesh, law)
            simu.add_dirichlet(n0, [0] * dim, names)
            simu.add_dirichlet(nL, [0.01], ["x"])
        elif kind == "thermal":
            simu = Simulations.Thermal(mesh, Models.Thermal(k=float(rng.uniform(1, 5)), c=1.0))
            simu.add_dirichlet(n0, [0], ["t"])
            simu.add_dirichlet(nL, [1.0], ["t"])
        elif kind == "weakforms":
            dof_n = kw.get("dof_n", 1)
            field = Field(mesh.groupElem, dof_n)
            if dof_n == 1:
                # module-level forms: a simulation whose forms are local functions cannot be pickled (Save)
                wf = Models.WeakForms(field, BiLinearForm(_wf_K1), computeC=BiLinearForm(_wf_M1), computeM=BiLinearForm(_wf_M1), computeF=LinearForm(_wf_F1))
                simu = Simulations.WeakForms(mesh, wf)
                simu.add_dirichlet(n0, [0], ["u"])
            else:
                lmbda, mu = 1.0, 0.7

                @BiLinearForm
                def computeK(u, v):
                    Eps = Sym_Grad(u)
                    Sig = 2 * mu * Eps + lmbda * Trace(Eps) * np.eye(dof_n)
                    return Sig.ddot(Sym_Grad(v))
                wf = Models.WeakForms(field, computeK)
                simu = Simulations.WeakForms(mesh, wf)
                simu.add_dirichlet(n0, [0] * dof_n, simu.Get_unknowns())
                simu.add_dirichlet(nL, [0.01], [simu.Get_unknowns()[0]])
        elif kind == "phasefield":
            mat = Models.Elastic.Isotropic(dim, E=210000.0, v=0.3, planeStress=False, thickness=1.0)
            pfm = Models.PhaseField(mat, kw.get("split", "Miehe"), kw.get("regu", "AT2"), Gc=2700.0, l0=0.3,
                                    solver=kw.get("pfsolver", "History"))
            simu = Simulations.PhaseField(mesh, pfm)
            simu.add_dirichlet(n0, [0] * dim, names)
            simu.add_dirichlet(nL, [1e-3], ["x"])
        elif kind == "hyperelastic":
            mat = Models.HyperElastic.NeoHookean(dim, K=50.0)
            simu = Simulations.HyperElastic(mesh, mat, verbosity=False)
            simu.add_dirichlet(n0, [0] * dim, simu.Get_unknowns())
            simu.add_dirichlet(nL, [0.05], ["x"])
        elif kind == "inelastic":
            el = Models.Elastic.Isotropic(3, E=1000.0, v=0.3)
            beh = make_behavior(dim, el, kw.get("plastic", True))
            simu = Simulations.InElastic(mesh, beh)
            simu.add_dirichlet(n0, [0] * dim, simu.Get_unknowns())
            simu.add_dirichlet(nL, [0.02], ["x"])
        else:
            raise ValueError(kind)
        if not bc:
            simu.Bc_Init()
    return simu, info


def make_behavior(dim, elastic, plastic=True, **kw):
    from EasyFEA.Models import InElastic as IE

    if not plastic:
        return IE.Behavior(dim, elastic)
    return IE.Behavior(dim, elastic, yieldSurface=IE.Yield.VonMises(kw.get("sigY", 5.0)),
                       hardening=IE.IsotropicHardening.Linear(kw.get("H", 100.0)))
