"""C02 — K symmetric PSD with exactly the physical kernel; M (C for heat) SPD carrying the mass.

Oracle: dense eigen-decomposition of the assembled matrices restricted to used dofs; rigid-body modes
built analytically here; total mass against analytic measure / harness-side element measures.
"""

from __future__ import annotations

import numpy as np

from EasyFEA import Models, Simulations, MatrixType

from . import _suite
from ..core import Ctx, quiet, relerr
from ..gen import meshes as gm
from ..gen import materials as gmat
from ..ref import geometry as geo
from . import _beam_common as bc
from .c01 import build_mesh

PROP = "C02"
NUM = 2
RULE = (
    "cases = (simulation kind, element type, law/theory, mesh class incl. 2-4 element patches, density form "
    "scalar/(Ne,)/(Ne,nPg)) x seeded continuous data. Signature = (kind, dim, elemType, law, meshClass, rhoForm). "
    "Non-trivial iff the mesh is connected with >= 2 elements and the matrix has > kernel-dimension dofs."
)
ASSUMPTIONS = [
    "dense eigvalsh on used dofs, n <= 2500; zero threshold 1e-9 * lambda_max",
    "meshes are connected (single polygon / extrusion / single straight beam member)",
    "beam rotations follow the right-handed convention (v' = rz, w' = -ry)",
]
TIMEOUT_CASE = 300
MIN_EVALS = {"K-symmetric": 30, "K-psd": 30, "K-kernel-content": 30, "K-rank": 30, "M-spd": 20, "M-total": 20}
REQUIRED_COVERAGE = ["Gauss_factory", "UV", "BeamMass"]

ZERO = 1e-9


def anchors():
    from EasyFEA.FEM import Operators, _gauss

    return [
        ("Gauss_factory", _gauss.Gauss, "Gauss_factory"),
        ("UV", Operators.Bilinear, "UV"),
        ("GradUGradV", Operators.Bilinear, "GradUGradV"),
        ("LinearizedElasticity", Operators.Bilinear, "LinearizedElasticity"),
        ("BeamStiffness", Operators.Bilinear, "BeamStiffness"),
        ("BeamBending", Operators.Bilinear, "BeamBending"),
        ("BeamShear", Operators.Bilinear, "BeamShear"),
        ("BeamMass", Operators.Bilinear, "BeamMass"),
    ]


def cases(tier: str, seed: int) -> list[dict]:
    out = []
    rep = 1 if tier == "quick" else 6
    rho_forms = ["scalar", "Ne", "NePg"]
    k = 0
    for r in range(rep):
        for et in gm.ET_2D + gm.ET_3D:
            dim = 2 if et in gm.ET_2D else 3
            heavy = et in ("HEXA20", "HEXA27", "PRISM18", "PRISM15", "TETRA10")
            classes = ["patch", "gmsh"] if (heavy and tier == "quick") else ["patch", "gmsh", "affine"]
            for j, mc in enumerate(classes):
                out.append({"kind": "elastic", "dim": dim, "et": et, "law": gmat.KINDS[(k + j) % 4], "ps": bool((k + j) % 2),
                            "mesh": mc, "rho": rho_forms[(k + j + r) % 3]})
            out.append({"kind": "thermal", "dim": dim, "et": et, "mesh": ["patch", "gmsh"][(k + r) % 2], "rho": rho_forms[(k + r + 1) % 3]})
            k += 1
        # curved (isoparametric) elements: a plate with a circular hole at three length scales (metres, a 100 micrometre part, millimetres
        # of a large structure); rigid-body motions stay in the kernel and the mass is that of the curved domain
        for j, et in enumerate([e for e in gm.ET_2D + gm.ET_3D if gm.ORDER[e] >= 2]):
            if tier == "quick" and et in ("HEXA27", "PRISM18") and (j + r) % 2:
                continue
            dim = 2 if et in gm.ET_2D else 3
            out.append({"kind": ["elastic", "thermal"][(j + r) % 3 == 2], "dim": dim, "et": et, "law": gmat.KINDS[(k + j) % 4], "ps": bool((k + j) % 2) and dim == 2,
                        "mesh": "curved", "rho": "scalar", "scale": [1e-6, 1.0, 1e3][(j + r) % 3], "layers": 1})
        # several element groups of the main dimension in one mesh (merged conforming blocks)
        for pair in ["TRI3+QUAD4", "TRI6+QUAD8", "TRI6+QUAD9", "PRISM6+HEXA8"] + (["PRISM15+HEXA20"] if tier == "thorough" else []):
            dim = 2 if pair.startswith("TRI") else 3
            out.append({"kind": "elastic", "dim": dim, "et": pair, "law": gmat.KINDS[(k + r) % 4], "ps": bool(k % 2), "mesh": "mixed", "rho": "scalar"})
            out.append({"kind": "thermal", "dim": dim, "et": pair, "mesh": "mixed", "rho": "scalar"})
            k += 1
        # thermal meshes that do not fill the space they live in (a plate tilted out of the xy-plane, a bar inclined in the plane or
        # in space), with a model thickness different from 1: the thickness belongs to two-dimensional MESHES only
        for et in ["TRI3", "QUAD8", "TRI10", "QUAD4"]:
            out.append({"kind": "thermal", "dim": 2, "et": et, "mesh": "gmsh", "rho": "scalar", "embed": True})
        for et in gm.ET_1D:
            out.append({"kind": "thermal", "dim": 1, "et": et, "mesh": "line", "rho": "scalar", "embed": True})
        for et in gm.ET_1D:
            out.append({"kind": "thermal", "dim": 1, "et": et, "mesh": "line", "rho": rho_forms[(k + r) % 3]})
            k += 1
            for theory in ("EB", "Timo"):
                for bdim in (1, 2, 3):
                    # "minus-x": the member lies exactly on the x-axis and points towards -x (the mesh is then one-dimensional)
                    for orient in (["x", "incl", "minus-x"] if bdim > 1 else ["x", "minus-x"]):
                        out.append({"kind": "beam", "dim": bdim, "et": et, "theory": theory, "orient": orient, "mesh": "member", "rho": "scalar"})
    for i, c in enumerate(out):
        c["id"] = f"C02-{i:05d}-{c['kind']}-{c['dim']}d-{c['et']}-{c.get('law', c.get('theory', 'k'))}-{c['mesh']}-{c.get('orient', '')}"
        c["index"] = i
    for c in _suite.suite_cases(PROP, tier):
        c["index"] = len(out)
        out.append(c)
    return out


def _mesh_for(case: dict, rng):
    dim, et, mc = case["dim"], case["et"], case["mesh"]
    if mc == "patch":
        # 1-4 element organised patch of a 2 x 1 rectangle (2 quads / hexas, 4 triangles / prisms, 12 tets)
        poly = np.array([[0, 0], [2, 0], [2, 1], [0, 1]], float) * rng.uniform(0.7, 1.5, 2)
        h = float(rng.uniform(0.6, 1.4))
        ms = float(poly[1, 0] / 2)
        with quiet():
            mesh = gm.mesh2d(poly, et, ms, organised=True) if dim == 2 else gm.mesh3d(poly, et, h, 1, ms, organised=True)
        area, _ = gm.shoelace(poly)
        return mesh, abs(area) * (h if dim == 3 else 1.0), {"poly": poly.tolist()}
    sub = dict(case)
    sub["mesh"] = mc
    mesh, bnd, measure, info = build_mesh(sub, rng)
    return mesh, measure, info


def _dense_sym_eig(A, idx):
    Ad = A[idx][:, idx].toarray()
    asym = np.abs(Ad - Ad.T).max() / max(np.abs(Ad).max(), 1e-300)
    lam = np.linalg.eigvalsh(0.5 * (Ad + Ad.T))
    return Ad, asym, lam


def _check_K(ctx: Ctx, K, dofs, R, key: str, nrb: int):
    Kd, asym, lam = _dense_sym_eig(K, dofs)
    lmax = lam.max()
    ctx.check("K-symmetric", asym, 1e-11, key + "/K-symmetric")
    ctx.check("K-psd", max(0.0, -lam.min() / lmax), ZERO, key + "/K-psd", lam_min=lam.min(), lam_max=lmax)
    Rd = R[dofs]
    KR = Kd @ Rd
    # column-wise relative size
    errs = np.abs(KR).max(0) / (np.abs(Kd).max() * np.abs(Rd).max(0))
    ctx.check("K-kernel-content", errs.max(), 1e-9, key + "/K-kernel-content", per_mode=errs)
    nzero = int((lam < ZERO * lmax).sum())
    ctx.require("K-rank", nzero == nrb, key + "/K-kernel-dim", zero_eigs=nzero, expected=nrb, n=len(lam),
                smallest=lam[: nrb + 3])
    return lam


def run_case(case: dict, ctx: Ctx) -> None:
    if case.get("fam") == "suite":
        return _suite.run_suite(case, ctx, PROP)
    rng = np.random.default_rng([case["seed"], NUM, case["index"]])
    if case["kind"] == "beam":
        return run_beam(case, ctx, rng)
    dim, et, mc = case["dim"], case["et"], case["mesh"]
    key = f"C02/{case['kind']}/{dim}D/{et}"
    ctx.default_key = key
    with ctx.monitored("no-exception", key + "/raised"):
        mesh, measure, info = _mesh_for(case, rng)
    if case.get("embed"):
        with ctx.monitored("no-exception", key + "/raised"):
            with quiet():
                ax = rng.normal(size=3)
                if dim == 2:
                    ax[2] = 0.0          # an axis of the plane: the plate leaves the plane
                mesh.Rotate(float(rng.uniform(20, 70)), (0, 0, 0), tuple(ax / np.linalg.norm(ax)))
        key = key + "/embedded"
        ctx.default_key = key
    X = mesh.coord
    used = gm.used_nodes(mesh)
    groups = mesh.Get_list_groupElem(mesh.dim)
    Ne = mesh.Ne

    # density: scalar, per element, per Gauss point (of the mass rule) — only single-group meshes here
    g = groups[0]
    form = case["rho"]
    if len(groups) > 1:
        form = "scalar"  # gmsh left several element types in the mesh; per-group densities are not expressible
        ctx.event("multi-group-mesh")
    rho0 = float(rng.uniform(0.5, 5))
    if case["index"] % 3 == 0:
        rho0 *= 1e-9      # another unit system (t / mm^3): densities of order 1e-9
    a = rng.uniform(-0.2, 0.2, 3) * rho0
    a[dim:] = 0
    xc = X[used].mean(0)
    vol_e = geo.element_measures(g.elemType.value, X, g.connect)
    with ctx.monitored("no-exception", key + "/raised"):
        if form == "scalar":
            rho = rho0
            total_rho = rho0 * measure
        elif form == "Ne":
            rho = rho0 * rng.uniform(0.5, 2.0, Ne)
            total_rho = float((rho * vol_e).sum())
        else:
            xg = np.asarray(g.Get_GaussCoordinates_e_pg(MatrixType.mass))
            rho = rho0 + (xg - xc) @ a
            # analytic integral of the linear density: rho0*measure + a.(first moment about xc)
            rho_nodes = rho0 + (X - xc) @ a
            # exact integral of a linear field over straight-sided simplices/parallelepipeds = measure_e * mean of vertex values
            # (general extruded quads are parallelograms only if organised; use the first-moment formula only when exact)
            total_rho = None

    thickness = float(rng.uniform(0.4, 2.0)) if (dim == 2 or case.get("embed")) else 1.0

    if case["kind"] == "elastic":
        with ctx.monitored("no-exception", key + "/raised"):
            law, ldesc = gmat.make_law(rng, dim, case["law"], planeStress=case["ps"], thickness=thickness)
            with quiet():
                simu = Simulations.Elastic(mesh, law)
                simu.rho = rho
                K, C, M, F = simu.Get_K_C_M_F()
        dof_n = dim
        nrb = 3 if dim == 2 else 6
        R = geo.rigid_modes_continuum(X, dim)
        Mmat = M
        mass_factor = thickness
    else:
        kcond = float(rng.uniform(0.5, 20))
        cheat = float(rng.uniform(0.5, 3))
        with ctx.monitored("no-exception", key + "/raised"):
            with quiet():
                model = Models.Thermal(k=kcond, c=cheat, thickness=thickness)
                simu = Simulations.Thermal(mesh, model)
                simu.rho = rho
                K, C, M, F = simu.Get_K_C_M_F()
        dof_n = 1
        nrb = 1
        R = np.ones((mesh.Nn, 1))
        Mmat = C
        mass_factor = cheat * (thickness if dim == 2 else 1.0)

    dofs = (used[:, None] * dof_n + np.arange(dof_n)).ravel()
    n = len(dofs)
    ctx.describe(f"{case['kind']}/{dim}D/{et}/{case.get('law', 'k')}/{mc}/rho={form}", Ne >= 2 and n > nrb,
                 kind=case["kind"], et=et, mesh=mc, Ne=Ne, ndof=n, rho_form=form, thickness=thickness, measure=measure)
    if n > 2500:
        ctx.note(f"skipped dense eig, n={n}")
        return
    lam = _check_K(ctx, K, dofs, R, key, nrb)

    # ---- mass / capacity ------------------------------------------------------------------------
    Md, asym, lamM = _dense_sym_eig(Mmat, dofs)
    ctx.check("M-symmetric", asym, 1e-11, key + "/M-symmetric")
    ctx.check("M-spd", max(0.0, 1e-10 - lamM.min() / lamM.max()), 0.0, key + "/M-spd", lam_min=lamM.min(), lam_max=lamM.max(),
              n_nonpositive=int((lamM <= 1e-10 * lamM.max()).sum()), n=n)
    for d in range(dof_n):
        one = np.zeros(mesh.Nn * dof_n)
        one[d::dof_n] = 1
        tot = float(one @ (Mmat @ one))
        if total_rho is not None:
            ctx.check("M-total", abs(tot - total_rho * mass_factor) / (total_rho * mass_factor), 1e-8, key + "/M-total",
                      direction=d, got=tot, want=total_rho * mass_factor, rho_form=form)
        else:
            # per-Gauss-point linear density: compare with the nodal-interpolation identity
            # sum_ij M_ij = sum_e sum_p w J rho(x_p) ; linear rho on straight-sided elements integrates to
            # sum_e vol_e * rho(centroid of vertices) for simplices / parallelograms; otherwise use the
            # conservative bound given by min/max density
            lo = float(np.min(rho)) * measure * mass_factor
            hi = float(np.max(rho)) * measure * mass_factor
            ctx.require("M-total-bounds", lo * (1 - 1e-9) <= tot <= hi * (1 + 1e-9), key + "/M-total", got=tot, lo=lo, hi=hi)
            topo = geo.topo(g.elemType.value)
            if topo in ("TRI", "TETRA") or mc == "patch":
                nv = geo.NVERT[topo]
                rc = rho_nodes[g.connect[:, :nv]].mean(1)
                want = float((rc * vol_e).sum()) * mass_factor
                ctx.check("M-total", abs(tot - want) / want, 1e-8, key + "/M-total", direction=d, got=tot, want=want, rho_form=form)
    if case["kind"] == "elastic":
        with ctx.monitored("no-exception", key + "/raised"):
            m = simu.mass
        if total_rho is not None:
            ctx.check("simu.mass", abs(m - total_rho * thickness) / (total_rho * thickness), 1e-8, key + "/simu.mass", got=m)
    # ---- the density is assigned again on the same simulation: another material, or a value adjusted by a few 1e-6 -------------
    if total_rho is not None:
        for f in (float(rng.uniform(0.2, 0.6)), 1.0 + float(rng.uniform(2e-6, 9e-6))):
            with ctx.monitored("no-exception", key + "/reassigned-density/raised"):
                with quiet():
                    simu.rho = rho * f
                    M2 = simu.Get_K_C_M_F()[2 if case["kind"] == "elastic" else 1]
            one = np.zeros(mesh.Nn * dof_n)
            one[0::dof_n] = 1
            tot = float(one @ (M2 @ one))
            want = total_rho * f * mass_factor
            ctx.check("M-total", abs(tot - want) / want, 1e-9, key + "/M-total@reassigned-density", got=tot, want=want, factor=f, rho0=rho0)
            rho = rho * f
            total_rho = total_rho * f
        # ---- the thickness of the model is assigned again on the same simulation (2-D meshes): M and K follow ---------------------
        if dim == 2 and mesh.inDim == 2:
            t2 = thickness * float(rng.uniform(0.2, 0.7))
            with ctx.monitored("no-exception", key + "/reassigned-thickness/raised"):
                with quiet():
                    (law if case["kind"] == "elastic" else model).thickness = t2
                    Kc, Cc, Mc, _ = simu.Get_K_C_M_F()
                    M2 = Mc if case["kind"] == "elastic" else Cc
            one = np.zeros(mesh.Nn * dof_n)
            one[0::dof_n] = 1
            tot = float(one @ (M2 @ one))
            want = total_rho * mass_factor * t2 / thickness
            ctx.check("M-total", abs(tot - want) / want, 1e-9, key + "/M-total@reassigned-thickness", got=tot, want=want, t_old=thickness, t_new=t2)
            ctx.check("K-scales-with-thickness", float(abs(Kc - K * (t2 / thickness)).max() / abs(K).max()), 1e-10, key + "/K@reassigned-thickness")


def run_beam(case: dict, ctx: Ctx, rng) -> None:
    dim, et, theory, orient = case["dim"], case["et"], case["theory"], case["orient"]
    key = f"C02/beam/{dim}D/{et}/{theory}/{orient}"
    ctx.default_key = key
    L = float(rng.uniform(1.0, 4.0))
    n = int(rng.integers(2, 5))
    b, h = float(rng.uniform(0.05, 0.3)), float(rng.uniform(0.05, 0.3))
    E, v = float(rng.uniform(1e3, 1e5)), float(rng.uniform(0.0, 0.4))
    p0 = np.zeros(3)
    p0[:dim] = rng.uniform(-1, 1, dim)
    if orient == "x":
        d = np.array([1.0, 0, 0])
    elif orient == "minus-x":
        p0[1:] = 0.0
        d = np.array([-1.0, 0, 0])
    else:
        d = np.zeros(3)
        d[:dim] = rng.normal(size=dim)
        d /= np.linalg.norm(d)
        if abs(d[0]) > 0.95 or abs(d[0]) < 0.2:  # keep it generic
            d[:2] = [np.cos(0.6), np.sin(0.6) * (1 if dim == 2 else 0.8)]
            d /= np.linalg.norm(d)
    yAxis = (0, 1, 0)
    if dim == 3 and orient not in ("x", "minus-x"):
        t = rng.normal(size=3)
        t -= (t @ d) * d
        yAxis = tuple(t / np.linalg.norm(t))
    rho = float(rng.uniform(0.5, 5))
    with ctx.monitored("no-exception", key + "/raised"):
        simu, mesh, beam, line = bc.make_member(dim, et, theory, p0, p0 + L * d, n, b, h, E, v, yAxis=yAxis)
        with quiet():
            simu.rho = rho
            K, C, M, F = simu.Get_K_C_M_F()
    X = mesh.coord
    used = np.unique(mesh.groupElem.connect.ravel())
    dof_n = simu.Get_dof_n()
    dofs = (used[:, None] * dof_n + np.arange(dof_n)).ravel()
    nrb = {1: 1, 2: 3, 3: 6}[dim]
    R = geo.rigid_modes_beam(X, dim)
    ctx.describe(f"beam/{dim}D/{et}/{theory}/{orient}", mesh.Ne >= 2, kind="beam", et=et, theory=theory, orient=orient,
                 Ne=mesh.Ne, ndof=len(dofs), direction=d, L=L)
    _check_K(ctx, K, dofs, R, key, nrb)
    Md, asym, lamM = _dense_sym_eig(M, dofs)
    ctx.check("M-symmetric", asym, 1e-11, key + "/M-symmetric")
    ctx.check("M-psd", max(0.0, -lamM.min() / lamM.max()), ZERO, key + "/M-psd", lam_min=lamM.min())
    A = b * h
    for dd in range(dim):
        one = np.zeros(mesh.Nn * dof_n)
        one[dd::dof_n] = 1
        tot = float(one @ (M @ one))
        want = rho * A * L
        ctx.check("M-total", abs(tot - want) / want, 1e-8, key + "/M-total", direction=dd, got=tot, want=want)
    with ctx.monitored("no-exception", key + "/raised"):
        m = simu.mass
    ctx.check("simu.mass", abs(m - rho * A * L) / (rho * A * L), 1e-8, key + "/simu.mass", got=m)
