"""C18 — hyperelastic stress, tangents and discrete energy balance are consistent.

Three scenario families, all observing the real code at its public boundary.

*law*: homogeneous deformations u = (F - I) X (random F, det F in [0.6, 1.8]) on a small real mesh, so that the real
``HyperElasticState`` kinematics are driven. Oracles: central finite differences in the Green-Lagrange strain (the state
is rebuilt from U = sqrt(I + 2(E +- h B_k)) for the six / three Kelvin-Mandel directions B_k): dW/dE_k against
``Compute_dWde``, d(dWde)/dE_k against ``Compute_d2Wde``; twin states (Q F - I) X for random rotations Q; the
reference configuration (W = 0, stress = 0); major symmetry of the tangent.

*operator*: every non-linear element operator on random non-homogeneous displacements of 1-6-element groups of many
element types: the returned tangent against central finite differences of the returned residual with respect to the
step unknown (with the operator's documented scaling), the internal force against the finite difference of the element
energy, the discrete power balance R.du = dW of the energy-conserving stresses, C_e = dR/dv and R = C v for the viscous
operator, follower pressure and penalty contact against an analytic plane.

*dynamics*: free motion of an unconstrained body under the midpoint scheme with the ``gonzalez`` and (converged)
``quadrature`` stresses: kinetic + stored energy at every step against the initial one.
"""

from __future__ import annotations

import numpy as np

from EasyFEA import AlgoType, ElemType, MatrixType, Models, Simulations
from EasyFEA.FEM import FeArray, Operators
from EasyFEA.Geoms import Domain
from EasyFEA.Models.HyperElastic._state import HyperElasticState

from ..core import Ctx, quiet, relerr
from ..gen import meshes as gm

PROP = "C18"
NUM = 18
RULE = (
    "law cases = (law, dimension) x random admissible F; operator cases = (operator, law, element type) x random displacement "
    "pairs; dynamics cases = (stress option, law, element type) x random initial velocity and step size. Signature = (family, "
    "law, operator / stress, dimension, element type). Non-trivial iff |E| > 1e-3 (law), the displacement increment is non-zero "
    "(operator), >= 10 converged steps with kinetic energy exchange > 1 % (dynamics)."
)
ASSUMPTIONS = [
    "finite-difference step 1e-6 in the strain / the dofs, derivative tolerance 1e-6 relative (the repository's own operator tests use the same)",
    "2-D is plane strain (F33 = 1), as the simulation documents",
    "energy conservation is judged on steps whose Newton iteration converged, with absTol = 1e-12; relative drift tolerance 1e-8 (gonzalez) / 1e-7 (adaptive quadrature with energyTol = 1e-10)",
    "penalty contact is checked against a plane (the curvature terms the operator drops vanish)",
]
TIMEOUT_CASE = 900
MIN_EVALS = {"newton-tangent-vs-fd": 8, "dW-is-stress": 10, "dS-is-tangent": 10, "objectivity": 20, "tangent-vs-fd": 20, "energy-conservation": 2}
REQUIRED_COVERAGE = ["PK2", "Gonzalez", "TimeQuadrature"]

LAWS = ["NeoHookean", "MooneyRivlin", "CiarletGeymonat", "SaintVenantKirchhoff", "HolzapfelOgden", "AutoDiff"]
ELEMS = [(2, "TRI3"), (2, "QUAD4"), (2, "TRI6"), (2, "QUAD8"), (2, "QUAD9"), (2, "TRI10"), (3, "TETRA4"), (3, "TETRA10"), (3, "PRISM6"), (3, "PRISM15"),
         (3, "HEXA8"), (3, "HEXA20"), (3, "HEXA27")]
OPS = ["PK2", "Gonzalez", "Gonzalez-simplified", "TimeQuadrature", "ActiveStress", "KelvinVoigt", "FollowingPressure", "PenaltyContact"]


def anchors():
    from EasyFEA.FEM.Operators import NonLinear as NL
    from EasyFEA.Models.HyperElastic import _laws, _state
    from EasyFEA.Simulations import _hyperelastic as H

    return [
        ("PK2", NL, "SecondPiolaKirchhoffStressTensor"), ("Gonzalez", NL, "GonzalezStressTensor"), ("TimeQuadrature", NL, "TimeQuadratureStressTensor"),
        ("ActiveStress", NL, "ActiveStressTensor"), ("KelvinVoigt", NL, "KelvinVoigtDamping"), ("FollowingPressure", NL, "FollowingPressure"),
        ("PenaltyContact", NL, "PenaltyContact"), ("Construct", H.HyperElastic, "Construct_local_matrix_system"),
        ("NeoHookean_dWde", _laws.NeoHookean, "Compute_dWde"), ("MooneyRivlin_d2Wde", _laws.MooneyRivlin, "Compute_d2Wde"),
        ("HolzapfelOgden_d2Wde", _laws.HolzapfelOgden, "Compute_d2Wde"), ("State_De", _state.HyperElasticState, "Compute_De"),
    ]


def cases(tier: str, seed: int) -> list[dict]:
    out = []
    rep = 1 if tier == "quick" else 8
    for r in range(rep):
        for law in LAWS:
            for dim in (2, 3):
                out.append({"fam": "law", "law": law, "dim": dim})
        # plane-strain model of a fibre-reinforced solid whose fibre / sheet directions leave the plane
        out.append({"fam": "law", "law": "HolzapfelOgden", "dim": 2, "oop": True})
        k = 0
        for op in OPS:
            for dim, et in ELEMS:
                if op in ("FollowingPressure",) and dim == 2:
                    continue
                heavy = et in ("HEXA27", "HEXA20", "PRISM15", "TRI10", "QUAD9", "TETRA10")
                if tier == "quick" and heavy and (k + r) % 3:
                    k += 1
                    continue
                k += 1
                law = LAWS[(k + r) % 4] if op not in ("PK2",) else LAWS[(k + r) % len(LAWS)]
                out.append({"fam": "operator", "op": op, "law": law, "dim": dim, "et": et})
    nd = 1 if tier == "quick" else 5
    for r in range(nd):
        for stress, law, dim, et in (("gonzalez", "SaintVenantKirchhoff", 2, "TRI3"), ("gonzalez", "NeoHookean", 2, "QUAD4"), ("quadrature", "NeoHookean", 2, "TRI3"),
                                     ("quadrature-fixed", "SaintVenantKirchhoff", 2, "QUAD4"), ("gonzalez", "MooneyRivlin", 3, "TETRA4"), ("quadrature", "MooneyRivlin", 3, "HEXA8"),
                                     ("gonzalez-simplified", "NeoHookean", 2, "TRI6")):
            out.append({"fam": "dynamics", "stress": stress, "law": law, "dim": dim, "et": et})
            if stress in ("gonzalez", "quadrature", "quadrature-fixed"):
                out.append({"fam": "dynamics", "stress": stress, "law": law, "dim": dim, "et": et, "save_every": [3, 0][len(out) % 2]})
    k = 0
    for r in range(rep):
        for algo, stress in (("elliptic", "pointwise"), ("newmark", "pointwise"), ("hht", "pointwise"), ("midpoint", "pointwise"), ("midpoint", "gonzalez"),
                             ("midpoint", "quadrature"), ("newmark", "quadrature"), ("hht", "quadrature"), ("hht_newmark", "pointwise"), ("euler_implicit", "pointwise")):
            for dim, et in ((2, "TRI3"), (2, "QUAD4"), (3, "TETRA4")):
                k += 1
                if tier == "quick" and (k + r) % 2:
                    continue
                out.append({"fam": "assembly", "algo": algo, "stress": stress, "law": LAWS[k % 4], "dim": dim, "et": et, "visco": k % 3 == 0 and algo != "elliptic", "active": k % 4 == 1})
    for i, c in enumerate(out):
        tag = {"assembly": lambda: f"{c['algo']}-{c['stress']}-{c['law']}-{c['et']}", "law": lambda: f"{c['law']}-{c['dim']}D{'-oop' if c.get('oop') else ''}", "operator": lambda: f"{c['op']}-{c['law']}-{c['et']}", "dynamics": lambda: f"{c['stress']}-{c['law']}-{c['et']}-{c.get('save_every', 1)}"}[c["fam"]]()
        c["id"] = f"C18-{i:05d}-{c['fam']}-{tag}"
        c["index"] = i
    return out


# ------------------------------------------------------------------------------------------
def _user_W(C):
    """A user potential for AutoDiff (compressible Neo-Hooke + a volumetric log^2 term), module-level so that it is picklable."""
    import jax.numpy as jnp

    J2 = jnp.linalg.det(C)
    lnJ = 0.5 * jnp.log(J2)
    return 0.4 * (jnp.trace(C) - 3.0) - 0.8 * lnJ + 1.5 * lnJ**2


def make_law(name, dim, rng, Ne=None, nPg=None, oop=False):
    HE = Models.HyperElastic
    if name == "NeoHookean":
        return HE.NeoHookean(dim, K=float(rng.uniform(0.5, 3)))
    if name == "MooneyRivlin":
        return HE.MooneyRivlin(dim, K1=float(rng.uniform(0.2, 1)), K2=float(rng.uniform(0.1, 0.6)), K=float(rng.uniform(0.5, 2)))
    if name == "CiarletGeymonat":
        return HE.CiarletGeymonat(dim, K1=float(rng.uniform(0.2, 1)), K2=float(rng.uniform(0.1, 0.6)), K=float(rng.uniform(0.5, 2)))
    if name == "SaintVenantKirchhoff":
        return HE.SaintVenantKirchhoff(dim, lmbda=float(rng.uniform(0.5, 2)), mu=float(rng.uniform(0.3, 1.5)))
    if name == "HolzapfelOgden":
        T1 = rng.normal(size=3)
        T2 = np.cross(T1, rng.normal(size=3))
        if dim == 2 and not oop:
            T1[2] = T2[2] = 0.0
            T2 = np.array([-T1[1], T1[0], 0.0])
        c = rng.uniform(0.1, 0.6, size=8)
        return HE.HolzapfelOgden(dim, *[float(x) for x in c], K=float(rng.uniform(0.5, 2)), Mu1=float(rng.uniform(0.1, 0.5)), Mu2=float(rng.uniform(0.1, 0.5)), T1=T1, T2=T2)
    if name == "AutoDiff":
        from EasyFEA.Models import _autodiff
        _autodiff.Enable_x64()
        return HE.AutoDiff(dim, _user_W)
    raise ValueError(name)


def unit_mesh(dim, et, rng=None):
    """Organised one-cell mesh (1-6 elements), as the repository's operator tests use; optionally distorted."""
    with quiet():
        if dim == 2:
            mesh = Domain((0, 0), (1, 1), 1.0).Mesh_2D([], ElemType(et), isOrganised=True)
        else:
            mesh = Domain((0, 0), (1, 1), 1.0).Mesh_Extrude([], [0, 0, 1], [1], ElemType(et), isOrganised=True)
    if rng is not None:
        A = np.eye(3) + rng.uniform(-0.15, 0.15, size=(3, 3))
        if dim == 2:
            A[2, :] = A[:, 2] = 0
            A[2, 2] = 1
        with quiet():
            mesh = gm.rebuild(mesh, coord=mesh.coord @ A.T)
    return mesh


def random_F(rng, dim):
    for _ in range(100):
        F = np.eye(dim) + rng.uniform(-0.35, 0.35, size=(dim, dim))
        J = np.linalg.det(F)
        if 0.6 <= J <= 1.8:
            return F
    return np.eye(dim) * 1.1


def disp_for(mesh, F, dim):
    X = mesh.coord[:, :dim]
    return (X @ (F - np.eye(dim)).T).ravel()


def mandel_basis(dim):
    B = []
    idx = [(0, 0), (1, 1), (0, 1)] if dim == 2 else [(0, 0), (1, 1), (2, 2), (1, 2), (0, 2), (0, 1)]
    for i, j in idx:
        M = np.zeros((dim, dim))
        if i == j:
            M[i, i] = 1.0
        else:
            M[i, j] = M[j, i] = 1 / np.sqrt(2)
        B.append(M)
    return B


def sqrtm_spd(A):
    w, Q = np.linalg.eigh(A)
    return (Q * np.sqrt(w)) @ Q.T


def evaluate(law, g, u):
    st = HyperElasticState(g, u, MatrixType.rigi)
    with quiet():
        W = np.asarray(law.Compute_W(st), float)
        S = np.asarray(law.Compute_dWde(st), float)
        CC = np.asarray(law.Compute_d2Wde(st), float)
    return W, S, CC


def run_law(case, ctx, rng):
    lawn, dim = case["law"], case["dim"]
    key0 = f"C18/law/{lawn}/{dim}D" + ("/out-of-plane-fibres" if case.get("oop") else "")
    ctx.default_key = key0
    with ctx.monitored("no-exception", key0 + "/build/raised"):
        mesh = unit_mesh(dim, "TRI3" if dim == 2 else "TETRA4", rng)
        g = mesh.groupElem
        law = make_law(lawn, dim, rng, oop=bool(case.get("oop")))
    F = random_F(rng, dim)
    I = np.eye(dim)
    E = 0.5 * (F.T @ F - I)
    h = 1e-6
    with ctx.monitored("no-exception", key0 + "/raised"):
        W0, S0, C0 = evaluate(law, g, disp_for(mesh, F, dim))
        d = S0.shape[-1]
        # homogeneous state: the same value at every point
        ctx.check("homogeneous", max(relerr(W0, W0.flat[0] * np.ones_like(W0)), relerr(S0, np.broadcast_to(S0[0, 0], S0.shape))), 1e-10, key0 + "/homogeneous")
        W0s, S0s, C0s = float(W0[0, 0]), S0[0, 0], C0[0, 0]
        scale_S = max(np.abs(S0s).max(), 1e-3 * np.abs(C0s).max())
        # --- derivatives in E (through U = sqrt(I + 2E)): dW/dE_k = S_k, dS/dE_k = CC[:, k]
        dW, dS = np.zeros(d), np.zeros((d, d))
        for k, Bk in enumerate(mandel_basis(dim)):
            Wp, Sp, _ = evaluate(law, g, disp_for(mesh, sqrtm_spd(I + 2 * (E + h * Bk)), dim))
            Wm, Sm, _ = evaluate(law, g, disp_for(mesh, sqrtm_spd(I + 2 * (E - h * Bk)), dim))
            dW[k] = (Wp[0, 0] - Wm[0, 0]) / (2 * h)
            dS[:, k] = (Sp[0, 0] - Sm[0, 0]) / (2 * h)
        ctx.check("dW-is-stress", float(np.abs(dW - S0s).max()) / scale_S, 1e-6, key0 + "/dW=S", F=F, S=S0s, fd=dW)
        ctx.check("dS-is-tangent", float(np.abs(dS - C0s).max()) / np.abs(C0s).max(), 1e-6, key0 + "/dS=CC")
        ctx.check("tangent-symmetric", float(np.abs(C0s - C0s.T).max()) / np.abs(C0s).max(), 1e-10, key0 + "/CC-symmetric")
        # --- objectivity: superposed rigid rotation
        for _ in range(3):
            if dim == 2:
                th = float(rng.uniform(0, 2 * np.pi))
                Q = np.array([[np.cos(th), -np.sin(th)], [np.sin(th), np.cos(th)]])
            else:
                Q = np.linalg.qr(rng.normal(size=(3, 3)))[0]
                if np.linalg.det(Q) < 0:
                    Q[:, 0] *= -1
            Wq, Sq, Cq = evaluate(law, g, disp_for(mesh, Q @ F, dim))
            ctx.check("objectivity", abs(Wq[0, 0] - W0s) / max(abs(W0s), 1e-12 * np.abs(C0s).max()), 1e-9, key0 + "/W(QF)=W(F)")
            ctx.check("objectivity", float(np.abs(Sq[0, 0] - S0s).max()) / scale_S, 1e-9, key0 + "/S(QF)=S(F)")
            ctx.check("objectivity", float(np.abs(Cq[0, 0] - C0s).max()) / np.abs(C0s).max(), 1e-9, key0 + "/CC(QF)=CC(F)")
        # --- reference configuration
        Wr, Sr, Cr = evaluate(law, g, np.zeros(mesh.Nn * dim))
        mod = np.abs(Cr).max()
        ctx.check("reference-state", float(np.abs(Wr).max()) / mod, 1e-12, key0 + "/W(I)=0")
        ctx.check("reference-state", float(np.abs(Sr).max()) / mod, 1e-12, key0 + "/S(I)=0", S=Sr[0, 0])
    ctx.describe(f"law/{lawn}/{dim}D", float(np.abs(E).max()) > 1e-3, law=lawn, dim=dim, F=F, J=float(np.linalg.det(F)))


# ------------------------------------------------------------------------------------------
def fd_tangent(force_fn, u, asse, eps=1e-6):
    Ne, nd = asse.shape
    K = np.zeros((Ne, force_fn(u).shape[1], nd))
    for j in range(nd):
        # the dofs of one element are distinct: one column per local dof, all elements at once when they do not share the dof
        for e in range(Ne):
            gdof = asse[e, j]
            up, um = u.copy(), u.copy()
            up[gdof] += eps
            um[gdof] -= eps
            K[e, :, j] = (force_fn(up)[e] - force_fn(um)[e]) / (2 * eps)
    return K


def run_operator(case, ctx, rng):
    op, lawn, dim, et = case["op"], case["law"], case["dim"], case["et"]
    key0 = f"C18/operator/{op}"
    ctx.default_key = key0
    NL = Operators.NonLinear
    with ctx.monitored("no-exception", key0 + "/build/raised"):
        mesh = unit_mesh(dim, et, rng)
        g = mesh.groupElem
        law = make_law(lawn, dim, rng)
        if dim == 2:
            law.thickness = float(rng.uniform(0.5, 2))
    n = mesh.Nn * dim
    amp = 0.04
    u_n = rng.normal(size=n) * amp
    u = u_n + rng.normal(size=n) * amp
    asse = g.Get_assembly_e(dim)
    mt = MatrixType.rigi
    st = lambda x: HyperElasticState(g, x, mt)  # noqa: E731
    tol = 1e-6

    def cmp(name, K_ana, K_fd, suffix=""):
        ctx.check("tangent-vs-fd", float(np.abs(K_ana - K_fd).max()) / max(np.abs(K_fd).max(), 1e-300), tol, f"{key0}/{name}{suffix}", law=lawn, et=et)

    with ctx.monitored("no-exception", key0 + "/raised"):
        with quiet():
            if op == "PK2":
                K, R = NL.SecondPiolaKirchhoffStressTensor(law, st(u))
                cmp("K=dR/du", K, fd_tangent(lambda x: NL.SecondPiolaKirchhoffStressTensor(law, st(x))[1], u, asse))
                # R = d(element energy)/du
                wJ = np.asarray(g.Get_weightedJacobian_e_pg(mt))
                th = law.thickness if dim == 2 else 1.0

                def energy(x):
                    return (th * (wJ * np.asarray(law.Compute_W(st(x)))).sum(axis=1))[:, None]

                Rfd = fd_tangent(energy, u, asse)[:, 0, :]
                ctx.check("force-is-energy-gradient", float(np.abs(R - Rfd).max()) / max(np.abs(Rfd).max(), 1e-300), tol, f"{key0}/R=dW/du", law=lawn, et=et)
                ctx.check("tangent-symmetric", float(np.abs(K - K.transpose(0, 2, 1)).max()) / np.abs(K).max(), 1e-10, f"{key0}/K-symmetric")
            elif op.startswith("Gonzalez"):
                cons = op == "Gonzalez"
                f = lambda x: NL.GonzalezStressTensor(law, st(u_n), st((u_n + x) / 2), st(x), cons)[1]  # noqa: E731
                K, R = NL.GonzalezStressTensor(law, st(u_n), st((u_n + u) / 2), st(u), cons)
                if cons:
                    cmp("K/2=dR/du", 0.5 * K, fd_tangent(f, u, asse))
                else:
                    Kc, Rc = NL.GonzalezStressTensor(law, st(u_n), st((u_n + u) / 2), st(u), True)
                    ctx.check("same-residual", relerr(R, Rc), 1e-13, f"{key0}/residual-independent-of-tangent-flag")
                wJ = np.asarray(g.Get_weightedJacobian_e_pg(mt))
                th = law.thickness if dim == 2 else 1.0
                dW = th * float((wJ * (np.asarray(law.Compute_W(st(u))) - np.asarray(law.Compute_W(st(u_n))))).sum())
                work = float(np.einsum("ei,ei->", R, (u - u_n)[asse]))
                ctx.check("discrete-power-balance", abs(work - dW) / abs(dW), 1e-9, f"{key0}/R.du=dW", law=lawn, et=et)
            elif op == "TimeQuadrature":
                for coefK in (0.5, 1.0, float(rng.uniform(0.6, 0.95))):
                    nP = int(rng.integers(1, 6))
                    ut = lambda x: u_n + coefK * (x - u_n)  # noqa: E731,B023
                    f = lambda x: NL.TimeQuadratureStressTensor(law, st(u_n), st(ut(x)), st(x), coefK, nP)[1]  # noqa: E731,B023
                    K, R, npts = NL.TimeQuadratureStressTensor(law, st(u_n), st(ut(u)), st(u), coefK, nP)
                    cmp("coefK.K=dR/du", coefK * K, fd_tangent(f, u, asse), suffix=f"/coefK={'0.5' if coefK == 0.5 else '1' if coefK == 1.0 else 'hht'}")
                # consistency of every fixed rule: on a zero step the path average is the pointwise stress (weights sum to one)
                Rpk = NL.SecondPiolaKirchhoffStressTensor(law, st(u))[1]
                for nP in range(1, 10):
                    Rq = NL.TimeQuadratureStressTensor(law, st(u), st(u), st(u), 0.5, nP)[1]
                    ctx.check("quadrature-consistency", relerr(Rq, Rpk), 1e-12, f"{key0}/zero-step=pointwise", nPoints=nP, law=lawn)
                # an energy that is quadratic in the strain is integrated exactly by every rule
                svk = Models.HyperElastic.SaintVenantKirchhoff(dim, lmbda=1.3, mu=0.7)
                svk.thickness = law.thickness
                wJ = np.asarray(g.Get_weightedJacobian_e_pg(mt))
                th = law.thickness if dim == 2 else 1.0
                dWs = th * float((wJ * (np.asarray(svk.Compute_W(st(u))) - np.asarray(svk.Compute_W(st(u_n))))).sum())
                for nP in range(1, 10):
                    Rs = NL.TimeQuadratureStressTensor(svk, st(u_n), st((u_n + u) / 2), st(u), 0.5, nP)[1]
                    ctx.check("discrete-power-balance", abs(float(np.einsum("ei,ei->", Rs, (u - u_n)[asse])) - dWs) / abs(dWs), 1e-9, f"{key0}/R.du=dW(quadratic energy, fixed rule)", nPoints=nP)
                # energy defect of the converged rule at midpoint
                K, R, npts = NL.TimeQuadratureStressTensor(law, st(u_n), st((u_n + u) / 2), st(u), 0.5, 1, tol=1e-11)
                wJ = np.asarray(g.Get_weightedJacobian_e_pg(mt))
                th = law.thickness if dim == 2 else 1.0
                dW = th * float((wJ * (np.asarray(law.Compute_W(st(u))) - np.asarray(law.Compute_W(st(u_n))))).sum())
                work = float(np.einsum("ei,ei->", R, (u - u_n)[asse]))
                if int(np.max(npts)) >= 33:
                    # documented: refinement stops at maxPoints even if the tolerance is not met (the step is too non-linear for the rule)
                    ctx.event("adaptive-quadrature-cap-reached")
                else:
                    ctx.check("discrete-power-balance", abs(work - dW) / abs(dW), 1e-8, f"{key0}/R.du=dW(adaptive)", law=lawn, et=et, points=int(np.max(npts)))
            elif op == "ActiveStress":
                nPg = g.Get_gauss(mt).nPg
                T = FeArray.asfearray(rng.normal(size=(g.Ne, nPg, 3)))
                law.Set_active_stress_vec(T)
                law.active_stress = float(rng.uniform(0.5, 2)) if rng.random() < 0.5 else rng.uniform(0.5, 2, size=g.Ne)
                K, R = NL.ActiveStressTensor(law, st(u))
                cmp("Kgeo=dR/du", K, fd_tangent(lambda x: NL.ActiveStressTensor(law, st(x))[1], u, asse))
            elif op == "KelvinVoigt":
                law.eta = float(rng.uniform(0.1, 1))
                v = rng.normal(size=n) * 0.3
                Kg, R, C = NL.KelvinVoigtDamping(law, st(u), v)
                cmp("Kgeo=dR/du", Kg, fd_tangent(lambda x: NL.KelvinVoigtDamping(law, st(x), v)[1], u, asse))
                cmp("C=dR/dv", C, fd_tangent(lambda w: NL.KelvinVoigtDamping(law, st(u), w)[1], v, asse))
                ctx.check("viscous-residual", relerr(R, np.einsum("eij,ej->ei", C, v[asse])), 1e-11, f"{key0}/R=C.v")
                ctx.check("tangent-symmetric", float(np.abs(C - C.transpose(0, 2, 1)).max()) / np.abs(C).max(), 1e-10, f"{key0}/C-symmetric")
            elif op == "FollowingPressure":
                gs = mesh.Get_list_groupElem(2)[0]
                asse_s = gs.Get_assembly_e(3)
                p = float(rng.uniform(0.5, 2)) * float(rng.choice([-1, 1]))
                elems = None if rng.random() < 0.5 else np.sort(rng.choice(gs.Ne, size=max(1, gs.Ne // 2), replace=False))
                K, R = NL.FollowingPressure(gs, u, p, elems)
                Kfd = fd_tangent(lambda x: NL.FollowingPressure(gs, x, p, elems)[1], u, asse_s)
                ctx.check("tangent-vs-fd", float(np.abs(K + Kfd).max()) / max(np.abs(Kfd).max(), 1e-300), tol, f"{key0}/K=-dF/du", et=gs.elemType.name)
                if elems is not None:
                    mask = np.ones(gs.Ne, bool)
                    mask[elems] = False
                    ctx.require("inactive-elements-zero", not np.any(K[mask]) and not np.any(R[mask]), f"{key0}/inactive-zero")
            elif op == "PenaltyContact":
                gs = mesh.Get_list_groupElem(dim - 1)[0]
                asse_s = gs.Get_assembly_e(dim)
                nrm = rng.normal(size=dim)
                nrm /= np.linalg.norm(nrm)
                n3 = np.zeros(3)
                n3[:dim] = nrm
                c0 = float(rng.uniform(0.3, 0.7))
                pen = float(rng.uniform(10, 100))
                mts = MatrixType.mass
                Npg = np.asarray(gs.Get_N_pg(mts))[:, 0, :]
                conn = gs.connect
                X = mesh.coord

                def gap_normal(x):
                    pos = X[conn][:, :, :dim] + x.reshape(-1, dim)[conn]
                    pg = np.einsum("pn,enc->epc", Npg, pos)
                    gap = pg @ nrm - c0
                    return FeArray.asfearray(gap), FeArray.asfearray(np.broadcast_to(n3, gap.shape + (3,)).copy())

                def force(x):
                    gp, nn = gap_normal(x)
                    return NL.PenaltyContact(gs, pen, gp, nn, None, mts)[1]

                gp, nn = gap_normal(u)
                K, R = NL.PenaltyContact(gs, pen, gp, nn, None, mts)
                frac = float((np.asarray(gp) < 0).mean())
                ctx.event("contact-active-fraction>0" if 0 < frac < 1 else "contact-all-or-none")
                # away from the kink of the Macaulay bracket (FD across gap = 0 is not a derivative)
                if np.abs(np.asarray(gp)).min() > 1e-4:
                    Kfd = fd_tangent(force, u, asse_s)
                    ctx.check("tangent-vs-fd", float(np.abs(K + Kfd).max()) / max(np.abs(K).max(), np.abs(Kfd).max(), 1e-300), tol, f"{key0}/K=-dF/du", et=gs.elemType.name)
                # total force = penalty * integral of penetration * n
                wJ = np.asarray(gs.Get_weightedJacobian_e_pg(mts))
                want = pen * float((wJ * np.maximum(-np.asarray(gp), 0)).sum()) * nrm
                Ftot = np.zeros(dim)
                np.add.at(Ftot, np.tile(np.arange(dim), gs.nPe * gs.Ne), R.ravel())
                ctx.check("contact-resultant", float(np.abs(Ftot - want).max()) / max(np.abs(want).max(), 1e-300) if np.abs(want).max() > 0 else float(np.abs(Ftot).max()), 1e-10, f"{key0}/resultant")
    ctx.describe(f"operator/{op}/{lawn}/{dim}D/{et}", float(np.abs(u - u_n).max()) > 0, op=op, law=lawn, et=et, Ne=g.Ne)


# ------------------------------------------------------------------------------------------
def run_dynamics(case, ctx, rng):
    stress, lawn, dim, et = case["stress"], case["law"], case["dim"], case["et"]
    key0 = f"C18/dynamics/{stress}" + ("" if case.get("save_every", 1) == 1 else f"/saved-every-{case['save_every']}")
    ctx.default_key = key0
    nsteps = 30 if case["tier"] == "quick" else int(rng.integers(40, 120))
    with ctx.monitored("no-exception", key0 + "/build/raised"):
        with quiet():
            if dim == 2:
                mesh = Domain((0, 0), (1.5, 1.0), 0.6).Mesh_2D([], ElemType(et), isOrganised=True)
            else:
                mesh = Domain((0, 0), (1.2, 1.0), 0.7).Mesh_Extrude([], [0, 0, 0.8], [1], ElemType(et), isOrganised=True)
            law = make_law(lawn, dim, rng)
            simu = Simulations.HyperElastic(mesh, law, absTol=1e-12, relTol=1e-13, incTol=1e-14, maxIter=40, verbosity=False)
            simu.rho = float(rng.uniform(0.5, 2))
            dt = float(rng.uniform(0.02, 0.12))
            simu.Solver_Set_Hyperbolic_Algorithm(dt, algo=AlgoType.midpoint)
            if stress == "gonzalez":
                simu.Solver_Set_Stress("gonzalez")
            elif stress == "gonzalez-simplified":
                simu.Solver_Set_Stress("gonzalez", useConsistentTangent=False)
            elif stress == "quadrature":
                simu.Solver_Set_Stress("quadrature", nPoints=3, energyTol=1e-10)
            else:
                simu.Solver_Set_Stress("quadrature", nPoints=int(rng.integers(1, 5)))  # SVK: W quadratic in E, every rule exact
    X = mesh.coord[:, :dim]
    # smooth initial velocity: stretching + rotation + bending
    A = rng.normal(size=(dim, dim)) * 0.25
    v0 = (X @ A.T + 0.2 * np.sin(2 * X[:, [0]]) * rng.normal(size=dim)).ravel()
    pt = simu.problemType
    energies, conv = [], 0
    with ctx.monitored("no-exception", key0 + "/raised"):
        with quiet():
            simu._Set_solutions(pt, np.zeros_like(v0), v0.copy(), np.zeros_like(v0))
            M = None
            for k in range(nsteps):
                try:
                    simu.Solve()
                except AssertionError as e:
                    if "converge" in str(e):
                        ctx.event("step-not-converged")
                        break
                    raise
                conv += 1
                if M is None:
                    M = simu.Get_K_C_M_F(pt)[2]
                v = simu._Get_v_n(pt)
                KE = 0.5 * float(v @ (M @ v))
                W = float(simu._Calc_W())
                energies.append((KE, W))
                # not every step is stored: every step, every third step, or none (the scheme advances from the state the
                # simulation holds, whether or not it was saved)
                every = case.get("save_every", 1)
                if every and (k + 1) % every == 0:
                    simu.Save_Iter()
    if M is not None and energies:
        KE0 = 0.5 * float(v0 @ (M @ v0))
        E = np.array([a + b for a, b in energies])
        drift = float(np.abs(E - KE0).max()) / KE0
        tol = 1e-8 if stress.startswith("gonzalez") or stress == "quadrature-fixed" else 1e-7
        exchange = float(max(b for _, b in energies)) / KE0
        ctx.check("energy-conservation", drift, tol, f"{key0}/KE+W", law=lawn, et=et, dt=dt, steps=conv, exchange=exchange, E0=KE0)
        ctx.describe(f"dynamics/{stress}/{lawn}/{dim}D/{et}/{case.get('save_every', 1)}", conv >= 10 and exchange > 0.01, stress=stress, law=lawn, et=et, dt=dt, steps=conv, exchange=exchange, drift=drift)
    else:
        ctx.describe(f"dynamics/{stress}/{lawn}/{dim}D/{et}", False)


def run_assembly(case, ctx, rng):
    """The Newton system of the simulation: A = coefK K + coefC C + coefM M against finite differences of the complete
    residual (internal force, viscous and active stresses, inertia, damping) with respect to the step unknown."""
    algo, stress, lawn, dim, et = case["algo"], case["stress"], case["law"], case["dim"], case["et"]
    key0 = f"C18/assembly/{algo}/{stress}"
    ctx.default_key = key0
    with ctx.monitored("no-exception", key0 + "/build/raised"):
        with quiet():
            mesh = unit_mesh(dim, et, rng)
            law = make_law(lawn, dim, rng)
            if case.get("visco"):
                law.eta = float(rng.uniform(0.05, 0.5))
            if case.get("active"):
                g = mesh.groupElem
                law.Set_active_stress_vec(FeArray.asfearray(rng.normal(size=(g.Ne, g.Get_gauss(MatrixType.rigi).nPg, 3))))
                law.active_stress = float(rng.uniform(0.2, 1))
            simu = Simulations.HyperElastic(mesh, law, verbosity=False)
            simu.rho = float(rng.uniform(0.5, 2))
            if algo != "elliptic":
                simu.Solver_Set_Hyperbolic_Algorithm(float(rng.uniform(0.05, 0.3)), algo=AlgoType(algo), alpha=float(rng.uniform(0.05, 0.3)))
            if stress == "gonzalez":
                simu.Solver_Set_Stress("gonzalez")
            elif stress == "quadrature":
                simu.Solver_Set_Stress("quadrature", nPoints=int(rng.integers(1, 5)))
    n = mesh.Nn * dim
    pt = simu.problemType
    u_n, v_n, a_n = rng.normal(size=n) * 0.03, rng.normal(size=n) * 0.2, rng.normal(size=n) * 1.0
    u = u_n + rng.normal(size=n) * 0.03
    setter = simu._Simu__Solver_Set_Newton_Raphson_current_solution

    def system(x):
        setter(x.copy())
        simu.Need_Update()
        K, C, M, F = simu.Get_K_C_M_F(pt)
        return K, C, M, np.asarray(F.toarray()).ravel()

    with ctx.monitored("no-exception", key0 + "/raised"):
        with quiet():
            simu._Set_solutions(pt, u_n.copy(), v_n.copy(), a_n.copy())
            K, C, M, F = system(u)
            if algo == "elliptic":
                A = K.toarray()
            else:
                cK, cC, cM = simu._Solver_Get_K_C_M_coefs_for_time_scheme()
                A = (cK * K + cC * C + cM * M).toarray()
            h = 1e-6
            Afd = np.zeros((n, n))
            for j in range(n):
                up, um = u.copy(), u.copy()
                up[j] += h
                um[j] -= h
                Afd[:, j] = -(system(up)[3] - system(um)[3]) / (2 * h)
    ctx.check("newton-tangent-vs-fd", float(np.abs(A - Afd).max()) / np.abs(Afd).max(), 1e-6, f"{key0}/A=-dF/du", law=lawn, et=et, visco=bool(case.get("visco")), active=bool(case.get("active")))
    ctx.describe(f"assembly/{algo}/{stress}/{lawn}/{dim}D/{et}/{int(bool(case.get('visco')))}{int(bool(case.get('active')))}", True, algo=algo, stress=stress, law=lawn, et=et)


def run_case(case: dict, ctx: Ctx) -> None:
    rng = np.random.default_rng([case["seed"], NUM, case["index"]])
    {"law": run_law, "operator": run_operator, "dynamics": run_dynamics, "assembly": run_assembly}[case["fam"]](case, ctx, rng)
