"""C01 — patch test: a linear field prescribed on the boundary is reproduced at every interior node,
with the constant strain / stress / energy reported afterwards.

Oracle: closed form (G, c, C, analytic measure) computed here; observation at Solve()/Result() boundary.
"""

from __future__ import annotations

import numpy as np

from EasyFEA import Models, Simulations, Mesh

from ..core import Ctx, quiet, relerr
from ..gen import meshes as gm
from ..gen import materials as gmat
from . import _beam_common as bc

PROP = "C01"
NUM = 1
RULE = (
    "cases = (simulation kind, element type, law / beam theory, mesh class) x seeded continuous data "
    "(polygon, affine map, node permutation, gradient G, offset c, moduli, axes). Signature = "
    "(kind, dim, elemType, law, planeStress, meshClass). Non-trivial iff the mesh has >= 1 interior (free) node "
    "and the prescribed gradient is non-zero."
)
ASSUMPTIONS = [
    "meshes are gmsh meshes of random star-shaped polygons / their extrusions, organised rectangles, affine images, "
    "renumbered copies and TRI+QUAD (PRISM+HEXA) merges; 20-400 elements",
    "moduli ratios <= 100, Poisson <= 0.45, |det A| in [0.35, 2.5]",
    "direct solver (scipy spsolve) only; iterative back-ends are C04's concern",
    "beams: straight members along a generic direction are C10's concern; here members lie along x",
]
TIMEOUT_CASE = 240
REQUIRED_COVERAGE = ["Get_B_e_pg", "LinearizedElasticity", "GradUGradV", "Solver_1"]
MIN_EVALS = {"solution": 20, "residual": 20, "strain": 8, "stress": 8, "Wdef": 8}

TOL_RES = 1e-9
TOL_SOL = 1e-8
TOL_POST = 1e-8


def anchors():
    from EasyFEA.FEM import _group_elem, Operators
    from EasyFEA.Simulations import Solvers, _simu

    G = _group_elem._GroupElem
    return [
        ("Get_F_e_pg", G, "Get_F_e_pg"),
        ("Get_invF_e_pg", G, "Get_invF_e_pg"),
        ("Get_dN_e_pg", G, "Get_dN_e_pg"),
        ("Get_B_e_pg", G, "Get_B_e_pg"),
        ("LinearizedElasticity", Operators.Bilinear, "LinearizedElasticity"),
        ("GradUGradV", Operators.Bilinear, "GradUGradV"),
        ("BeamStiffness", Operators.Bilinear, "BeamStiffness"),
        ("Solver_1", Solvers, "_Solvers__Solver_1") if hasattr(Solvers, "_Solvers__Solver_1") else ("Solver_1", Solvers, "__Solver_1"),
        ("Apply_Dirichlet", _simu._Simu, "_Solver_Apply_Dirichlet"),
    ]


# ------------------------------------------------------------------------------------------
def cases(tier: str, seed: int) -> list[dict]:
    out = []
    rep = 1 if tier == "quick" else 8
    classes2d = ["gmsh", "concave", "affine", "reflected", "renumbered", "organised"]
    laws = gmat.KINDS
    k = 0
    for r in range(rep):
        for et in gm.ET_2D:
            for j, law in enumerate(laws):
                mc = classes2d[(k + j + r) % len(classes2d)]
                out.append({"kind": "elastic", "dim": 2, "et": et, "law": law, "ps": bool((k + j + r) % 2), "mesh": mc})
            k += 1
            out.append({"kind": "thermal", "dim": 2, "et": et, "mesh": classes2d[(k + r) % len(classes2d)]})
        for et in gm.ET_3D:
            heavy = et in ("HEXA20", "HEXA27")
            nl = 1 if (heavy and tier == "quick") else (2 if tier == "quick" else 4)
            for j in range(nl):
                law = laws[(k + j + r) % 4]
                mc = ["gmsh", "affine", "reflected", "renumbered"][(k + j + r) % 4]
                out.append({"kind": "elastic", "dim": 3, "et": et, "law": law, "ps": False, "mesh": mc})
            k += 1
            out.append({"kind": "thermal", "dim": 3, "et": et, "mesh": ["gmsh", "affine", "renumbered"][(k + r) % 3]})
            if not et.startswith("TETRA"):
                # tapered extrusion (frustum): prisms / hexas that are not affine images of the reference element
                out.append({"kind": ["elastic", "thermal"][(k + r) % 2], "dim": 3, "et": et, "law": laws[(k + r) % 4], "ps": False, "mesh": "tapered"})
        # curved (isoparametric) geometry: a plate with a circular hole, elements of order >= 2, three length scales
        for j, et in enumerate([e for e in gm.ET_2D + gm.ET_3D if gm.ORDER[e] >= 2]):
            dim_ = 2 if et in gm.ET_2D else 3
            kind_ = ["elastic", "thermal"][(j + r) % 2]
            out.append({"kind": kind_, "dim": dim_, "et": et, "law": laws[(j + r) % 4], "ps": bool(j % 2) and dim_ == 2, "mesh": "curved",
                        "scale": [1.0, 1e-6, 1e3][(j + r) % 3]})
        for et in gm.ET_1D:
            out.append({"kind": "thermal", "dim": 1, "et": et, "mesh": "line"})
        # mixed element groups
        for pair in [("TRI3", "QUAD4"), ("TRI6", "QUAD8"), ("TRI6", "QUAD9")]:
            out.append({"kind": "elastic", "dim": 2, "et": "+".join(pair), "law": laws[(k + r) % 4], "ps": bool(r % 2), "mesh": "mixed"})
            out.append({"kind": "thermal", "dim": 2, "et": "+".join(pair), "mesh": "mixed"})
            k += 1
        for pair in [("PRISM6", "HEXA8"), ("PRISM15", "HEXA20"), ("PRISM18", "HEXA27")]:
            if tier == "quick" and pair[0] != "PRISM6" and r == 0 and seed % 2 == 1:
                continue
            out.append({"kind": "elastic", "dim": 3, "et": "+".join(pair), "law": laws[(k + r) % 4], "ps": False, "mesh": "mixed"})
            k += 1
        # beams
        for theory in ("EB", "Timo"):
            for et in gm.ET_1D:
                for bdim in (1, 2, 3):
                    out.append({"kind": "beam", "dim": bdim, "et": et, "theory": theory, "mesh": "line"})
        # members made of two welded beams: non-zero prescribed values through the Lagrange-multiplier solve
        for theory, et, bdim in (("EB", "SEG2", 2), ("EB", "SEG3", 3), ("Timo", "SEG2", 3), ("Timo", "SEG3", 2), ("EB", "SEG4", 1)):
            out.append({"kind": "beam", "dim": bdim, "et": et, "theory": theory, "mesh": "welded"})
    # one system with more than 46341 dofs: linear (row, col) indices no longer fit 32-bit integers
    out.append({"kind": "elastic", "dim": 2, "et": "TRI3", "law": "iso", "ps": True, "mesh": "large"})
    if tier != "quick":
        out.append({"kind": "thermal", "dim": 2, "et": "TRI3", "mesh": "large"})
    for i, c in enumerate(out):
        c["id"] = f"C01-{i:05d}-{c['kind']}-{c['dim']}d-{c['et']}-{c.get('law', c.get('theory', 'k'))}-{c['mesh']}"
        c["index"] = i
    return out


# ------------------------------------------------------------------------------------------
def _on_poly_boundary(xy: np.ndarray, poly: np.ndarray, tol: float) -> np.ndarray:
    on = np.zeros(len(xy), dtype=bool)
    for i in range(len(poly)):
        a, b = poly[i], poly[(i + 1) % len(poly)]
        ab = b - a
        t = np.clip(((xy - a) @ ab) / (ab @ ab), 0, 1)
        d = np.linalg.norm(xy - (a + t[:, None] * ab), axis=1)
        on |= d < tol
    return on


def build_mesh(case: dict, rng: np.random.Generator):
    """Returns mesh, boundary nodes, analytic measure, description."""
    dim, et, mc = case["dim"], case["et"], case["mesh"]
    info: dict = {}
    if dim == 1:
        L = float(rng.uniform(0.5, 3.0))
        n = int(rng.integers(2, 7))
        with quiet():
            mesh = gm.mesh1d(et, L, n)
        X = mesh.coord
        used = gm.used_nodes(mesh)
        xs = X[used, 0]
        bnd = used[(np.abs(xs - xs.min()) < 1e-12) | (np.abs(xs - xs.max()) < 1e-12)]
        return mesh, bnd, L, {"L": L, "n": n}

    if mc == "curved":
        with quiet():
            mesh, (Lx, Ly, h, c, R) = gm.mesh_curved(rng, et, dim, case.get("scale", 1.0), layers=case.get("layers", 2))
            measure = float(mesh.area if dim == 2 else mesh.volume)  # the measure of the curved mesh as the library integrates it (C07 judges that)
        used = gm.used_nodes(mesh)
        bnd = np.intersect1d(gm.boundary_nodes(mesh), used)
        return mesh, bnd, measure, {"curved": True, "scale": case.get("scale", 1.0), "R": R, "h": h if dim == 3 else None}
    h = float(rng.uniform(0.5, 1.5))
    if mc == "mixed":
        # two conforming organised blocks sharing the edge x = 1
        nx = int(rng.integers(2, 4))
        ms = 1.0 / nx
        e1, e2 = et.split("+")
        p1 = np.array([[0, 0], [1, 0], [1, 1], [0, 1]], float)
        p2 = np.array([[1, 0], [2, 0], [2, 1], [1, 1]], float)
        with quiet():
            if dim == 2:
                m1 = gm.mesh2d(p1, e1, ms, organised=True)
                m2 = gm.mesh2d(p2, e2, ms, organised=True)
            else:
                m1 = gm.mesh3d(p1, e1, h, nx, ms, organised=True)
                m2 = gm.mesh3d(p2, e2, h, nx, ms, organised=True)
            mesh = Mesh.Merge([m1, m2])
        poly = np.array([[0, 0], [2, 0], [2, 1], [0, 1]], float)
        info["blocks"] = [m1.Ne, m2.Ne]
    else:
        if mc == "organised":
            poly = np.array([[0, 0], [1, 0], [1, 1], [0, 1]], float) * rng.uniform(0.6, 2.0, 2)
        elif mc == "large":
            poly = np.array([[0, 0], [1.3, 0], [1.0, 1.0], [0, 0.8]], float)
        else:
            poly = gm.random_polygon(rng, n=int(rng.integers(4, 7)), concave=(mc == "concave"))
        order = gm.ORDER[et]
        target = {1: 0.45, 2: 0.6, 3: 0.75, 4: 0.9}[order]
        if dim == 3:
            target *= 1.5
        ms = float(target * rng.uniform(0.85, 1.2))
        if mc == "large":
            # ~27 000 nodes (elastic: 54 000 dofs) / ~48 000 nodes (thermal)
            ms = 0.0063 if case["kind"] == "elastic" else 0.0047
        with quiet():
            if dim == 2:
                mesh = gm.mesh2d(poly, et, ms, organised=(mc == "organised"))
            else:
                # first-order volumes need >= 2 layers to own interior nodes
                mesh = gm.mesh3d(poly, et, h, int(rng.integers(2, 4)) if order == 1 else int(rng.integers(1, 3)), ms)
    area, _ = gm.shoelace(poly)
    measure = abs(area) * (h if dim == 3 else 1.0)

    X0 = mesh.coord
    tol = 1e-7
    on = _on_poly_boundary(X0[:, :2], poly, tol)
    if dim == 3:
        on |= (np.abs(X0[:, 2]) < tol) | (np.abs(X0[:, 2] - h) < tol)
    used = gm.used_nodes(mesh)
    mask = np.zeros(len(X0), bool)
    mask[used] = True
    bnd = np.where(on & mask)[0]

    if mc in ("affine", "reflected"):
        A, t = gm.affine_map(rng, dim, reflect=(mc == "reflected"))
        X = X0 @ A.T + t
        mesh = gm.rebuild(mesh, coord=X)
        measure *= abs(np.linalg.det(A))
        info["detA"] = float(np.linalg.det(A))
    elif mc == "tapered":
        al = float(rng.uniform(0.15, 0.5)) * float(rng.choice([-1, 1])) / h
        X = X0.copy()
        X[:, :2] *= (1 + al * X0[:, 2])[:, None]
        mesh = gm.rebuild(mesh, coord=X)
        measure = abs(area) * (h + al * h**2 + al**2 * h**3 / 3)
        info["taper"] = al
    elif mc == "renumbered":
        perm = rng.permutation(len(X0))
        mesh = gm.rebuild(mesh, perm=perm)
        bnd = perm[bnd]
        info["perm_head"] = perm[:6].tolist()
    info.update({"poly": np.round(poly, 4).tolist(), "h": h if dim == 3 else None})
    return mesh, bnd, measure, info


def _kelvin(G: np.ndarray, dim: int) -> np.ndarray:
    e = 0.5 * (G + G.T)
    r2 = np.sqrt(2)
    if dim == 2:
        return np.array([e[0, 0], e[1, 1], r2 * e[0, 1]])
    return np.array([e[0, 0], e[1, 1], e[2, 2], r2 * e[1, 2], r2 * e[0, 2], r2 * e[0, 1]])


def _voigt_tensor(km: np.ndarray, dim: int) -> np.ndarray:
    """What Result('Strain'/'Stress') reports: tensor components [xx, yy, (zz, yz, xz,) xy]."""
    v = km.copy()
    if dim == 2:
        v[2] /= np.sqrt(2)
    else:
        v[3:] /= np.sqrt(2)
    return v


def run_case(case: dict, ctx: Ctx) -> None:
    rng = np.random.default_rng([case["seed"], NUM, case["index"]])
    if case["kind"] == "beam":
        return run_beam(case, ctx, rng)

    dim, et, mc = case["dim"], case["et"], case["mesh"]
    key = f"C01/{case['kind']}/{dim}D/{et}/{case.get('law', 'k')}/{mc}"
    ctx.default_key = key
    mesh, bnd, measure, info = build_mesh(case, rng)
    X = mesh.coord
    used = gm.used_nodes(mesh)
    Nn = mesh.Nn
    interior = np.setdiff1d(used, bnd)

    if case["kind"] == "thermal":
        # the size of the field is part of the workload: a unit system in which every prescribed value is tiny (or huge) is legitimate
        amp = float(10.0 ** rng.choice([0, 0, 3, -4, -9, -12]))
        g = np.zeros(3)
        g[:dim] = rng.uniform(-2, 2, dim) * amp
        c0 = float(rng.uniform(-3, 3)) * amp
        t_lin = X @ g + c0
        k = float(rng.uniform(0.5, 20))
        with ctx.monitored("no-exception", key + "/raised"):
            with quiet():
                model = Models.Thermal(k=k, c=1.0, thickness=float(rng.uniform(0.5, 2)))
                simu = Simulations.Thermal(mesh, model)
                simu.add_dirichlet(bnd, [t_lin[bnd]], ["t"])
                K = simu.Get_K_C_M_F()[0]
                sol = simu.Solve()
        free = np.setdiff1d(np.arange(Nn), bnd)
        free = np.intersect1d(free, used)
        r = (K @ t_lin)[free]
        scale = abs(K).max() * np.abs(t_lin).max()
        ctx.describe(f"thermal/{dim}D/{et}/{mc}", len(interior) > 0 and np.linalg.norm(g) > 0,
                     kind="thermal", et=et, mesh=mc, Ne=mesh.Ne, Nn=Nn, n_interior=int(len(interior)), g=g[:dim], k=k, amplitude=amp, **info)
        if len(free):
            ctx.check("residual", np.abs(r).max() / scale, TOL_RES)
        ctx.check("solution", relerr(sol[used], t_lin[used]), TOL_SOL, n_interior=len(interior))
        ctx.finite("finite", sol)
        return

    # ---- elasticity -----------------------------------------------------------------------------
    thickness = float(rng.uniform(0.3, 2.5)) if dim == 2 else 1.0
    with ctx.monitored("no-exception", key + "/raised"):
        law, ldesc = gmat.make_law(rng, dim, case["law"], planeStress=case["ps"], thickness=thickness)
    G = np.zeros((3, 3))
    amp = float(10.0 ** rng.choice([0, 0, 2, -4, -8, -11]))
    G[:dim, :dim] = rng.uniform(-1, 1, (dim, dim)) * 1e-2 * rng.choice([1.0, 10.0]) * amp
    c0 = np.zeros(3)
    # (a rigid translation of the size of the strain times the size of the part: a translation many orders of magnitude larger than
    # G.X on a micrometre part would only test the cancellation of its round-off in the reported strains)
    c0[:dim] = rng.uniform(-1, 1, dim) * 1e-2 * amp * float(case.get("scale", 1.0))
    U = X @ G.T + c0  # (Nn, 3)
    u_lin = U[:, :dim].ravel()
    names = ["x", "y", "z"][:dim]
    with ctx.monitored("no-exception", key + "/raised"):
        with quiet():
            simu = Simulations.Elastic(mesh, law)
            simu.add_dirichlet(bnd, [U[bnd, d] for d in range(dim)], names)
            K = simu.Get_K_C_M_F()[0]
            sol = simu.Solve()
            strain = np.asarray(simu.Result("Strain", nodeValues=False))
            stress = np.asarray(simu.Result("Stress", nodeValues=False))
            wdef = float(simu.Result("Wdef"))
            C = np.asarray(law.C)

    dofs_used = (used[:, None] * dim + np.arange(dim)).ravel()
    dofs_bnd = (bnd[:, None] * dim + np.arange(dim)).ravel()
    free = np.setdiff1d(dofs_used, dofs_bnd)
    ctx.describe(f"elastic/{dim}D/{et}/{case['law']}/ps={case['ps']}/{mc}", len(interior) > 0 and np.abs(G).max() > 0,
                 kind="elastic", et=et, mesh=mc, law=ldesc.get("kind"), planeStress=case["ps"], Ne=mesh.Ne, Nn=Nn,
                 n_interior=int(len(interior)), G=G[:dim, :dim], measure=measure, thickness=thickness, amplitude=amp, **info)
    if len(free):
        r = (K @ u_lin)[free]
        ctx.check("residual", np.abs(r).max() / (abs(K).max() * np.abs(u_lin).max()), TOL_RES)
    ctx.check("solution", relerr(sol[dofs_used], u_lin[dofs_used]), TOL_SOL, n_interior=len(interior))
    ctx.finite("finite", sol)

    eps = _kelvin(G[:dim, :dim], dim)
    sig = C @ eps
    eps_v = _voigt_tensor(eps, dim)
    sig_v = _voigt_tensor(sig, dim)
    ncomp = len(eps)
    ctx.require("result-shape", strain.shape == (mesh.Ne, ncomp) and stress.shape == (mesh.Ne, ncomp),
                got=[list(strain.shape), list(stress.shape)], want=[mesh.Ne, ncomp])
    if strain.shape == (mesh.Ne, ncomp):
        ctx.check("strain", relerr(strain, np.broadcast_to(eps_v, strain.shape), scale=np.abs(eps_v).max()), TOL_POST)
    if stress.shape == (mesh.Ne, ncomp):
        ctx.check("stress", relerr(stress, np.broadcast_to(sig_v, stress.shape), scale=np.abs(sig_v).max()), TOL_POST)
    w_exact = 0.5 * eps @ C @ eps * measure * thickness
    # measure of TRI10 etc. carries the 1e-10 error of 15-digit tabulated abscissae -> same tolerance class
    ctx.check("Wdef", abs(wdef - w_exact) / abs(w_exact), TOL_POST, wdef=wdef, exact=w_exact)

    # ---- second life of the same objects: the mesh is re-coordinated in place by an affine stretch of any size - down to one that
    # barely moves the nodes - and the same simulation solves the patch test of the stretched part (every cached geometric factor
    # has to follow; an affine image of the mesh is still a mesh on which the linear field is exact)
    curved = mc == "curved"  # curved elements keep position-dependent factors: each of them is re-coordinated, the three sizes in turn
    if (rng.random() < 0.6) | curved:
        mag = float(rng.choice([3e-6, 1e-3, 0.2]))
        mag = [3e-6, 1e-3, 0.2][case["index"] % 3] if curved else mag
        A = np.eye(3)
        A[:dim, :dim] += mag * rng.uniform(-1, 1, (dim, dim))
        X2 = X @ A.T
        # ... and, one time out of two, the interior nodes are moved on top of it by a small fraction of the element size (no longer an
        # affine image: the stiffness itself changes, the domain and the exactness of the linear field do not)
        jig = float(rng.choice([0.0, 1e-6, 1e-3]))
        # (first-order elements only: their moved meshes are again unstructured meshes of straight-sided elements, which the property
        # names; moving single nodes of a quadratic or cubic element bends it in all directions, and an under-integrated serendipity
        # element - PRISM15 with its stiffness rule - then reproduces the linear field only to the order of the bend, which the
        # property does not exclude: seen on the unchanged tree when this stage was first written, and withdrawn as a false alarm)
        if jig and len(interior) and all(t in ("TRI3", "QUAD4", "TETRA4", "HEXA8", "PRISM6") for t in str(et).split("+")):
            hs = (abs(measure) * abs(np.linalg.det(A[:dim, :dim])) / max(mesh.Ne, 1)) ** (1.0 / dim)
            X2[interior, :dim] += jig * hs * rng.uniform(-1, 1, (len(interior), dim))
        U2 = X2 @ G.T + c0
        u2 = U2[:, :dim].ravel()
        k2 = f"{key}@re-coordinated-in-place"
        with ctx.monitored("no-exception", k2 + "/raised"):
            with quiet():
                mesh.coord = X2
                simu.Bc_Init()
                simu.add_dirichlet(bnd, [U2[bnd, d] for d in range(dim)], names)
                sol2 = simu.Solve()
                strain2 = np.asarray(simu.Result("Strain", nodeValues=False))
                stress2 = np.asarray(simu.Result("Stress", nodeValues=False))
                wdef2 = float(simu.Result("Wdef"))
        ctx.event("re-coordinated-in-place", 1)
        ctx.check("solution", relerr(sol2[dofs_used], u2[dofs_used]), TOL_SOL, k2 + "/solution", stretch=mag, jiggle=jig)
        if strain2.shape == (mesh.Ne, ncomp):
            ctx.check("strain", relerr(strain2, np.broadcast_to(eps_v, strain2.shape), scale=np.abs(eps_v).max()), TOL_POST, k2 + "/strain", stretch=mag)
        if stress2.shape == (mesh.Ne, ncomp):
            ctx.check("stress", relerr(stress2, np.broadcast_to(sig_v, stress2.shape), scale=np.abs(sig_v).max()), TOL_POST, k2 + "/stress", stretch=mag)
        w2 = w_exact * abs(np.linalg.det(A[:dim, :dim]))
        ctx.check("Wdef", abs(wdef2 - w2) / abs(w2), TOL_POST, k2 + "/Wdef", wdef=wdef2, exact=w2, stretch=mag)


# ------------------------------------------------------------------------------------------
def run_beam(case: dict, ctx: Ctx, rng: np.random.Generator) -> None:
    bc.patch_test(case, ctx, rng)
