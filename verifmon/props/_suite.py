"""The repository's own tests and example scripts as an extra workload (DESIGN section 3.4): they run unedited, in
subprocesses, with the global monitors of verifmon.monitors.hooks installed; what the monitors observed for ONE property
is folded into that property's verdict. The pass / fail status of the tests is not used; an example that cannot run here
(optional package, data file) simply contributes less workload.

Examples are copied to a scratch directory first (they write their results next to the script)."""

from __future__ import annotations

import glob
import json
import os
import shutil
import signal
import subprocess
import sys
import tempfile
import time

from ..core import Ctx

REPO = os.path.realpath(os.environ.get("VERIF_REPO", "/repo"))
ROOT = os.path.dirname(os.path.dirname(os.path.dirname(os.path.abspath(__file__))))

MONITOR_OF = {"C02": "assembly", "C03": "assembly", "C04": "bc", "C05": "timestep", "C08": "location", "C09": "loads", "C16": "results", "C11": "law", "C12": "fearray", "C14": "perturb,stale", "C15": "history",
              "C17": "phasefield", "C19": "integrate"}

# workloads: ("tests", [paths relative to /repo]) or ("examples", [glob patterns relative to /repo/examples], cap seconds per script)
WORKLOADS = {
    "tests-simulations": ("tests", ["tests/Simulations"]),
    "tests-models": ("tests", ["tests/Models"]),
    "tests-fem": ("tests", ["tests/FEM"]),
    "examples-short": ("examples", ["Beam/Beam[1-5].py", "LinearizedElasticity/Elas[1345].py", "Thermal/Thermal1.py", "WeakForms/Poisson1.py", "HelloWorld.py",
                                    "LinearizedElasticity/Homog1.py", "Hyperelasticity/Hyperelas1.py"], 60),
    "examples-elastic": ("examples", ["LinearizedElasticity/*.py", "Beam/*.py", "Thermal/*.py", "Contact/Contact[123].py", "Meshes/Mesh5_*.py", "Meshes/Mesh11.py"], 120),
    "examples-weakforms": ("examples", ["WeakForms/*.py"], 120),
    "examples-nonlinear": ("examples", ["Hyperelasticity/Hyperelas*.py", "PhaseField/*.py"], 150),
    "examples-inelastic": ("examples", ["Inelasticity/*.py"], 120),
    "examples-phasefield-short": ("examples", ["PhaseField/LShape.py", "PhaseField/CT.py"], 120),
    "examples-phasefield": ("examples", ["PhaseField/*.py"], 240),
    "examples-loads": ("examples", ["LinearizedElasticity/MeshOptim1.py", "LinearizedElasticity/Elas7.py"], 90),
    "examples-dynamic": ("examples", ["Beam/Beam[67].py", "LinearizedElasticity/Elas9.py", "Thermal/Thermal[23].py", "Hyperelasticity/Hyperelas4.py"], 90),
    "examples-dynamic-long": ("examples", ["LinearizedElasticity/Elas10.py", "WeakForms/LinearElasticity2.py"], 150),
    "examples-histories": ("examples", ["Contact/Contact[23].py", "Inelasticity/RelaxationPlate.py", "LinearizedElasticity/Elas7.py", "PhaseField/LShape.py", "Beam/Beam6.py",
                                        "Thermal/Thermal3.py"], 120),
}

# which workloads drive which property's monitor (chosen from a survey of what each workload makes the monitor see)
PLAN = {
    "C02": {"quick": ["examples-short"], "thorough": ["tests-simulations", "examples-elastic"]},
    "C03": {"quick": ["examples-short"], "thorough": ["tests-simulations", "examples-elastic", "examples-weakforms", "examples-nonlinear", "examples-inelastic"]},
    "C04": {"quick": ["examples-short"], "thorough": ["tests-simulations", "examples-elastic", "examples-weakforms", "examples-nonlinear", "examples-inelastic"]},
    "C05": {"quick": ["examples-dynamic"], "thorough": ["tests-simulations", "examples-dynamic", "examples-dynamic-long"]},
    "C15": {"quick": ["examples-histories"], "thorough": ["tests-simulations", "examples-histories", "examples-nonlinear", "examples-inelastic", "examples-elastic"]},
    "C17": {"quick": ["examples-phasefield-short"], "thorough": ["tests-simulations", "tests-models", "examples-phasefield"]},
    "C08": {"quick": [], "thorough": ["tests-fem"]},   # no example script asks for reference coordinates
    "C09": {"quick": ["examples-loads"], "thorough": ["tests-simulations", "examples-elastic", "examples-nonlinear"]},
    "C16": {"quick": ["examples-short"], "thorough": ["tests-simulations", "examples-elastic", "examples-inelastic", "examples-nonlinear"]},
    "C11": {"quick": ["examples-short"], "thorough": ["tests-models", "tests-simulations", "examples-elastic", "examples-nonlinear"]},
    "C12": {"quick": ["examples-short"], "thorough": ["tests-fem", "tests-models", "tests-simulations", "examples-weakforms", "examples-nonlinear"]},
    "C14": {"quick": ["examples-short"], "thorough": ["tests-simulations", "examples-elastic", "examples-weakforms", "examples-nonlinear", "examples-inelastic"]},
    "C19": {"quick": ["examples-inelastic"], "thorough": ["tests-models", "tests-simulations", "examples-inelastic"]},
}


def suite_cases(prop: str, tier: str) -> list[dict]:
    out = []
    for w in PLAN[prop][tier]:
        out.append({"fam": "suite", "workload": w, "timeout": 1500, "id": f"{prop}-suite-{w}"})
    return out


def _run_tests(paths, env, tmp):
    cmd = ["/venv/bin/python", "-m", "pytest", "-q", "-p", "no:cacheprovider", "-p", "verifmon.monitors.plugin", "-n", "4", "--timeout=900", "-x", "--co", "-q"]
    cmd = ["/venv/bin/python", "-m", "pytest", "-q", "-p", "no:cacheprovider", "-p", "verifmon.monitors.plugin", "-n", "4", "--timeout=900"] + paths
    p = subprocess.run(cmd, cwd=REPO, env=env, capture_output=True, text=True, timeout=1400)
    tail = (p.stdout or "").strip().splitlines()[-1:] or [""]
    if " passed" not in tail[0] and " failed" not in tail[0]:
        # the test session ended without its summary line (seen once on a loaded machine: the xdist workers were lost and only the
        # controller reported): run it once more, in one process, before concluding anything about what the monitors saw
        cmd = [c for c in cmd if c not in ("-n", "4")]
        p = subprocess.run(cmd, cwd=REPO, env=env, capture_output=True, text=True, timeout=1400)
        tail = ["retried: " + ((p.stdout or "").strip().splitlines()[-1:] or [""])[0]]
    return {"pytest": tail[0][:200]}


def _run_examples(patterns, cap, env, tmp):
    ex = os.path.join(tmp, "examples")
    shutil.copytree(os.path.join(REPO, "examples"), ex)
    scripts = []
    for pat in patterns:
        scripts += sorted(glob.glob(os.path.join(ex, pat)))
    status = {}
    running = []

    def reap(block):
        for item in list(running):
            p, s, t0 = item
            if p.poll() is None:
                if time.time() - t0 > cap:
                    p.send_signal(signal.SIGTERM)  # the monitors write what they saw, then the process ends
                    try:
                        p.wait(30)
                    except subprocess.TimeoutExpired:
                        p.kill()
                        p.wait()
                    status[os.path.relpath(s, ex)] = "capped"
                    running.remove(item)
                continue
            status[os.path.relpath(s, ex)] = f"exit{p.returncode}"
            running.remove(item)
        if block and running:
            time.sleep(0.5)

    for s in scripts:
        while len(running) >= 4:
            reap(True)
        e = dict(env, VERIFMON_OUT=os.path.join(tmp, "out", os.path.relpath(s, ex).replace("/", "__")))
        running.append((subprocess.Popen(["/venv/bin/python", "-m", "verifmon.monitors.runscript", s], cwd=os.path.dirname(s), env=e,
                                         stdout=subprocess.DEVNULL, stderr=subprocess.DEVNULL), s, time.time()))
    while running:
        reap(True)
    return {"scripts": status}


def run_suite(case: dict, ctx: Ctx, prop: str) -> None:
    kind, *spec = WORKLOADS[case["workload"]]
    mon = MONITOR_OF[prop]
    key0 = f"{prop}/suite/{case['workload']}"
    ctx.default_key = key0
    tmp = tempfile.mkdtemp(prefix="suite-", dir=os.environ.get("VERIF_TMP") or None)
    try:
        os.makedirs(os.path.join(tmp, "out"))
        env = dict(os.environ, VERIFMON_MONITORS=mon, VERIFMON_OUT=os.path.join(tmp, "out", "t"), MPLBACKEND="Agg",
                   PYTHONPATH=os.pathsep.join([ROOT, os.path.join(ROOT, ".deps"), os.environ.get("PYTHONPATH", "")]))
        info = _run_tests(spec[0], env, tmp) if kind == "tests" else _run_examples(spec[0], spec[1], env, tmp)
        agg: dict[str, dict] = {}
        calls: dict[str, int] = {}
        merr: list[str] = []
        nfiles = 0
        for f in glob.glob(os.path.join(tmp, "out", "*.json")):
            try:
                with open(f) as fh:
                    d = json.load(fh)
            except Exception:  # noqa: BLE001
                continue
            nfiles += 1
            for k, v in d["calls"].items():
                calls[k] = calls.get(k, 0) + v
            merr += [e for e in d["monitor_errors"] if not e.startswith("script-status")]
            for k, r in d["records"].items():
                if r["property"] != prop:
                    continue
                a = agg.setdefault(k, {"oracle": r["oracle"], "n": 0, "failed": 0, "worst": 0.0, "tol": r["tol"], "witness": []})
                a["n"] += r["n"]
                a["failed"] += r["failed"]
                a["worst"] = max(a["worst"], r["worst"])
                a["witness"] += r["witness"][: max(0, 4 - len(a["witness"]))]
    finally:
        shutil.rmtree(tmp, ignore_errors=True)
    total = sum(a["n"] for a in agg.values())
    for k, a in sorted(agg.items()):
        # one recorded check per (monitor key, workload): the error is the worst one seen over a["n"] evaluations
        err = a["worst"] if not a["failed"] else (a["worst"] if a["worst"] > a["tol"] else float("inf"))
        ctx.check("suite:" + a["oracle"], err, a["tol"], f"{k}@{case['workload']}", evaluations=a["n"], failed=a["failed"], witness=a["witness"])
        ctx.event("suite-evaluations:" + a["oracle"], a["n"])
    for e in sorted(set(merr))[:5]:
        ctx.event("suite-monitor-error:" + e[:80])
    ctx.event("suite-processes-reporting", nfiles)
    capped = [k for k, v in (info.get("scripts") or {}).items() if v == "capped"] if isinstance(info, dict) else []
    if total == 0 and capped and len(capped) == len(info.get("scripts") or {}):
        # every script of this borrowed workload ran into its time cap before it reached the monitored call (a loaded machine): the
        # workload contributes nothing; the property's own scenarios (with their minimum numbers of oracle evaluations) still decide
        ctx.event("suite-workload-capped-before-any-observation")
        ctx.describe(f"suite/{case['workload']}", False, workload=case["workload"], monitor=mon, evaluations=0, capped=capped[:6])
        return
    if total == 0:
        # the monitor was never reached by this workload: nothing was decided
        raise RuntimeError(f"suite workload {case['workload']} produced no observation for {prop} (calls={calls}, info={str(info)[:300]})")
    if merr:
        raise RuntimeError(f"monitor of {prop} failed inside the workload: {sorted(set(merr))[:3]}")
    ctx.describe(f"suite/{case['workload']}", True, workload=case["workload"], monitor=mon, evaluations=total, keys=len(agg), calls=calls,
                 info=str(info)[:400])
