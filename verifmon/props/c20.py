"""C20 — any partition of a mesh is a true partition and assembles row-complete systems; Merge is the inverse bookkeeping.

*partition*: the same gmsh model is meshed once as a whole (Nproc = 1) and once per part count through the repository's own
single-process partition path (``Mesher._Mesh_Get_Meshes``, reached through the public ``Mesh_2D`` / ``Mesh_Extrude``
generators). Oracles, all computed by the harness from the global connectivity: every element (of every group) and every
node has exactly one owner; each part holds exactly its owned elements plus every element touching an owned node; global
numbering, coordinates, connectivity rows and tags are kept; two builds (and a build in another process with another hash
seed) give the same split. Then real simulations (Elastic, Thermal) are assembled on every part alone and on the whole
mesh: K, C, M, F of a part equal the global ones on the rows of the dofs it owns; owned-row energies and reactions summed
over the parts equal the global ones.

*merge*: ``Mesh.Merge(..., return_mapping=True)`` on the parts of a partition, on conforming blocks, on >= 3 meshes meeting
at points and edges, on disjoint meshes, with and without ``mergePoints``: coordinates through the mapping, mapped
connectivities, node and element counts against geometric counts.
"""

from __future__ import annotations

import hashlib
import os
import subprocess
import sys

import numpy as np

from EasyFEA import ElemType, Mesher, Models, Simulations
from EasyFEA.FEM import Mesh
from EasyFEA.Geoms import Domain, Point, Points

from ..core import Ctx, quiet, relerr
from ..gen import meshes as gm

PROP = "C20"
NUM = 20
RULE = (
    "partition cases = (element type incl. mixed boundary types, geometry class, part count from 2 up to the element count); "
    "merge cases = (kind of merge, element types). Signature = (family, element type, part-count class: 2-3 / 4-8 / 9-32 / "
    "> 32 / = Ne). Non-trivial iff every part owns >= 1 element (partition) / the merge identifies >= 1 coincident node (merge)."
)
ASSUMPTIONS = [
    "single process: the partition is built by Mesher._Mesh_Get_Meshes as the repository's own partition tests do; MPI collectives are unreachable",
    "the owner of a node is the one the main-dimension groups report (Mesh._Get_mpi_owned_nodes)",
    "row comparison tolerance 1e-12 relative to the largest entry of the global matrix (same element matrices, different summation order)",
]
TIMEOUT_CASE = 600
MIN_EVALS = {"one-owner": 20, "ghost-layer-exact": 10, "row-complete": 10, "merge-mapping": 10}
REQUIRED_COVERAGE = ["partitioned_groupElems", "Merge"]


def anchors():
    from EasyFEA.FEM import _mesher, _mesh, _group_elem

    return [
        ("partitioned_groupElems", _mesher.Mesher, "_Mesher__Get_partitioned_groupElems"), ("dict_groupElems", _mesher.Mesher, "_Mesher__Get_dict_groupElems"),
        ("Mesh_Get_Meshes", _mesher.Mesher, "_Mesh_Get_Meshes"), ("Set_partitioned_data", _group_elem._GroupElem, "_Set_partitioned_data"),
        ("Merge", _mesh.Mesh, "Merge"), ("owned_nodes", _mesh.Mesh, "_Get_mpi_owned_nodes"),
    ]


ETS = [(2, "TRI3"), (2, "QUAD4"), (2, "TRI6"), (2, "QUAD8"), (2, "TRI10"), (2, "QUAD9"), (3, "TETRA4"), (3, "TETRA10"), (3, "PRISM6"), (3, "HEXA8"), (3, "PRISM15"), (3, "HEXA20")]


def cases(tier: str, seed: int) -> list[dict]:
    out = []
    rep = 1 if tier == "quick" else 8
    for r in range(rep):
        for dim, et in ETS:
            heavy = et in ("TETRA10", "PRISM15", "HEXA20", "TRI10", "QUAD9")
            if tier == "quick" and heavy and et not in ("TRI10",):
                continue
            for cls in ("few", "some", "many") if not (tier == "quick" and dim == 3) else ("few", "many"):
                out.append({"fam": "partition", "dim": dim, "et": et, "nclass": cls, "geom": "polygon" if r % 2 else "rectangle"})
        # quadrangle meshes of a triangular domain keep some triangles: two main-dimension element types in one mesh
        for et2 in ("QUAD4", "QUAD8", "QUAD9"):
            for cls in ("few", "some", "many"):
                out.append({"fam": "partition", "dim": 2, "et": et2, "nclass": cls, "geom": "triangle"})
        for cls in ("few", "many"):
            out.append({"fam": "partition", "dim": 3, "et": "HEXA8", "nclass": cls, "geom": "triangle"})
        out.append({"fam": "partition", "dim": 2, "et": "TRI3", "nclass": "all", "geom": "rectangle"})
        out.append({"fam": "partition", "dim": 2, "et": "TRI6", "nclass": "all", "geom": "rectangle"})
        for kind in ("parts", "blocks", "corner", "disjoint", "no-merge-points", "single"):
            for dim, et in ((2, "TRI3"), (2, "QUAD8"), (3, "HEXA8"), (2, "TRI6+QUAD8")):
                if kind == "parts" and "+" in et:
                    continue
                out.append({"fam": "merge", "kind": kind, "dim": dim, "et": et})
    if tier != "quick":
        for dim, et in ((2, "TRI3"), (2, "QUAD8"), (3, "TETRA4")):
            out.append({"fam": "reproducible", "dim": dim, "et": et})
    else:
        out.append({"fam": "reproducible", "dim": 2, "et": "TRI6"})
    for i, c in enumerate(out):
        tag = "-".join(str(c.get(k)) for k in ("et", "nclass", "geom", "kind") if c.get(k) is not None)
        c["id"] = f"C20-{i:05d}-{c['fam']}-{tag}"
        c["index"] = i
    return out


# ------------------------------------------------------------------------------------------
def build_parts(spec: dict, Nproc: int) -> list[Mesh]:
    """The spec'd mesh, split in Nproc parts by the repository's partition path (Nproc = 1: the whole mesh)."""
    orig = Mesher._Mesh_Get_Mesh
    Mesher._Mesh_Get_Mesh = lambda self, coef=1.0: self._Mesh_Get_Meshes(Nproc, coef)
    try:
        with quiet():
            pts = Points([(float(x), float(y)) for x, y in spec["poly"]], spec["ms"])
            if spec["dim"] == 2:
                return pts.Mesh_2D([], ElemType(spec["et"]), isOrganised=spec["organised"])
            return pts.Mesh_Extrude([], [0, 0, spec["h"]], [spec["layers"]], ElemType(spec["et"]), isOrganised=spec["organised"])
    finally:
        Mesher._Mesh_Get_Mesh = orig


def make_spec(case, rng):
    dim, et = case["dim"], case["et"]
    if case.get("geom") == "triangle":
        poly = np.array([[0, 0], [4 + rng.uniform(0, 2), 0], [rng.uniform(1, 3), 3 + rng.uniform(0, 2)]], float)
        organised = False
    elif case.get("geom") == "polygon":
        poly = gm.random_polygon(rng, n=int(rng.integers(4, 7))) * 3.0
        organised = False
    else:
        poly = np.array([[0, 0], [1, 0], [1, 1], [0, 1]], float) * rng.uniform(2.0, 5.0, 2)
        organised = bool(rng.integers(2))
    order = gm.ORDER[et]
    ms = float({1: 0.8, 2: 1.1, 3: 1.4, 4: 1.6}[order] * rng.uniform(0.8, 1.3)) * (1.5 if dim == 3 else 1.0)
    return {"dim": dim, "et": et, "poly": poly.tolist(), "ms": ms, "organised": organised, "h": float(rng.uniform(1, 2)), "layers": int(rng.integers(1, 4))}


def part_data(mesh: Mesh):
    """{elemType name: (rank, owned elements, ghost elements, owned nodes, ghost nodes, global element index of each row)}."""
    out = {}
    for etype, g in mesh.dict_groupElem.items():
        rank, el, gel, nd, gnd = g._Get_partitioned_data()
        out[etype.name] = (int(rank), np.asarray(el), np.asarray(gel), np.asarray(nd), np.asarray(gnd), np.asarray(g._globalElements))
    return out


def digest_parts(parts) -> str:
    h = hashlib.sha256()
    for m in parts:
        for name, d in sorted(part_data(m).items()):
            h.update(name.encode())
            for a in d[1:]:
                h.update(np.ascontiguousarray(np.asarray(a, dtype=np.int64)).tobytes())
            h.update(np.ascontiguousarray(m.dict_groupElem[ElemType[name]].connect.astype(np.int64)).tobytes())
        h.update(np.ascontiguousarray(m.coord).tobytes())
    return h.hexdigest()


def choose_nproc(case, rng, Ne):
    cls = case["nclass"]
    lo, hi = {"few": (2, 4), "some": (4, 9), "many": (9, 40)}.get(cls, (Ne, Ne + 1))
    lo, hi = min(lo, Ne), min(hi, Ne + 1)
    return int(rng.integers(lo, max(hi, lo + 1)))


def nclass_of(N, Ne):
    return "=Ne" if N == Ne else "2-3" if N <= 3 else "4-8" if N <= 8 else "9-32" if N <= 32 else ">32"


def run_partition(case, ctx, rng):
    dim, et = case["dim"], case["et"]
    key0 = f"C20/partition/{et}"
    ctx.default_key = key0
    spec = make_spec(case, rng)
    with ctx.monitored("no-exception", key0 + "/build/raised"):
        glob = build_parts(spec, 1)[0]
    gd = {name: g for name, g in ((t.name, g) for t, g in glob.dict_groupElem.items())}
    main = [g.elemType.name for g in glob.Get_list_groupElem(dim)]
    Ne = glob.Ne
    if Ne < 4:
        ctx.describe(f"partition/{et}/too-small", False)
        return
    N = choose_nproc(case, rng, Ne)
    ncl = nclass_of(N, Ne)
    key = f"{key0}/N{ncl}"
    with ctx.monitored("no-exception", key + "/raised"):
        parts = build_parts(spec, N)
        parts2 = build_parts(spec, N)
    ctx.require("part-count", len(parts) == N, key + "/count", got=len(parts), N=N)
    if case["index"] % 2:
        # the parts go through Mesh.Save / Load_Mesh (as Simu.Save / Load_Simu do with them): what is read back is the same partition
        import tempfile, shutil
        from EasyFEA.FEM._mesh import Load_Mesh  # noqa: PLC0415
        tmpd = tempfile.mkdtemp(prefix="c20-", dir=os.environ.get("VERIF_TMP") or None)
        try:
            with ctx.monitored("no-exception", key + "/Save+Load_Mesh/raised"):
                with quiet():
                    back = [Load_Mesh(m.Save(tmpd, f"part{r}")) for r, m in enumerate(parts)]
            ctx.require("reproducible", digest_parts(back) == digest_parts(parts), key + "/Save+Load_Mesh-changes-the-partition")
            parts = back
            key = key + "/reloaded"
        finally:
            shutil.rmtree(tmpd, ignore_errors=True)
    # ---- reproducible ----------------------------------------------------------------------------------------------------
    ctx.require("reproducible", digest_parts(parts) == digest_parts(parts2), key + "/two-builds-differ")
    pdata = [part_data(m) for m in parts]
    # ---- numbering, coordinates, connectivity rows, tags --------------------------------------------------------------------
    for r, m in enumerate(parts):
        # (documented: the rows of the nodes outside the part are never written and stay at zero)
        mine = np.unique(np.concatenate([g.nodes for g in m.dict_groupElem.values()])) if m.dict_groupElem else np.array([], int)
        ctx.require("global-numbering", m.coord.shape == glob.coord.shape and np.array_equal(m.coord[mine], glob.coord[mine]), key + "/coordinates", rank=r)
        for name, d in pdata[r].items():
            if name not in gd:
                ctx.require("global-numbering", False, key + "/unknown-group", rank=r, group=name)
                continue
            rows = d[5]
            con = m.dict_groupElem[ElemType[name]].connect
            ok = rows.size == con.shape[0] and (rows.size == 0 or (rows.max() < gd[name].Ne and np.array_equal(con, gd[name].connect[rows])))
            ctx.require("global-numbering", ok, key + "/connectivity-rows", rank=r, group=name)
            ctx.require("rank-recorded", d[0] == r, key + "/rank", rank=r, got=d[0])
            # element tags of the part = the global tag restricted to the part's elements
            gp, gg = m.dict_groupElem[ElemType[name]], gd[name]
            for tag in gg.elementTags:
                want = np.intersect1d(np.asarray(gg.Get_Elements_Tag(tag)), rows)
                got = rows[np.asarray(gp.Get_Elements_Tag(tag), dtype=int)] if tag in gp.elementTags else np.array([], int)
                if not np.array_equal(np.sort(got), np.sort(want)):
                    ctx.require("tags-kept", False, key + "/element-tag", rank=r, group=name, tag=tag, got=len(got), want=len(want))
                    break
            else:
                ctx.require("tags-kept", True, key + "/element-tag")
    # ---- one owner per element (every group) ------------------------------------------------------------------------------------
    for name, g in gd.items():
        owners = np.zeros(g.Ne, int)
        for r in range(len(parts)):
            if name in pdata[r]:
                np.add.at(owners, pdata[r][name][1], 1)
        ctx.require("one-owner", bool((owners == 1).all()), key + ("/elements" if name in main else "/lower-dimensional-elements"), group=name,
                    unowned=int((owners == 0).sum()), multiply_owned=int((owners > 1).sum()))
    # ---- one owner per node -------------------------------------------------------------------------------------------------------
    used = gm.used_nodes(glob)
    nown = np.zeros(glob.Nn, int)
    owned_nodes = []
    for r, m in enumerate(parts):
        with quiet():
            on = np.asarray(m._Get_mpi_owned_nodes(), dtype=int)
        owned_nodes.append(on)
        np.add.at(nown, on, 1)
    ctx.require("one-owner", bool((nown[used] == 1).all()) and int(nown.sum()) == len(used), key + "/nodes", unowned=int((nown[used] == 0).sum()), multiply_owned=int((nown > 1).sum()))
    # every group of a part reports the same owner for the nodes it holds
    for r in range(len(parts)):
        for name, d in pdata[r].items():
            gnodes = np.unique(parts[r].dict_groupElem[ElemType[name]].connect) if d[5].size else np.array([], int)
            mine = np.intersect1d(gnodes, owned_nodes[r])
            # what a main-dimension group lists as owned = the nodes of its elements (ghosts included) the part owns
            ctx.require("one-owner", np.array_equal(np.sort(d[3]), mine) if name in main else set(d[3].tolist()).issubset(set(owned_nodes[r].tolist())),
                        key + "/group-owned-nodes-consistent", rank=r, group=name)
    # ---- exact ghost layer: own elements + every element touching an owned node -------------------------------------------------------
    for r in range(len(parts)):
        mask = np.zeros(glob.Nn, bool)
        mask[owned_nodes[r]] = True
        for name in main:
            g = gd[name]
            d = pdata[r].get(name)
            own = d[1] if d is not None else np.array([], int)
            touching = np.where(mask[g.connect].any(axis=1))[0]
            want = np.union1d(own, touching)
            have = d[5] if d is not None else np.array([], int)
            ctx.require("ghost-layer-exact", np.array_equal(np.sort(have), want), key + "/ghost-layer", rank=r, group=name,
                        missing=np.setdiff1d(want, have)[:5], superfluous=np.setdiff1d(have, want)[:5])
            if d is not None:
                ctx.require("ghost-layer-exact", np.array_equal(np.sort(d[2]), np.setdiff1d(want, own)), key + "/ghost-elements-recorded", rank=r, group=name)
    # ---- row-complete systems ----------------------------------------------------------------------------------------------------------
    every_owns = all(sum(len(pdata[r][n][1]) for n in main if n in pdata[r]) > 0 for r in range(len(parts)))
    for phys in ("elastic", "thermal"):
        with ctx.monitored("no-exception", f"{key}/{phys}/raised"):
            with quiet():
                def sim(mesh):
                    if phys == "elastic":
                        s = Simulations.Elastic(mesh, Models.Elastic.Isotropic(dim, E=10.0, v=0.3, planeStress=True, thickness=1.3))
                        s.Set_Rayleigh_Damping_Coefs(0.3, 0.01)
                    else:
                        s = Simulations.Thermal(mesh, Models.Thermal(k=2.0, c=1.5, thickness=0.7))
                    s.rho = 1.7
                    un = s.Get_unknowns()
                    s.add_volumeLoad(mesh.nodes, [0.3] * len(un), un)
                    return s, un
                sg, un = sim(glob)
                Kg, Cg, Mg, Fg = sg.Get_K_C_M_F()
                dof_n = len(un)
                xg = rng.normal(size=glob.Nn * dof_n)
                Eg = 0.5 * float(xg @ (Kg @ xg))
                Rg = Kg @ xg
                Esum, Rsum = 0.0, np.zeros_like(Rg)
                scaleK, scaleM = np.abs(Kg.data).max(), np.abs(Mg.data).max() if Mg.nnz else 1.0
                for r, m in enumerate(parts):
                    sp, _ = sim(m)
                    Kp, Cp, Mp, Fp = sp.Get_K_C_M_F()
                    dofs = sp.Bc_dofs_nodes(owned_nodes[r], un)
                    if dofs.size == 0:
                        continue
                    for nm, A, B, sc in (("K", Kp, Kg, scaleK), ("M", Mp, Mg, scaleM), ("C", Cp, Cg, max(np.abs(Cg.data).max() if Cg.nnz else 0, 1e-300))):
                        if B.nnz == 0 and A.nnz == 0:
                            continue
                        dif = (A[dofs] - B[dofs])
                        e = float(np.abs(dif.data).max()) / sc if dif.nnz else 0.0
                        ctx.check("row-complete", e, 1e-12, f"{key}/{phys}/{nm}-owned-rows", rank=r)
                    eF = float(np.abs((Fp[dofs] - Fg[dofs]).toarray()).max()) / max(float(np.abs(Fg.toarray()).max()), 1e-300)
                    ctx.check("row-complete", eF, 1e-12, f"{key}/{phys}/F-owned-rows", rank=r)
                    sp._Set_solutions(sp.problemType, xg.copy())
                    Esum += float(sp.Calc_Energy(Kp, xg, dofs))
                    Rp = np.asarray(sp.Calc_Reaction(dofs))
                    Rsum[dofs] += Rp
                ctx.check("energy-sum", abs(Esum - Eg) / abs(Eg), 1e-11, f"{key}/{phys}/sum-of-owned-row-energies")
                ctx.check("reaction-sum", relerr(Rsum, Rg), 1e-11, f"{key}/{phys}/sum-of-owned-row-reactions")
    ctx.event("mixed-main-groups" if len(main) > 1 else "single-main-group")
    ctx.describe(f"partition/{et}/{ncl}/{'mixed' if len(main) > 1 else 'single'}", every_owns, et=et, Ne=Ne, Nn=int(glob.Nn), Nproc=N, groups=sorted(gd))


# ------------------------------------------------------------------------------------------
def run_reproducible(case, ctx, rng):
    """The split built in another process with another hash seed (python sets are iterated in hash order)."""
    dim, et = case["dim"], case["et"]
    key0 = f"C20/reproducible/{et}"
    ctx.default_key = key0
    spec = make_spec(dict(case, geom="rectangle"), rng)
    spec["organised"] = False
    with ctx.monitored("no-exception", key0 + "/raised"):
        glob = build_parts(spec, 1)[0]
        N = int(rng.integers(3, min(12, glob.Ne)))
        here = digest_parts(build_parts(spec, N))
    code = (
        "import sys, json; sys.path[:0] = " + repr([p for p in sys.path if p]) + "\n"
        "from verifmon.props import c20\n"
        f"spec = json.loads({__import__('json').dumps(__import__('json').dumps(spec))!s})\n"
        f"print('DIGEST', c20.digest_parts(c20.build_parts(spec, {N})))\n"
    )
    outs = []
    for hs in ("1", "12345"):
        env = dict(os.environ, PYTHONHASHSEED=hs)
        p = subprocess.run([sys.executable, "-c", code], capture_output=True, text=True, timeout=300, env=env)
        d = [l.split()[1] for l in p.stdout.splitlines() if l.startswith("DIGEST")]
        outs.append(d[0] if d else None)
    if None in outs:
        ctx.note("subprocess failed")
        ctx.describe(f"reproducible/{et}", False)
        return
    ctx.require("reproducible", outs[0] == outs[1] == here, key0 + "/other-process-other-hash-seed", N=N)
    ctx.describe(f"reproducible/{et}", True, et=et, N=N)


# ------------------------------------------------------------------------------------------
def block(dim, et, x0, y0, nx, z0=0.0):
    poly = np.array([[x0, y0], [x0 + 1, y0], [x0 + 1, y0 + 1], [x0, y0 + 1]], float)
    with quiet():
        if dim == 2:
            return gm.mesh2d(poly, et, 1.0 / nx, organised=True)
        m = gm.mesh3d(poly, et, 1.0, nx, 1.0 / nx, organised=True)
        if z0:
            m.Translate(dz=z0)
        return m


def elem_sets(mesh, mapping=None):
    out = {}
    for t, g in mesh.dict_groupElem.items():
        con = g.connect if mapping is None else mapping[g.connect]
        out[t.name] = sorted(tuple(sorted(r)) for r in con.tolist())
    return out


def run_merge(case, ctx, rng):
    kind, dim, et = case["kind"], case["dim"], case["et"]
    key0 = f"C20/merge/{kind}"
    ctx.default_key = key0
    nx = int(rng.integers(2, 4))
    ets = et.split("+")
    coincident = 0
    with ctx.monitored("no-exception", key0 + "/raised"):
        if kind == "parts":
            spec = make_spec({"dim": dim, "et": et, "geom": "rectangle"}, rng)
            glob = build_parts(spec, 1)[0]
            N = int(rng.integers(2, min(9, glob.Ne)))
            meshes = build_parts(spec, N)
        elif kind == "single":
            meshes = [block(dim, ets[0], 0, 0, nx)]
        elif kind == "blocks":
            meshes = [block(dim, ets[0], 0, 0, nx), block(dim, ets[-1], 1, 0, nx)]
        elif kind == "corner":
            # four blocks around a point (an edge in 3-D): >= 3 coincident copies of the same node
            meshes = [block(dim, ets[i % len(ets)], x, y, nx) for i, (x, y) in enumerate(((0, 0), (1, 0), (1, 1), (0, 1)))]
        elif kind in ("disjoint", "no-merge-points"):
            meshes = [block(dim, ets[0], 0, 0, nx), block(dim, ets[-1], 3.0 if kind == "disjoint" else 1.0, 0, nx)]
        with quiet():
            res = Mesh.Merge(meshes, mergePoints=(kind != "no-merge-points"), return_mapping=True)
    merged, mapping = res
    ctx.require("merge-mapping", len(mapping) == len(meshes), key0 + "/mapping-count")
    # coordinates through the mapping
    worst = 0.0
    for m, mp in zip(meshes, mapping):
        mp = np.asarray(mp)
        ok = mp.shape[0] == m.coord.shape[0] and mp.min() >= 0 and mp.max() < merged.Nn
        ctx.require("merge-mapping", ok, key0 + "/mapping-range")
        if ok:
            worst = max(worst, float(np.abs(merged.coord[mp] - m.coord).max()))
    ctx.check("merge-mapping", worst, 1e-12, key0 + "/coordinates-through-mapping")
    # node count: distinct positions (harness: rounding to 1e-9) when points are merged, plain sum otherwise
    allc = np.vstack([m.coord for m in meshes])
    distinct = np.unique(np.round(allc, 9), axis=0).shape[0]
    want_nn = distinct if kind != "no-merge-points" else allc.shape[0]
    ctx.require("merge-node-count", merged.Nn == want_nn, key0 + "/node-count", got=int(merged.Nn), want=int(want_nn), meshes=len(meshes))
    coincident = allc.shape[0] - distinct
    # elements: the union of the mapped input elements, once each
    want = {}
    for m, mp in zip(meshes, mapping):
        for name, rows in elem_sets(m, np.asarray(mp)).items():
            want.setdefault(name, set()).update(rows)
    have = elem_sets(merged)
    ok = set(want) == set(have) and all(sorted(want[n]) == have[n] for n in want)
    ctx.require("merge-elements", ok, key0 + "/elements", got={n: len(v) for n, v in have.items()}, want={n: len(v) for n, v in want.items()})
    if kind == "parts":
        # the inverse of the split: every global node the parts use is identified once, and the whole mesh comes back
        g2m = np.full(glob.Nn, -1, int)
        consistent = True
        for m, mp in zip(meshes, mapping):
            mine = np.unique(np.concatenate([g.nodes for g in m.dict_groupElem.values()]))
            mm = np.asarray(mp)[mine]
            consistent &= bool(np.all((g2m[mine] == -1) | (g2m[mine] == mm)))
            g2m[mine] = mm
        usedg = gm.used_nodes(glob)
        ctx.require("merge-inverts-split", consistent and bool((g2m[usedg] >= 0).all()) and len(np.unique(g2m[usedg])) == len(usedg), key0 + "/split-then-merge/nodes-identified-once")
        gsets = elem_sets(glob, g2m)
        ctx.require("merge-inverts-split", gsets == have, key0 + "/split-then-merge", Ne={n: [len(have.get(n, [])), len(gsets.get(n, []))] for n in gsets})
        ctx.check("merge-inverts-split", float(np.abs(merged.coord[g2m[usedg]] - glob.coord[usedg]).max()), 1e-12, key0 + "/split-then-merge/coordinates")
    if kind == "single":
        ctx.require("merge-mapping", merged.Nn == meshes[0].Nn and np.array_equal(np.asarray(mapping[0]), np.arange(meshes[0].Nn)), key0 + "/identity")
    ctx.describe(f"merge/{kind}/{et}/{dim}D", coincident > 0 or kind in ("disjoint", "no-merge-points", "single"), kind=kind, et=et, meshes=len(meshes), coincident=int(coincident))


def run_case(case: dict, ctx: Ctx) -> None:
    rng = np.random.default_rng([case["seed"], NUM, case["index"]])
    {"partition": run_partition, "merge": run_merge, "reproducible": run_reproducible}[case["fam"]](case, ctx, rng)
