"""C17 — phase-field splits partition stress and energy; the damage history never decreases.

Two scenario families.

*states*: strain fields whose Gauss points mix, inside one element, the zero state, +/- hydrostatic, +/- uniaxial, two equal
largest / smallest principal values, pure shear, nearly repeated values and generic tensors (axis-aligned and rotated) are
given to ``Calc_C`` / ``Calc_Sigma_e_pg`` / ``Calc_psi_e_pg`` of every split; the oracle is ``numpy.linalg.eigh`` on the
tensor the split decomposes (strain, stress, or C^1/2-transformed strain) and plain linear algebra with the law's C:
finiteness, sigma+ + sigma- = C:eps, psi+ + psi- = eps:C:eps/2, the split's positive energy / stress written from the
positive parts (vectors, unique also where eigenprojectors are not) and P+ v against the eigh positive part of v.

*histories*: load / unload / reload programs (and load-free runs) on small meshes for every irreversibility solver and
regularisation; after each ``Solve`` + ``Save_Iter`` the stored history field (per Gauss point) and, for the damage-based
solvers, the nodal damage are compared with the previous saved step.
"""

from __future__ import annotations

import numpy as np
import scipy.linalg

from EasyFEA import Models, Simulations

from . import _suite
from ..core import Ctx, quiet, relerr
from ..gen import materials as gmat
from ..gen import meshes as gm
from . import _sims

PROP = "C17"
NUM = 17
RULE = (
    "state cases = (split, material class, dimension / plane assumption) x strain arrays mixing degenerate and generic classes "
    "inside elements; history cases = (solver, regularisation, split, element type) x seeded load programs with unloading "
    "and zero-load runs. Signature = (family, split, material, dim, solver, regularisation). Non-trivial iff the strain array "
    "holds >= 3 different spectral classes (states) or the program holds a load decrease after damage > 0.05 (histories)."
)
ASSUMPTIONS = [
    "energies compared relative to |eps|^2 |C|, stresses relative to |eps| |C| (absolute floor for the zero state)",
    "nearly repeated principal values (relative gap 1e-14 .. 1e-6) are held to 1e-6 instead of 1e-9: the closed-form eigenprojectors lose (eps_mach / gap)^2",
    "history monotonicity is judged between saved steps, tolerance 1e-12 of the largest value",
    "heterogeneous materials: isotropic constants or a full Hooke matrix per element / per integration point, each point judged against a homogeneous material holding its constants; Gc and l0 homogeneous",
    "the fourth-order projector is compared with difference quotients of the eigh-based positive part wherever no principal value is within 5 % of zero (repeated and nearly repeated values included, tolerance 1e-5 there)",
]
TIMEOUT_CASE = 600
MIN_EVALS = {"finite": 50, "partition-stress": 50, "partition-energy": 50, "projector-vs-eigh": 20, "history-monotone": 10}
REQUIRED_COVERAGE = ["Calc_C", "eigen", "spectral"]

SPLITS_ISO = ["Bourdin", "Amor", "Miehe", "Stress", "He", "Zhang", "AnisotStrain", "AnisotStrain_PM", "AnisotStrain_MP", "AnisotStrain_NoCross",
              "AnisotStress", "AnisotStress_PM", "AnisotStress_MP", "AnisotStress_NoCross"]
SPLITS_ANISO = [s for s in SPLITS_ISO if s not in ("Amor", "Miehe", "Stress")]
CLASSES = ["zero", "hydro+", "hydro-", "uni+", "uni-", "two-max", "two-min", "shear", "near", "generic", "generic-small"]


def anchors():
    from EasyFEA.Models._phasefield import PhaseField as M
    from EasyFEA.Simulations._phasefield import PhaseField as S

    return [
        ("Calc_C", M, "Calc_C"), ("eigen", M, "_Eigen_values_vectors_projectors"), ("spectral", M, "_PhaseField__Spectral_Decomposition"),
        ("Split_Strain", M, "_PhaseField__Split_Strain"), ("Split_Stress", M, "_PhaseField__Split_Stress"), ("Split_He", M, "_PhaseField__Split_He"),
        ("Split_Amor", M, "_PhaseField__Split_Amor"), ("Solve", S, "Solve"), ("psiPlus", S, "_PhaseField__Calc_psiPlus_e_pg"), ("Save_Iter", S, "Save_Iter"),
    ]


def cases(tier: str, seed: int) -> list[dict]:
    out = []
    rep = 1 if tier == "quick" else 12
    for r in range(rep):
        for dim, ps in ((2, True), (2, False), (3, False)):
            for split in SPLITS_ISO:
                out.append({"fam": "states", "split": split, "mat": "iso", "dim": dim, "ps": ps})
                if (SPLITS_ISO.index(split) + dim + r) % 2 == 0 or tier != "quick":
                    out.append({"fam": "states", "split": split, "mat": "iso", "dim": dim, "ps": ps, "modify": True})
            for mat in ("trans", "ortho", "aniso"):
                for split in SPLITS_ANISO:
                    if r % 3 == ("trans", "ortho", "aniso").index(mat) or tier != "quick":
                        out.append({"fam": "states", "split": split, "mat": mat, "dim": dim, "ps": ps})
                        out.append({"fam": "states", "split": split, "mat": mat, "dim": dim, "ps": ps, "modify": True})
    # heterogeneous materials: elastic constants given per element or per integration point (homogeneous Gc, l0)
    for r in range(rep):
        for dim, ps in ((2, True), (2, False), (3, False)):
            for si, split in enumerate(SPLITS_ISO):
                for hi, het in enumerate(("e", "ep")):
                    if tier != "quick" or (si + hi + dim + int(ps)) % 2 == 0:
                        out.append({"fam": "states", "split": split, "mat": "iso", "dim": dim, "ps": ps, "het": het})
            for si, split in enumerate(SPLITS_ANISO):
                for hi, het in enumerate(("e", "ep")):
                    if tier != "quick" or (si + hi + dim + int(ps)) % 3 == 0:
                        out.append({"fam": "states", "split": split, "mat": "aniso", "dim": dim, "ps": ps, "het": het})
    hist = []
    for solver in ("History", "HistoryDamage", "BoundConstrain"):
        for regu in ("AT2", "AT1"):
            for split, dim, et in (("Miehe", 2, "TRI3"), ("Amor", 2, "QUAD4"), ("Bourdin", 2, "TRI3"), ("He", 2, "TRI3"), ("Zhang", 2, "TRI6"), ("Miehe", 3, "TETRA4"),
                                   ("AnisotStrain", 2, "TRI3"), ("Stress", 2, "QUAD4")):
                hist.append({"fam": "history", "solver": solver, "regu": regu, "split": split, "dim": dim, "et": et, "program": "cycle"})
            hist.append({"fam": "history", "solver": solver, "regu": regu, "split": "Miehe", "dim": 2, "et": "TRI3+QUAD4", "program": "cycle"})
            hist.append({"fam": "history", "solver": solver, "regu": regu, "split": "Amor", "dim": 2, "et": "QUAD4+TRI3", "program": "cycle"})
            hist.append({"fam": "history", "solver": solver, "regu": regu, "split": "Miehe", "dim": 2, "et": "TRI3", "program": "zero"})
            hist.append({"fam": "history", "solver": solver, "regu": regu, "split": "Amor", "dim": 3, "et": "TETRA4", "program": "zero"})
            # Young's modulus given per element
            for split, dim, et in (("Bourdin", 2, "TRI3"), ("He", 2, "QUAD4"), ("Zhang", 2, "TRI3"), ("AnisotStress", 2, "TRI3"), ("Miehe", 3, "TETRA4")):
                if regu == "AT2":  # (AT1 from the virgin state is the singular damage system already listed as a finding)
                    hist.append({"fam": "history", "solver": solver, "regu": regu, "split": split, "dim": dim, "et": et, "program": "cycle", "het": True})
    nh = 1 if tier == "quick" else 6
    for r in range(nh):
        # the stopping rule of the staggered iteration (convOption 0 .. 3) is part of the workload: irreversibility must not depend on it
        out += [dict(h, conv=(i + r + 2) % 4) for i, h in enumerate(hist)]
    for i, c in enumerate(out):
        tag = f"{c['split']}-{c['mat']}-{c['dim']}D{'ps' if c['ps'] else ''}{'-het-' + c['het'] if c.get('het') else ''}" if c["fam"] == "states" else f"{c['solver']}-{c['regu']}-{c['split']}-{c['et']}-{c['program']}{'-het' if c.get('het') else ''}"
        c["id"] = f"C17-{i:05d}-{c['fam']}-{tag}"
        c["index"] = i
    for c in _suite.suite_cases(PROP, tier):
        c["index"] = len(out)
        out.append(c)
    return out


# ------------------------------------------------------------------------------------------
# tensor <-> Kelvin-Mandel vector
R2 = np.sqrt(2)


def to_tensor(v, dim):
    v = np.asarray(v, dtype=float)
    T = np.zeros(v.shape[:-1] + (dim, dim))
    if dim == 2:
        T[..., 0, 0], T[..., 1, 1] = v[..., 0], v[..., 1]
        T[..., 0, 1] = T[..., 1, 0] = v[..., 2] / R2
    else:
        T[..., 0, 0], T[..., 1, 1], T[..., 2, 2] = v[..., 0], v[..., 1], v[..., 2]
        T[..., 1, 2] = T[..., 2, 1] = v[..., 3] / R2
        T[..., 0, 2] = T[..., 2, 0] = v[..., 4] / R2
        T[..., 0, 1] = T[..., 1, 0] = v[..., 5] / R2
    return T


def to_vec(T):
    dim = T.shape[-1]
    if dim == 2:
        return np.stack([T[..., 0, 0], T[..., 1, 1], R2 * T[..., 0, 1]], axis=-1)
    return np.stack([T[..., 0, 0], T[..., 1, 1], T[..., 2, 2], R2 * T[..., 1, 2], R2 * T[..., 0, 2], R2 * T[..., 0, 1]], axis=-1)


def pos_neg(v, dim):
    """Positive / negative parts of the symmetric tensor behind the Mandel vector v (eigh, per point)."""
    T = to_tensor(v, dim)
    w, Q = np.linalg.eigh(T)
    P = np.einsum("...ik,...k,...jk->...ij", Q, np.maximum(w, 0), Q)
    N = np.einsum("...ik,...k,...jk->...ij", Q, np.minimum(w, 0), Q)
    return to_vec(P), to_vec(N)


def trace(v, dim):
    return v[..., :dim].sum(axis=-1)


def strain_states(rng, dim, Ne, nPg):
    """(Ne, nPg, D) Mandel strain vectors; classes (Ne, nPg) of CLASSES indices, mixed inside the elements."""
    cls = rng.integers(len(CLASSES), size=(Ne, nPg))
    # a few homogeneous elements and a few guaranteed mixtures of degenerate with generic points
    for e in range(min(Ne, len(CLASSES))):
        if e % 2 == 0:
            cls[e, :] = e % len(CLASSES)
        else:
            cls[e, 0], cls[e, 1:] = e % len(CLASSES), CLASSES.index("generic")
    T = np.zeros((Ne, nPg, dim, dim))
    I = np.eye(dim)
    for e in range(Ne):
        for p in range(nPg):
            c = CLASSES[cls[e, p]]
            a = float(rng.uniform(0.5, 2)) * 1e-2
            if c == "zero":
                D = np.zeros(dim)
            elif c == "hydro+":
                D = a * np.ones(dim)
            elif c == "hydro-":
                D = -a * np.ones(dim)
            elif c in ("uni+", "uni-"):
                D = np.zeros(dim)
                D[rng.integers(dim)] = a if c == "uni+" else -a
            elif c == "two-max":
                D = np.full(dim, a * float(rng.choice([1, -1])) if dim == 3 else a)
                D[rng.integers(dim)] = D[0] - a * float(rng.uniform(0.5, 2))
                if dim == 2:
                    D = np.array([a, a]) * float(rng.choice([1, -1]))  # in 2-D: the repeated value itself
            elif c == "two-min":
                D = np.full(dim, a * float(rng.choice([1, -1])) if dim == 3 else -a)
                D[rng.integers(dim)] = D[0] + a * float(rng.uniform(0.5, 2))
                if dim == 2:
                    D = np.array([a, -a])
            elif c == "shear":
                D = np.zeros(dim)
                i, j = rng.choice(dim, 2, replace=False)
                D[i], D[j] = a, -a
            elif c == "near":
                gap = 10 ** float(rng.uniform(-14, -6))
                D = a * float(rng.choice([1, -1])) * np.ones(dim)
                D[rng.integers(dim)] *= 1 + gap
                if dim == 3 and rng.random() < 0.5:
                    D[rng.integers(dim)] = -a * float(rng.uniform(0.3, 2))
            elif c == "generic-small":
                D = rng.normal(size=dim) * 1e-9
            else:
                D = rng.normal(size=dim) * a
            if rng.random() < 0.35:
                Q = np.eye(dim)  # axis-aligned: exact zeros off the diagonal
            else:
                Q, _ = np.linalg.qr(rng.normal(size=(dim, dim)))
            T[e, p] = (Q * D) @ Q.T if c not in ("hydro+", "hydro-", "zero") or rng.random() < 0.5 else np.diag(D)
            if c in ("hydro+", "hydro-", "zero"):
                T[e, p] = np.diag(D)  # exactly isotropic: no round-off from the rotation
    return to_vec(T), cls


def reference(split, law, eps, dim):
    """Independent positive / negative energies (and positive stress where it is unique) of the split."""
    C = np.asarray(law.C, dtype=float)
    S = np.linalg.inv(C)
    sig = eps @ C.T
    psi = 0.5 * np.einsum("...i,...i->...", eps, sig)
    out = {"sig": sig, "psi": psi, "sigP": None, "decomposed": None}
    H = lambda x: np.maximum(x, 0.0)  # noqa: E731
    if split == "Bourdin":
        out.update(psiP=psi, psiM=np.zeros_like(psi), sigP=sig)
        return out
    if split in ("Amor", "Miehe", "Stress"):
        mu, lam, K = float(law.get_mu()), float(law.get_lambda()), float(law.get_bulk())
        Iv = np.zeros(eps.shape[-1])
        Iv[:dim] = 1
    if split == "Amor":
        tr = trace(eps, dim)
        dev = eps - tr[..., None] / dim * Iv
        out["psiP"] = 0.5 * K * H(tr) ** 2 + mu * np.einsum("...i,...i->...", dev, dev)
        out["psiM"] = 0.5 * K * np.minimum(tr, 0) ** 2
        out["sigP"] = K * H(tr)[..., None] * Iv + 2 * mu * dev
        return out
    if split == "Miehe":
        eP, eM = pos_neg(eps, dim)
        tr = trace(eps, dim)
        out["psiP"] = 0.5 * lam * H(tr) ** 2 + mu * np.einsum("...i,...i->...", eP, eP)
        out["psiM"] = 0.5 * lam * np.minimum(tr, 0) ** 2 + mu * np.einsum("...i,...i->...", eM, eM)
        out["sigP"] = lam * H(tr)[..., None] * Iv + 2 * mu * eP
        out["decomposed"] = (eps, eP)
        return out
    if split == "Stress":
        sP, sM = pos_neg(sig, dim)
        E, v = float(law.E), float(law.v)
        trs = trace(sig, dim)
        if dim == 2 and not law.planeStress:
            a, b = (1 + v) / E, v * (1 + v) / E
        else:
            a, b = (1 + v) / E, v / E
        out["psiP"] = 0.5 * (a * np.einsum("...i,...i->...", sP, sP) - b * H(trs) ** 2)
        out["psiM"] = 0.5 * (a * np.einsum("...i,...i->...", sM, sM) - b * np.minimum(trs, 0) ** 2)
        out["sigP"] = (a * sP - b * H(trs)[..., None] * Iv) @ C.T
        out["decomposed"] = (sig, sP)
        return out
    if split == "Zhang":
        sP, sM = pos_neg(sig, dim)
        out["psiP"] = 0.5 * np.einsum("...i,...i->...", eps, sP)
        out["psiM"] = 0.5 * np.einsum("...i,...i->...", eps, sM)
        out["sigP"] = sP
        out["decomposed"] = (sig, sP)
        return out
    if split == "He":
        sq = np.real(scipy.linalg.sqrtm(C))
        et = eps @ sq.T
        tP, tM = pos_neg(et, dim)
        out["psiP"] = 0.5 * np.einsum("...i,...i->...", tP, tP)
        out["psiM"] = 0.5 * np.einsum("...i,...i->...", tM, tM)
        out["sigP"] = tP @ sq.T
        out["decomposed"] = (et, tP)
        return out
    if split.startswith("AnisotStrain"):
        eP, eM = pos_neg(eps, dim)
        pp, mm = 0.5 * np.einsum("...i,ij,...j->...", eP, C, eP), 0.5 * np.einsum("...i,ij,...j->...", eM, C, eM)
        pm = 0.5 * np.einsum("...i,ij,...j->...", eP, C, eM)
        out["decomposed"] = (eps, eP)
    elif split.startswith("AnisotStress"):
        sP, sM = pos_neg(sig, dim)
        pp, mm = 0.5 * np.einsum("...i,ij,...j->...", sP, S, sP), 0.5 * np.einsum("...i,ij,...j->...", sM, S, sM)
        pm = 0.5 * np.einsum("...i,ij,...j->...", sP, S, sM)
        out["decomposed"] = (sig, sP)
    else:
        raise ValueError(split)
    kind = split.split("_")[1] if "_" in split else "full"
    if kind == "full":
        out["psiP"], out["psiM"] = pp + 2 * pm, mm
    elif kind in ("PM", "MP"):
        out["psiP"], out["psiM"] = pp + pm, mm + pm
    else:
        out["psiP"], out["psiM"] = pp, mm + 2 * pm
    return out


def run_states(case, ctx, rng):
    split, matk, dim, ps = case["split"], case["mat"], case["dim"], case["ps"]
    key0 = f"C17/states/{split}/{matk}/{dim}D{'-planeStress' if (ps and dim == 2) else ''}"
    ctx.default_key = key0
    with ctx.monitored("no-exception", key0 + "/build/raised"):
        with quiet():
            if matk == "iso":
                law = Models.Elastic.Isotropic(dim, E=float(rng.uniform(50, 300)), v=float(rng.uniform(0.1, 0.4)), planeStress=ps)
            else:
                law, _ = gmat.make_law(rng, dim, matk, planeStress=ps)
            model = Models.PhaseField(law, split, "AT2", Gc=1.0, l0=0.1)
    Ne, nPg = int(rng.integers(12, 20)), int(rng.choice([1, 3, 4, 6]))
    if case.get("het"):
        return run_states_het(case, ctx, rng, Ne, nPg, key0)
    nclasses = _evaluate_states(ctx, rng, model, law, split, dim, Ne, nPg, key0)
    if case.get("modify"):
        # the elastic constants are changed after the split has been used once; the model is evaluated BEFORE the harness reads
        # anything from the law (a read of law.C from outside would refresh what the model may have kept)
        with ctx.monitored("no-exception", key0 + "/modify/raised"):
            with quiet():
                if matk == "iso":
                    law.v = float(np.clip(law.v * rng.uniform(0.5, 0.9), 0.05, 0.45))
                    if rng.random() < 0.5:
                        law.E = law.E * float(rng.uniform(0.5, 2))
                elif matk == "trans":
                    law.Et = law.Et * float(rng.uniform(0.6, 0.9))
                elif matk == "ortho":
                    law.E2 = law.E2 * float(rng.uniform(0.6, 0.9))
                else:
                    n = 3 if dim == 2 else 6
                    law.Set_C(gmat.random_spd(rng, n), False)
        _evaluate_states(ctx, rng, model, law, split, dim, Ne, nPg, key0 + "/after-parameter-change")
        ctx.event("states-after-parameter-change")
    ctx.describe(f"states/{split}/{matk}/{dim}D/{'ps' if ps else 'pe'}/{'modified' if case.get('modify') else 'once'}", nclasses >= 3, split=split, mat=matk, dim=dim,
                 Ne=Ne, nPg=nPg, classes=nclasses)


class _LocalLaw:
    """What `reference` reads from a law, for the constants held at one element / integration point."""

    def __init__(self, C, E=None, v=None, planeStress=False):
        self.C, self.E, self.v, self.planeStress = np.asarray(C, float), E, v, planeStress

    def get_mu(self):
        return self.E / (2 * (1 + self.v))

    def get_lambda(self):
        lam = self.E * self.v / ((1 + self.v) * (1 - 2 * self.v))
        return self.E * self.v / (1 - self.v**2) if self.planeStress else lam

    def get_bulk(self, dim=None):
        raise NotImplementedError


def _iso_C(dim, E, v, ps):
    """Hooke matrix of an isotropic material in Kelvin-Mandel notation, written out by the harness."""
    mu = E / (2 * (1 + v))
    lam = E * v / ((1 + v) * (1 - 2 * v))
    if dim == 2 and ps:
        lam = E * v / (1 - v**2)
    n = 3 if dim == 2 else 6
    C = np.zeros((n, n))
    C[:dim, :dim] = lam
    C[np.arange(n), np.arange(n)] += 2 * mu
    return C


def run_states_het(case, ctx, rng, Ne, nPg, key0):
    """Elastic constants that differ from element to element (or from integration point to integration point): every point is
    judged against the split of a homogeneous material holding that point's constants."""
    split, matk, dim, ps, het = case["split"], case["mat"], case["dim"], case["ps"], case["het"]
    key0 = f"{key0}/heterogeneous-{'per-element' if het == 'e' else 'per-point'}"
    ctx.default_key = key0
    shape = (Ne,) if het == "e" else (Ne, nPg)
    n = 3 if dim == 2 else 6
    with ctx.monitored("no-exception", key0 + "/build/raised"):
        with quiet():
            if matk == "iso":
                E, v = rng.uniform(50, 300, size=shape), rng.uniform(0.1, 0.4, size=shape)
                law = Models.Elastic.Isotropic(dim, E=E.copy(), v=v.copy(), planeStress=ps)
                Eb, vb = np.broadcast_to(E.reshape(shape + (1,) * (2 - len(shape))), (Ne, nPg)), np.broadcast_to(v.reshape(shape + (1,) * (2 - len(shape))), (Ne, nPg))
                Cloc = np.array([[_iso_C(dim, float(Eb[e, p]), float(vb[e, p]), ps) for p in range(nPg)] for e in range(Ne)])
            else:
                Cs = np.array([gmat.random_spd(rng, n) for _ in range(int(np.prod(shape)))]).reshape(shape + (n, n))
                a1, a2 = gmat.random_axes(rng, dim, generic=False)
                law = Models.Elastic.Anisotropic(dim, Cs.copy(), False, axis1=a1, axis2=a2)
                Cloc = np.broadcast_to(Cs.reshape(shape + (1,) * (2 - len(shape)) + (n, n)), (Ne, nPg, n, n)).copy()
                Eb = vb = None
            model = Models.PhaseField(law, split, "AT2", Gc=1.0, l0=0.1)

    def local(e, p):
        if Eb is None:
            return _LocalLaw(Cloc[e, p])
        ll = _LocalLaw(Cloc[e, p], float(Eb[e, p]), float(vb[e, p]), ps and dim == 2)
        # bulk modulus as the homogeneous law defines it: lambda + 2 mu / dim with the (plane-stress corrected) lambda
        ll.get_bulk = lambda: ll.get_lambda() + 2 * ll.get_mu() / dim  # noqa: E731
        return ll

    # the harness' Hooke matrices must be the library's (C11 judges the law itself): a mismatch here would make every oracle below meaningless
    Clib = np.asarray(law.C, float)
    Clib = np.broadcast_to(Clib.reshape(shape + (1,) * (2 - len(shape)) + (n, n)), (Ne, nPg, n, n))
    ctx.check("law-as-given", float(np.abs(Clib - Cloc).max() / np.abs(Cloc).max()), 1e-10, key0 + "/law.C")
    nclasses = _evaluate_states(ctx, rng, model, law, split, dim, Ne, nPg, key0, local=local, Cloc=Cloc)
    ctx.event("states-heterogeneous")
    ctx.describe(f"states/{split}/{matk}/{dim}D/{'ps' if ps else 'pe'}/het-{het}", nclasses >= 3, split=split, mat=matk, dim=dim, Ne=Ne, nPg=nPg, classes=nclasses, het=het)


def _reference_local(split, local, eps, dim):
    Ne, nPg = eps.shape[:2]
    out = None
    for e in range(Ne):
        for p in range(nPg):
            r = reference(split, local(e, p), eps[e:e + 1, p:p + 1], dim)
            if out is None:
                out = {k: (None if v is None else (tuple(np.zeros((Ne, nPg) + x.shape[2:]) for x in v) if isinstance(v, tuple) else np.zeros((Ne, nPg) + v.shape[2:])))
                       for k, v in r.items()}
            for k, v in r.items():
                if v is None:
                    continue
                if isinstance(v, tuple):
                    for o, x in zip(out[k], v):
                        o[e, p] = x[0, 0]
                else:
                    out[k][e, p] = v[0, 0]
    return out


def _evaluate_states(ctx, rng, model, law, split, dim, Ne, nPg, key0, local=None, Cloc=None):
    eps, cls = strain_states(rng, dim, Ne, nPg)
    eps_in = eps.copy()
    from EasyFEA.FEM import FeArray
    with ctx.monitored("no-exception", key0 + "/raised"):
        with quiet(), np.errstate(all="ignore"):
            pP, pM = model.Calc_psi_e_pg(FeArray.asfearray(eps.copy()))
            sP, sM = model.Calc_Sigma_e_pg(FeArray.asfearray(eps.copy()))
            cP, cM = model.Calc_C(FeArray.asfearray(eps.copy()))
    ref = reference(split, law, eps, dim) if local is None else _reference_local(split, local, eps, dim)
    Cfull = np.asarray(law.C, dtype=float) if Cloc is None else Cloc
    Cn = float(np.abs(Cfull).max())
    e2 = np.einsum("...i,...i->...", eps, eps)
    floor = 1e-300
    cP, cM, sP, sM, pP, pM = (np.asarray(x, dtype=float) for x in (cP, cM, sP, sM, pP, pM))
    cP, cM = np.broadcast_to(cP, (Ne, nPg) + cP.shape[-2:]), np.broadcast_to(cM, (Ne, nPg) + cM.shape[-2:])
    proj = None
    if ref["decomposed"] is not None:
        try:
            with quiet(), np.errstate(all="ignore"):
                pj, _ = model._PhaseField__Spectral_Decomposition(FeArray.asfearray(ref["decomposed"][0].copy()), False)
            proj = np.einsum("...ij,...j->...i", np.asarray(pj, float), ref["decomposed"][0])
            # the fourth-order projector itself is the derivative of the positive part (its cross terms do not act on the tensor
            # that was decomposed, so 'P+ v = v+' does not see them): central differences of the eigh-based positive part, at the
            # points whose principal values are well separated (the derivative exists and the quotient is clean there)
            v0 = ref["decomposed"][0]
            lam_ = np.linalg.eigvalsh(to_tensor(v0, dim))
            gap = np.diff(lam_, axis=-1).min(-1)
            amp = np.abs(lam_).max(-1)
            # the positive part is a smooth function of the tensor wherever no principal value is zero - repeated values included
            # (the difference quotient (l1+ - l2+) / (l1 - l2) of the closed form has the limit H(l) there); the quotient of two
            # eigh-based positive parts is clean at such points whatever the gaps are
            smooth = (amp > 0) & (np.abs(lam_).min(-1) > 0.05 * amp)
            well = smooth & (gap > 0.15 * amp)
            rep = smooth & ~well
            if well.any() or rep.any():
                Pj = np.asarray(pj, float)
                nd_ = v0.shape[-1]
                Pfd = np.zeros(Pj.shape)
                for j_ in range(nd_):
                    hh = 1e-6 * amp[..., None] * np.eye(nd_)[j_]
                    Pfd[..., :, j_] = (pos_neg(v0 + hh, dim)[0] - pos_neg(v0 - hh, dim)[0]) / (2e-6 * amp[..., None])
                if well.any():
                    ctx.check("projector-derivative", float(np.abs(Pj[well] - Pfd[well]).max()), 1e-6, key0 + "/P+=d(v+)/dv", n=int(well.sum()),
                              mixed_sign=bool(((lam_[well].min(-1) < 0) & (lam_[well].max(-1) > 0)).any()))
                if rep.any():
                    ctx.check("projector-derivative", float(np.abs(Pj[rep] - Pfd[rep]).max()), 1e-5, key0 + "/P+=d(v+)/dv@repeated-or-close-values", n=int(rep.sum()),
                              exactly_repeated=int((gap[rep] == 0).sum()), mixed_sign=bool(((lam_[rep].min(-1) < 0) & (lam_[rep].max(-1) > 0)).any()))
        except Exception as e:  # noqa: BLE001
            ctx.require("projector-vs-eigh", False, key0 + "/projector/raised", raised=type(e).__name__, message=str(e)[:200])
    nclasses = 0
    for ci, cname in enumerate(CLASSES):
        m = cls == ci
        if not m.any():
            continue
        nclasses += 1
        # a point is judged in the company it keeps: the class of the point and whether its element mixes classes
        mixed = np.array([len(set(cls[e])) > 1 for e in range(Ne)])
        for tag, mm in (("", m & ~mixed[:, None]), ("@mixed-element", m & mixed[:, None])):
            if not mm.any():
                continue
            k = f"{key0}/{cname}{tag}"
            tol = 1e-6 if cname == "near" else 1e-9
            sscale = np.sqrt(e2[mm]).max() * Cn + floor
            pscale = e2[mm].max() * Cn + floor
            if cname == "zero":
                sscale, pscale = 1e-30, 1e-30  # absolute: the zero state has zero stress and zero energy
            fin = all(np.all(np.isfinite(x[mm])) for x in (cP, cM, sP, sM, pP, pM))
            ctx.require("finite", fin, k + "/finite", n=int(mm.sum()))
            if not fin:
                continue
            ctx.check("partition-stress", float(np.abs(sP[mm] + sM[mm] - ref["sig"][mm]).max()) / sscale, tol, k + "/sigma-sum")
            ctx.check("partition-stiffness", float(np.abs(cP[mm] + cM[mm] - (Cfull if Cfull.ndim == 2 else Cfull[mm])).max()) / Cn, tol, k + "/C-sum")
            ctx.check("partition-energy", float(np.abs(pP[mm] + pM[mm] - ref["psi"][mm]).max()) / pscale, tol, k + "/psi-sum")
            ctx.check("split-energy", float(np.abs(pP[mm] - ref["psiP"][mm]).max()) / pscale, tol, k + "/psi+")
            ctx.check("split-energy", float(np.abs(pM[mm] - ref["psiM"][mm]).max()) / pscale, tol, k + "/psi-")
            if ref["sigP"] is not None:
                ctx.check("split-stress", float(np.abs(sP[mm] - ref["sigP"][mm]).max()) / sscale, tol, k + "/sigma+")
            if ref["decomposed"] is not None and cname != "zero":
                # a decomposed tensor without negative (positive) part carries no negative (positive) stress - whatever the split does with
                # its cross terms, and also where principal values are repeated
                lam_d = np.linalg.eigvalsh(to_tensor(ref["decomposed"][0][mm], dim))
                amp_d = np.abs(lam_d).max(-1)
                allpos, allneg = lam_d.min(-1) > 0.05 * amp_d, lam_d.max(-1) < -0.05 * amp_d
                if allpos.any():
                    ctx.check("one-signed-state", float(np.abs(sM[mm][allpos]).max()) / sscale, tol, k + "/sigma-@all-principal-values-positive", n=int(allpos.sum()))
                    ctx.check("one-signed-state", float(np.abs(cM[mm][allpos]).max()) / Cn, tol, k + "/C-@all-principal-values-positive", n=int(allpos.sum()))
                if allneg.any():
                    ctx.check("one-signed-state", float(np.abs(sP[mm][allneg]).max()) / sscale, tol, k + "/sigma+@all-principal-values-negative", n=int(allneg.sum()))
                    ctx.check("one-signed-state", float(np.abs(cP[mm][allneg]).max()) / Cn, tol, k + "/C+@all-principal-values-negative", n=int(allneg.sum()))
            if proj is not None:
                dscale = np.abs(ref["decomposed"][0][mm]).max() + floor
                if cname == "zero":
                    dscale = 1e-30
                okp = np.all(np.isfinite(proj[mm]))
                ctx.check("projector-vs-eigh", float(np.abs(proj[mm] - ref["decomposed"][1][mm]).max()) / dscale if okp else np.inf, tol, k + "/P+v")
    ctx.require("input-untouched", np.array_equal(eps, eps_in), key0 + "/input-modified")
    return nclasses


# ------------------------------------------------------------------------------------------
def run_history(case, ctx, rng):
    solver, regu, split, dim, et, program = case["solver"], case["regu"], case["split"], case["dim"], case["et"], case["program"]
    key0 = f"C17/history/{solver}/{regu}" + ("/heterogeneous" if case.get("het") else "")
    ctx.default_key = key0
    with ctx.monitored("no-exception", key0 + "/build/raised"):
        with quiet():
            if "+" in et:
                # two conforming blocks of different element types in one mesh: two element groups share the history
                from .c01 import build_mesh
                mesh, _, _, _ = build_mesh({"dim": dim, "et": et, "mesh": "mixed"}, rng)
                Lx = 2.0
            else:
                mesh, (Lx, Ly, h) = _sims.small_mesh(rng, dim, et, size=1.3)
            # (one value per element of THE group of elements: a recombined mesh that kept some triangles has two groups, for which a
            # per-element array is not expressible)
            E = rng.uniform(150.0, 270.0, size=mesh.Ne) if (case.get("het") and len(mesh.Get_list_groupElem(dim)) == 1) else 210.0
            mat = Models.Elastic.Isotropic(dim, E=E, v=0.3, planeStress=False, thickness=1.0)
            pfm = Models.PhaseField(mat, split, regu, Gc=6e-3, l0=0.3, solver=solver)
            simu = Simulations.PhaseField(mesh, pfm)
    n0, nL = _sims.nodes_x(mesh, 0.0), _sims.nodes_x(mesh, Lx)
    names = ["x", "y", "z"][:dim]
    if program == "zero":
        loads = [0.0] * int(rng.integers(2, 5))
    else:
        n = int(rng.integers(5, 9))
        loads = list(np.abs(rng.normal(size=n)) * 0.012 * Lx)
        loads[int(rng.integers(1, n - 1))] = 0.0  # a complete unloading in the middle
        loads[0] = 0.012 * Lx * float(rng.uniform(0.8, 1.5))  # damage from the first step on
        if rng.random() < 0.5:
            loads = [-x if i % 3 == 2 else x for i, x in enumerate(loads)]  # and compression
    prevH, prevd, prevHe = None, None, None
    dmax_seen, unloaded_after_damage = 0.0, False
    worstH, worstd = 0.0, 0.0
    try:
        with ctx.monitored("no-exception", key0 + "/raised"):
            with quiet(), np.errstate(all="ignore"):
                for k, lam in enumerate(loads):
                    simu.Bc_Init()
                    simu.add_dirichlet(n0, [0.0] * dim, names)
                    simu.add_dirichlet(nL, [float(lam)], ["x"])
                    conv = int(case.get("conv", 2))
                    simu.Solve(tolConv=1e-3 if solver != "History" else 1e-2, maxIter=60 if conv != 3 else 25, convOption=conv)
                    simu.Save_Iter()
                    res = simu.Get_results(-1)
                    d = np.asarray(res["damage"], float)
                    virgin = k == 0 or not any(loads[:k])  # the damage problem is solved before any displacement exists
                    if not ctx.finite("finite", d, key0 + "/damage-finite" + ("@virgin-state" if virgin else ""), step=k, loads=[float(x) for x in loads[: k + 1]]):
                        break  # everything after a non-finite damage field is a consequence of it
                    if program == "zero":
                        ctx.check("zero-load", float(np.abs(d).max()), 1e-12, f"{key0}/zero-load/damage", step=k)
                    if solver == "History" and "psiP_history" in res:
                        Hk = res["psiP_history"]
                        Hk = np.concatenate([np.asarray(Hk[kk], float).ravel() for kk in sorted(Hk, key=str)]) if isinstance(Hk, dict) else np.asarray(Hk, float)
                        if prevH is not None and Hk.shape == prevH.shape and Hk.size:
                            drop = float((prevH - Hk).max())
                            worstH = max(worstH, drop / (np.abs(prevH).max() + 1e-300))
                            ctx.check("history-monotone", drop / (np.abs(prevH).max() + 1e-300), 1e-12, f"{key0}/history-field", step=k, loads=[float(x) for x in loads[: k + 1]])
                        elif prevH is not None and prevH.size and Hk.shape != prevH.shape:
                            ctx.require("history-monotone", False, f"{key0}/history-field/shape", prev=list(prevH.shape), now=list(Hk.shape))
                        prevH = Hk
                    if solver == "History":
                        # the driving energy of every element (all groups of a mixed mesh), as the result interface reports it
                        He = np.asarray(simu.Result("psiP", nodeValues=False), float)
                        if prevHe is not None and He.shape == prevHe.shape:
                            drop = float((prevHe - He).max())
                            ctx.check("history-monotone", drop / (np.abs(prevHe).max() + 1e-300), 1e-12, f"{key0}/driving-energy-per-element" + ("@mixed-groups" if len(mesh.Get_list_groupElem(dim)) > 1 else ""),
                                      step=k, loads=[float(x) for x in loads[: k + 1]])
                        prevHe = He
                    if solver in ("HistoryDamage", "BoundConstrain"):
                        if prevd is not None:
                            drop = float((prevd - d).max())
                            ctx.check("damage-monotone", drop, 1e-10, f"{key0}/nodal-damage", step=k, loads=[float(x) for x in loads[: k + 1]])
                        prevd = d
                    if prevd is None and solver == "History":
                        pass
                    if dmax_seen > 0.05 and k > 0 and abs(lam) < abs(loads[k - 1]):
                        unloaded_after_damage = True
                    dmax_seen = max(dmax_seen, float(d.max()))
    finally:
        ctx.describe(f"history/{solver}/{regu}/{split}/{et}/{program}{'/het' if case.get('het') else ''}/conv{case.get('conv', 2)}", unloaded_after_damage or program == "zero", solver=solver, regu=regu, split=split, et=et,
                     loads=[float(x) for x in loads], dmax=dmax_seen)


def run_case(case: dict, ctx: Ctx) -> None:
    if case.get("fam") == "suite":
        return _suite.run_suite(case, ctx, PROP)
    rng = np.random.default_rng([case["seed"], NUM, case["index"]])
    if case["fam"] == "states":
        run_states(case, ctx, rng)
    else:
        run_history(case, ctx, rng)
