"""Line observers on anchored code objects (sys.monitoring, Python 3.12).

Evidence only: shows which lines of the anchored mechanism the workload drove. Each line event
returns DISABLE, so a line costs one callback per process.
"""

from __future__ import annotations

import dis
import sys
import types
from typing import Callable, Iterable

TOOL = 3  # a free tool id (0-5); 0-2 are conventionally debugger/coverage/profiler


class LineObserver:
    def __init__(self) -> None:
        self.codes: dict[types.CodeType, str] = {}
        self.seen: dict[str, set[int]] = {}
        self.lines: dict[str, set[int]] = {}
        self.active = False

    @staticmethod
    def _unwrap(fn) -> types.CodeType | None:
        for _ in range(10):
            if isinstance(fn, (staticmethod, classmethod)):
                fn = fn.__func__
            elif isinstance(fn, property):
                fn = fn.fget
            elif hasattr(fn, "__wrapped__"):
                fn = fn.__wrapped__
            else:
                break
        return getattr(fn, "__code__", None)

    def watch(self, label: str, fn: Callable) -> bool:
        code = self._unwrap(fn)
        if code is None:
            return False
        self.codes[code] = label
        lines = {ln for _, ln in dis.findlinestarts(code) if ln is not None}
        lines.discard(code.co_firstlineno)
        self.lines.setdefault(label, set()).update(lines)
        self.seen.setdefault(label, set())
        return True

    def watch_named(self, specs: Iterable[tuple[str, object, str]]) -> list[str]:
        """specs: (label, owner object/class/module, attribute name — private names un-mangled).
        Returns the labels that could not be resolved."""
        missing = []
        for label, owner, name in specs:
            fn = None
            cands = [name]
            if name.startswith("__") and not name.endswith("__"):
                oname = getattr(owner, "__name__", "")
                cands.append("_" + oname.lstrip("_") + name)
                cands.append("_" + oname + name)
            for c in cands:
                if isinstance(owner, type):
                    fn = owner.__dict__.get(c)
                    if fn is None:
                        fn = getattr(owner, c, None)
                else:
                    fn = getattr(owner, c, None)
                if fn is not None:
                    break
            if fn is None or not self.watch(label, fn):
                missing.append(label)
        return missing

    def start(self) -> None:
        if self.active or not self.codes:
            return
        mon = sys.monitoring
        try:
            mon.use_tool_id(TOOL, "verifmon")
        except ValueError:
            return
        mon.register_callback(TOOL, mon.events.LINE, self._on_line)
        for code in self.codes:
            mon.set_local_events(TOOL, code, mon.events.LINE)
        self.active = True

    def _on_line(self, code, line):
        label = self.codes.get(code)
        if label is not None:
            self.seen[label].add(line)
        return sys.monitoring.DISABLE

    def stop(self) -> None:
        if not self.active:
            return
        mon = sys.monitoring
        for code in self.codes:
            try:
                mon.set_local_events(TOOL, code, 0)
            except Exception:  # noqa: BLE001
                pass
        mon.register_callback(TOOL, mon.events.LINE, None)
        mon.free_tool_id(TOOL)
        self.active = False

    def report(self) -> dict:
        return {
            label: {"seen": sorted(self.seen[label] & self.lines[label]), "total": len(self.lines[label]), "lines": sorted(self.lines[label])}
            for label in self.lines
        }


def merge_reports(reports: list[dict]) -> dict:
    out: dict[str, dict] = {}
    for r in reports:
        for label, v in r.items():
            o = out.setdefault(label, {"seen": set(), "total": v["total"], "lines": set()})
            o["seen"].update(v["seen"])
            o["lines"].update(v.get("lines", []))
            o["total"] = max(o["total"], v["total"])
    return {
        k: {"lines_seen": len(v["seen"]), "lines_total": v["total"], "seen": sorted(v["seen"]), "missed": sorted(v["lines"] - v["seen"])}
        for k, v in out.items()
    }
