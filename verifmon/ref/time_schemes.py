"""Executable model of the time-integration schemes, written from the AlgoType docstrings
(Hughes 1987 ch. 8-9; Doyen, Ern & Piperno 2011 for HHT-Newmark) — independent of _simu.py.

step(algo, p, un, vn, an, x) -> dict(u1, v1, a1, ut, vt, at) where ``x`` is the solve variable
(u_{n+1}; for euler_explicit the acceleration a^n).  p = dict(dt, alpha, beta, gamma).
weights(algo, p) -> (dut/dx, dvt/dx, dat/dx), obtained as exact derivatives of the affine maps above.
"""

from __future__ import annotations

import numpy as np

HYPERBOLIC = ["newmark", "midpoint", "hht", "hht_newmark", "euler_implicit", "euler_explicit"]
ALL = HYPERBOLIC + ["parabolic"]


def effective_params(algo: str, p: dict) -> dict:
    p = dict(p)
    if algo == "hht_newmark":
        a = p["alpha"]
        p["beta"] = 0.25 * (1 + a) ** 2
        p["gamma"] = 0.5 + a
    if algo == "midpoint":
        p["alpha"], p["beta"], p["gamma"] = 0.5, 0.25, 0.5
    return p


def _newmark_update(p, un, vn, an, u1):
    dt, beta, gamma = p["dt"], p["beta"], p["gamma"]
    upred = un + dt * vn + dt**2 / 2 * (1 - 2 * beta) * an
    a1 = (u1 - upred) / (beta * dt**2)
    v1 = vn + dt * ((1 - gamma) * an + gamma * a1)
    return v1, a1


def step(algo: str, p: dict, un, vn, an, x) -> dict:
    p = effective_params(algo, p)
    dt = p["dt"]
    if algo == "newmark":
        u1 = x
        v1, a1 = _newmark_update(p, un, vn, an, u1)
        return dict(u1=u1, v1=v1, a1=a1, ut=u1, vt=v1, at=a1)
    if algo == "hht":
        u1 = x
        v1, a1 = _newmark_update(p, un, vn, an, u1)
        al = p["alpha"]
        return dict(u1=u1, v1=v1, a1=a1, ut=(1 - al) * u1 + al * un, vt=(1 - al) * v1 + al * vn, at=(1 - al) * a1 + al * an)
    if algo == "hht_newmark":
        u1 = x
        v1, a1 = _newmark_update(p, un, vn, an, u1)
        al = p["alpha"]
        return dict(u1=u1, v1=v1, a1=a1, ut=(1 - al) * u1 + al * un, vt=v1, at=a1)
    if algo == "midpoint":
        u1 = x
        v1 = 2 / dt * (u1 - un) - vn
        a1 = 2 / dt * (v1 - vn) - an
        return dict(u1=u1, v1=v1, a1=a1, ut=(u1 + un) / 2, vt=(v1 + vn) / 2, at=(a1 + an) / 2)
    if algo == "euler_implicit":
        u1 = x
        v1 = (u1 - un) / dt
        a1 = (v1 - vn) / dt
        return dict(u1=u1, v1=v1, a1=a1, ut=u1, vt=v1, at=a1)
    if algo == "euler_explicit":
        a_n = x
        return dict(u1=un + dt * vn, v1=vn + dt * a_n, a1=a_n, ut=un, vt=vn, at=a_n)
    if algo == "parabolic":
        # generalized trapezoidal rule (Hughes ch. 8): u1 = un + dt * ((1-alpha) vn + alpha v1); equation at n+1
        al = p["alpha"]
        u1 = x
        v1 = (u1 - un - (1 - al) * dt * vn) / (al * dt)
        return dict(u1=u1, v1=v1, a1=None, ut=u1, vt=v1, at=None)
    raise ValueError(algo)


def weights(algo: str, p: dict) -> tuple[float, float, float]:
    """Exact derivative of the affine maps x -> (ut, vt, at) (scalar problem, unit increment)."""
    z = np.zeros(1)
    s0 = step(algo, p, z, z, z, np.zeros(1))
    s1 = step(algo, p, z, z, z, np.ones(1))

    def d(k):
        if s0[k] is None:
            return 0.0
        return float((s1[k] - s0[k])[0])

    return d("ut"), d("vt"), d("at")
