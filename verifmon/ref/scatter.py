"""Reference scatter-add: dense summation of element arrays with explicit Python loops over
groups / elements / local indices. Independent of scipy's COO->CSR, bincount, searchsorted and of
EasyFEA's Get_rows_e / Get_columns_e / Get_assembly_e."""

from __future__ import annotations

import numpy as np


def scatter_matrix(dict_group: dict, dof_n: int, Ndof: int) -> np.ndarray:
    """dict_group: {groupElem: element array (Ne, nPe*dof_n, nPe*dof_n) or None}. Local dof index of
    (local node a, component c) is a*dof_n + c; its global dof is connect[e, a]*dof_n + c."""
    is_c = any(v is not None and np.iscomplexobj(v) for v in dict_group.values())
    A = np.zeros((Ndof, Ndof), dtype=complex if is_c else float)
    for g, X in dict_group.items():
        if X is None:
            continue
        X = np.asarray(X)
        con = np.asarray(g.connect)
        Ne, nPe = con.shape if con.size else (0, g.nPe)
        nl = nPe * dof_n
        X = X.reshape(Ne, nl, nl)
        for e in range(Ne):
            gd = np.empty(nl, dtype=np.int64)
            for a in range(nPe):
                for c in range(dof_n):
                    gd[a * dof_n + c] = int(con[e, a]) * dof_n + c
            # explicit double loop kept vectorised only on the innermost axis
            for i in range(nl):
                np.add.at(A[gd[i]], gd, X[e, i])
    return A


def scatter_vector(dict_group: dict, dof_n: int, Ndof: int) -> np.ndarray:
    is_c = any(v is not None and np.iscomplexobj(v) for v in dict_group.values())
    b = np.zeros(Ndof, dtype=complex if is_c else float)
    for g, X in dict_group.items():
        if X is None:
            continue
        X = np.asarray(X)
        con = np.asarray(g.connect)
        Ne, nPe = con.shape if con.size else (0, g.nPe)
        nl = nPe * dof_n
        X = X.reshape(Ne, nl)
        for e in range(Ne):
            for a in range(nPe):
                for c in range(dof_n):
                    b[int(con[e, a]) * dof_n + c] += X[e, a * dof_n + c]
    return b
