"""Independent tensor algebra for linear elastic laws (harness side).

Kelvin-Mandel ordering used by EasyFEA: [11, 22, 33, sqrt2*23, sqrt2*13, sqrt2*12].
"""

from __future__ import annotations

import numpy as np

PAIRS = [(0, 0), (1, 1), (2, 2), (1, 2), (0, 2), (0, 1)]
R2 = np.sqrt(2.0)
W = np.array([1, 1, 1, R2, R2, R2])


def km_to_tensor(C6: np.ndarray) -> np.ndarray:
    T = np.zeros((3, 3, 3, 3))
    for I, (i, j) in enumerate(PAIRS):
        for J, (k, l) in enumerate(PAIRS):
            v = C6[I, J] / (W[I] * W[J])
            for a, b in {(i, j), (j, i)}:
                for c, d in {(k, l), (l, k)}:
                    T[a, b, c, d] = v
    return T


def tensor_to_km(T: np.ndarray) -> np.ndarray:
    C = np.zeros((6, 6))
    for I, (i, j) in enumerate(PAIRS):
        for J, (k, l) in enumerate(PAIRS):
            C[I, J] = W[I] * W[J] * T[i, j, k, l]
    return C


def rotate_km(C6: np.ndarray, P: np.ndarray) -> np.ndarray:
    """C' with C'_ijkl = P_ia P_jb P_kc P_ld C_abcd (P columns = material axes in global coordinates)."""
    return tensor_to_km(np.einsum("ia,jb,kc,ld,abcd->ijkl", P, P, P, P, km_to_tensor(C6)))


def voigt_to_km(Cv: np.ndarray) -> np.ndarray:
    """Stiffness given in Voigt notation (engineering shear strains) -> Kelvin-Mandel."""
    n = Cv.shape[-1]
    w = np.array([1, 1, R2]) if n == 3 else W
    return Cv * np.outer(w, w)


def compliance_material(kind: str, p: dict) -> np.ndarray:
    """Kelvin-Mandel compliance in material axes, textbook engineering-constant form (written here, not read from EasyFEA)."""
    S = np.zeros((6, 6))
    if kind == "iso":
        E, v = p["E"], p["v"]
        G = E / (2 * (1 + v))
        S[:3, :3] = -v / E
        S[np.arange(3), np.arange(3)] = 1 / E
        S[3, 3] = S[4, 4] = S[5, 5] = 1 / (2 * G)
    elif kind == "trans":
        El, Et, Gl, vl, vt = p["El"], p["Et"], p["Gl"], p["vl"], p["vt"]
        Gt = Et / (2 * (1 + vt))
        S[0, 0] = 1 / El
        S[1, 1] = S[2, 2] = 1 / Et
        S[0, 1] = S[1, 0] = S[0, 2] = S[2, 0] = -vl / El
        S[1, 2] = S[2, 1] = -vt / Et
        S[3, 3] = 1 / (2 * Gt)
        S[4, 4] = S[5, 5] = 1 / (2 * Gl)
    elif kind == "ortho":
        S[0, 0], S[1, 1], S[2, 2] = 1 / p["E1"], 1 / p["E2"], 1 / p["E3"]
        S[0, 1] = S[1, 0] = -p["v12"] / p["E1"]
        S[0, 2] = S[2, 0] = -p["v13"] / p["E1"]
        S[1, 2] = S[2, 1] = -p["v23"] / p["E2"]
        S[3, 3], S[4, 4], S[5, 5] = 1 / (2 * p["G23"]), 1 / (2 * p["G13"]), 1 / (2 * p["G12"])
    else:
        raise ValueError(kind)
    return S


IDX2D = np.array([0, 1, 5])


def reduce_2d(C3: np.ndarray, planeStress: bool) -> np.ndarray:
    if planeStress:
        S3 = np.linalg.inv(C3)
        return np.linalg.inv(S3[np.ix_(IDX2D, IDX2D)])
    return C3[np.ix_(IDX2D, IDX2D)]


def frame(a1: np.ndarray, a2: np.ndarray) -> np.ndarray:
    a1 = a1 / np.linalg.norm(a1)
    a2 = a2 / np.linalg.norm(a2)
    return np.stack([a1, a2, np.cross(a1, a2)], axis=1)


def pmat_km(P: np.ndarray) -> np.ndarray:
    """6x6 Kelvin-Mandel matrix of the change of basis acting on symmetric second-order tensors:
    vec(P A P^T) = Pm vec(A)."""
    Pm = np.zeros((6, 6))
    for J, (k, l) in enumerate(PAIRS):
        A = np.zeros((3, 3))
        A[k, l] = A[l, k] = 1.0 if k == l else 1 / R2
        B = P @ A @ P.T
        for I, (i, j) in enumerate(PAIRS):
            Pm[I, J] = W[I] * B[i, j]
    return Pm
