"""Harness-side geometry: element measures from vertex coordinates (straight-sided elements), rigid-body
modes, independent of EasyFEA's quadrature and shape functions."""

from __future__ import annotations

import numpy as np

NVERT = {"SEG": 2, "TRI": 3, "QUAD": 4, "TETRA": 4, "HEXA": 8, "PRISM": 6}
# gmsh vertex orderings of the faces
HEXA_FACES = [(0, 3, 2, 1), (0, 1, 5, 4), (0, 4, 7, 3), (1, 2, 6, 5), (2, 3, 7, 6), (4, 5, 6, 7)]
PRISM_FACES = [(0, 2, 1), (3, 4, 5), (0, 1, 4, 3), (0, 3, 5, 2), (1, 2, 5, 4)]
TETRA_FACES = [(0, 2, 1), (0, 1, 3), (0, 3, 2), (1, 2, 3)]


def topo(elemType: str) -> str:
    return "".join(ch for ch in str(elemType) if not ch.isdigit())


def _tri_area(p0, p1, p2):
    return 0.5 * np.linalg.norm(np.cross(p1 - p0, p2 - p0), axis=-1)


def element_measures(elemType: str, coord: np.ndarray, connect: np.ndarray) -> np.ndarray:
    """Length / area / volume of each straight-sided element from its vertices.
    Volumes of convex polyhedra: sum of |tet(centroid, face triangle)| (quad faces split along a diagonal;
    exact for planar faces)."""
    t = topo(elemType)
    V = coord[connect[:, : NVERT[t]]]  # (Ne, nv, 3)
    if t == "SEG":
        return np.linalg.norm(V[:, 1] - V[:, 0], axis=1)
    if t == "TRI":
        return _tri_area(V[:, 0], V[:, 1], V[:, 2])
    if t == "QUAD":
        return _tri_area(V[:, 0], V[:, 1], V[:, 2]) + _tri_area(V[:, 0], V[:, 2], V[:, 3])
    faces = {"TETRA": TETRA_FACES, "HEXA": HEXA_FACES, "PRISM": PRISM_FACES}[t]
    c = V.mean(axis=1)
    vol = np.zeros(len(V))
    for f in faces:
        tris = [(f[0], f[1], f[2])] if len(f) == 3 else [(f[0], f[1], f[2]), (f[0], f[2], f[3])]
        for a, b, d in tris:
            vol += np.abs(np.einsum("ei,ei->e", np.cross(V[:, a] - c, V[:, b] - c), V[:, d] - c)) / 6.0
    return vol


def rigid_modes_continuum(coord: np.ndarray, dim: int) -> np.ndarray:
    """(Nn*dim, nrb) translations and infinitesimal rotations about the centroid."""
    Nn = coord.shape[0]
    x = coord - coord.mean(0)
    modes = []
    for d in range(dim):
        m = np.zeros((Nn, dim))
        m[:, d] = 1
        modes.append(m.ravel())
    axes = [np.array([0, 0, 1.0])] if dim == 2 else [np.eye(3)[i] for i in range(3)]
    for w in axes:
        u = np.cross(w, x)
        modes.append(u[:, :dim].ravel())
    return np.array(modes).T


def rigid_modes_beam(coord: np.ndarray, dim: int) -> np.ndarray:
    """Rigid modes of beam dofs (right-handed rotations): 1-D [x]; 2-D [x, y, rz]; 3-D [x, y, z, rx, ry, rz]."""
    Nn = coord.shape[0]
    x = coord - coord.mean(0)
    if dim == 1:
        return np.ones((Nn, 1))
    dof_n = 3 if dim == 2 else 6
    modes = []
    for d in range(dim):
        m = np.zeros((Nn, dof_n))
        m[:, d] = 1
        modes.append(m.ravel())
    if dim == 2:
        m = np.zeros((Nn, 3))
        u = np.cross(np.array([0, 0, 1.0]), x)
        m[:, 0], m[:, 1], m[:, 2] = u[:, 0], u[:, 1], 1.0
        modes.append(m.ravel())
    else:
        for i in range(3):
            w = np.eye(3)[i]
            m = np.zeros((Nn, 6))
            m[:, :3] = np.cross(w, x)
            m[:, 3 + i] = 1.0
            modes.append(m.ravel())
    return np.array(modes).T
