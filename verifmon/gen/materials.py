"""Seeded generators of admissible linear elastic laws (harness side)."""

from __future__ import annotations

import numpy as np

from EasyFEA import Models

KINDS = ["iso", "trans", "ortho", "aniso"]


def random_axes(rng: np.random.Generator, dim: int, generic: bool = True) -> tuple[np.ndarray, np.ndarray]:
    """Orthonormal pair (a1, a2); in 2-D both lie in the x-y plane."""
    if not generic:
        return np.array([1.0, 0, 0]), np.array([0, 1.0, 0])
    if dim == 2:
        th = rng.uniform(0.15, 2 * np.pi - 0.15)
        return np.array([np.cos(th), np.sin(th), 0.0]), np.array([-np.sin(th), np.cos(th), 0.0])
    M = rng.normal(size=(3, 3))
    q, _ = np.linalg.qr(M)
    return q[:, 0].copy(), q[:, 1].copy()


def random_spd(rng: np.random.Generator, n: int, cond: float = 30.0, scale: float = 10.0) -> np.ndarray:
    q, _ = np.linalg.qr(rng.normal(size=(n, n)))
    lam = scale * np.exp(rng.uniform(0, np.log(cond), n))
    return (q * lam) @ q.T


def law_params(rng: np.random.Generator, kind: str) -> dict:
    """Continuous parameters of a law kind, admissible by construction (moderate conditioning)."""
    if kind == "iso":
        return {"E": float(rng.uniform(1, 100)), "v": float(rng.uniform(-0.3, 0.45))}
    if kind == "trans":
        for _ in range(200):
            El, Et = rng.uniform(5, 100), rng.uniform(5, 100)
            Gl = rng.uniform(2, 40)
            vl, vt = rng.uniform(0.0, 0.4), rng.uniform(0.0, 0.45)
            # positive definiteness of the compliance (Torquato): 1 - vt - 2 vl^2 Et/El > 0
            if 1 - vt - 2 * vl**2 * Et / El > 0.15:
                return {"El": float(El), "Et": float(Et), "Gl": float(Gl), "vl": float(vl), "vt": float(vt)}
    if kind == "ortho":
        for _ in range(500):
            E = rng.uniform(5, 100, 3)
            G = rng.uniform(2, 40, 3)
            v23, v13, v12 = rng.uniform(0.0, 0.4, 3)
            S = np.array([[1 / E[0], -v12 / E[0], -v13 / E[0]],
                          [-v12 / E[0], 1 / E[1], -v23 / E[1]],
                          [-v13 / E[0], -v23 / E[1], 1 / E[2]]])
            lam = np.linalg.eigvalsh(S)
            if lam.min() > 0.05 * lam.max():
                return {"E1": float(E[0]), "E2": float(E[1]), "E3": float(E[2]), "G23": float(G[0]), "G13": float(G[1]),
                        "G12": float(G[2]), "v23": float(v23), "v13": float(v13), "v12": float(v12)}
    raise ValueError(kind)


def make_law(rng: np.random.Generator, dim: int, kind: str, planeStress: bool = True, thickness: float = 1.0,
             generic_axes: bool = True):
    """Returns (model, description)."""
    a1, a2 = random_axes(rng, dim, generic_axes)
    if kind == "iso":
        p = law_params(rng, kind)
        m = Models.Elastic.Isotropic(dim, planeStress=planeStress, thickness=thickness, **p)
        return m, {"kind": kind, **p}
    if kind == "trans":
        p = law_params(rng, kind)
        m = Models.Elastic.TransverselyIsotropic(dim, axis_l=a1, axis_t=a2, planeStress=planeStress, thickness=thickness, **p)
        return m, {"kind": kind, **p, "axis_l": a1.tolist(), "axis_t": a2.tolist()}
    if kind == "ortho":
        p = law_params(rng, kind)
        m = Models.Elastic.Orthotropic(dim, axis_1=a1, axis_2=a2, planeStress=planeStress, thickness=thickness, **p)
        return m, {"kind": kind, **p, "axis_1": a1.tolist(), "axis_2": a2.tolist()}
    if kind == "aniso":
        n = 3 if dim == 2 else 6
        C = random_spd(rng, n)
        m = Models.Elastic.Anisotropic(dim, C, False, axis1=a1, axis2=a2, thickness=thickness)
        return m, {"kind": kind, "C_mandel": C.tolist(), "axis1": a1.tolist(), "axis2": a2.tolist()}
    raise ValueError(kind)
