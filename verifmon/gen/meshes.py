"""Seeded mesh workload generators (harness side).

Everything returned is built through EasyFEA's public meshing API (gmsh) or through
``GroupElemFactory.Create`` + ``Mesh`` from explicit arrays; analytic measures are computed here,
independently of EasyFEA.
"""

from __future__ import annotations

import math

import numpy as np

from EasyFEA import ElemType, Mesh
from EasyFEA.FEM import GroupElemFactory
from EasyFEA.Geoms import Line, Point, Points

ET_1D = ["SEG2", "SEG3", "SEG4", "SEG5"]
ET_2D = ["TRI3", "TRI6", "TRI10", "TRI15", "QUAD4", "QUAD8", "QUAD9"]
ET_3D = ["TETRA4", "TETRA10", "HEXA8", "HEXA20", "HEXA27", "PRISM6", "PRISM15", "PRISM18"]
ORDER = {
    "SEG2": 1, "SEG3": 2, "SEG4": 3, "SEG5": 4,
    "TRI3": 1, "TRI6": 2, "TRI10": 3, "TRI15": 4, "QUAD4": 1, "QUAD8": 2, "QUAD9": 2,
    "TETRA4": 1, "TETRA10": 2, "HEXA8": 1, "HEXA20": 2, "HEXA27": 2,
    "PRISM6": 1, "PRISM15": 2, "PRISM18": 2,
}


def et(name: str) -> ElemType:
    return ElemType(name)


# ------------------------------------------------------------------------------------------
# polygons
# ------------------------------------------------------------------------------------------
def random_polygon(rng: np.random.Generator, n: int = 5, concave: bool = False, radius: float = 1.0) -> np.ndarray:
    """Counter-clockwise star-shaped polygon (n vertices) around a random centre. Concave: one vertex
    pulled towards the centre."""
    ang = np.sort(rng.uniform(0, 2 * np.pi, n))
    # keep angular gaps reasonable (no sliver): re-space if a gap is < 0.5*mean or > 1.6*mean... simple jitter
    base = np.linspace(0, 2 * np.pi, n, endpoint=False)
    ang = base + rng.uniform(-0.25, 0.25, n) * (2 * np.pi / n)
    r = radius * rng.uniform(0.75, 1.25, n)
    if concave and n >= 5:
        r[rng.integers(n)] *= 0.45
    c = rng.uniform(-0.5, 0.5, 2)
    return np.c_[c[0] + r * np.cos(ang), c[1] + r * np.sin(ang)]


def shoelace(poly: np.ndarray) -> tuple[float, np.ndarray]:
    """Signed area and centroid of a planar polygon (x, y columns)."""
    x, y = poly[:, 0], poly[:, 1]
    x1, y1 = np.roll(x, -1), np.roll(y, -1)
    cr = x * y1 - x1 * y
    A = 0.5 * cr.sum()
    cx = ((x + x1) * cr).sum() / (6 * A)
    cy = ((y + y1) * cr).sum() / (6 * A)
    return float(A), np.array([cx, cy])


def polygon_moment(poly: np.ndarray, a: int, b: int) -> float:
    """Exact ∫ x^a y^b dA over a polygon by fan triangulation from vertex 0 and exact triangle monomial
    integration (Dunavant-free: uses the closed form for monomials on a triangle via barycentric expansion)."""
    from itertools import product

    total = 0.0
    p0 = poly[0]
    for i in range(1, len(poly) - 1):
        p1, p2 = poly[i], poly[i + 1]
        J = (p1[0] - p0[0]) * (p2[1] - p0[1]) - (p2[0] - p0[0]) * (p1[1] - p0[1])
        # x = sum l_k x_k ; x^a y^b expanded by multinomial; ∫ l0^i l1^j l2^k = 2A i!j!k!/(i+j+k+2)!
        xs = [p0[0], p1[0], p2[0]]
        ys = [p0[1], p1[1], p2[1]]
        s = 0.0
        for ia in _multi(a):
            ca = math.factorial(a) / (math.factorial(ia[0]) * math.factorial(ia[1]) * math.factorial(ia[2]))
            xa = xs[0] ** ia[0] * xs[1] ** ia[1] * xs[2] ** ia[2]
            for ib in _multi(b):
                cb = math.factorial(b) / (math.factorial(ib[0]) * math.factorial(ib[1]) * math.factorial(ib[2]))
                yb = ys[0] ** ib[0] * ys[1] ** ib[1] * ys[2] ** ib[2]
                i0, i1, i2 = ia[0] + ib[0], ia[1] + ib[1], ia[2] + ib[2]
                integ = math.factorial(i0) * math.factorial(i1) * math.factorial(i2) / math.factorial(i0 + i1 + i2 + 2)
                s += ca * cb * xa * yb * integ
        total += J * s
    return total


def _multi(n: int):
    for i in range(n + 1):
        for j in range(n + 1 - i):
            yield (i, j, n - i - j)


# ------------------------------------------------------------------------------------------
# gmsh meshes
# ------------------------------------------------------------------------------------------
def mesh2d(poly: np.ndarray, elemType: str, meshSize: float, organised: bool = False) -> Mesh:
    pts = Points([(float(x), float(y)) for x, y in poly], meshSize)
    return pts.Mesh_2D([], et(elemType), isOrganised=organised)


def mesh3d(poly: np.ndarray, elemType: str, h: float, layers: int, meshSize: float, organised: bool = False) -> Mesh:
    pts = Points([(float(x), float(y)) for x, y in poly], meshSize)
    return pts.Mesh_Extrude([], [0, 0, float(h)], [int(layers)], et(elemType), isOrganised=organised)


def mesh_curved(rng: np.random.Generator, elemType: str, dim: int, scale: float = 1.0, layers: int = 1):
    """Rectangle with a circular hole (extruded for dim = 3), all lengths multiplied by `scale`: with elements of order >= 2 the edges on
    the hole are curved (isoparametric geometry). Returns mesh, (Lx, Ly, h, centre, radius) in scaled units."""
    from EasyFEA.Geoms import Circle

    Lx, Ly = float(rng.uniform(1.6, 2.4)) * scale, float(rng.uniform(1.2, 1.8)) * scale
    R = float(rng.uniform(0.25, 0.4)) * scale
    c = (float(Lx * rng.uniform(0.4, 0.6)), float(Ly * rng.uniform(0.4, 0.6)))
    ms = float({1: 0.35, 2: 0.5, 3: 0.7, 4: 0.8}[ORDER[elemType]] * scale * (1.4 if dim == 3 else 1.0))
    pts = Points([(0.0, 0.0), (Lx, 0.0), (Lx, Ly), (0.0, Ly)], ms)
    hole = Circle(Point(c[0], c[1]), 2 * R, ms, isFilled=False)
    h = float(rng.uniform(0.4, 0.8)) * scale
    if dim == 2:
        mesh = pts.Mesh_2D([hole], et(elemType))
    else:
        mesh = pts.Mesh_Extrude([hole], [0, 0, h], [int(layers)], et(elemType))
    return mesh, (Lx, Ly, h, c, R)


def mesh1d(elemType: str, L: float, n: int, p0=(0.0, 0.0, 0.0), direction=(1.0, 0.0, 0.0)) -> Mesh:
    d = np.asarray(direction, float)
    d = d / np.linalg.norm(d)
    a = np.asarray(p0, float)
    b = a + L * d
    return Line(Point(*a), Point(*b), L / n).Mesh_1D(et(elemType))


def unit_quad(nx: int = 4) -> np.ndarray:
    return np.array([[0.0, 0.0], [1.0, 0.0], [1.0, 1.0], [0.0, 1.0]])


# ------------------------------------------------------------------------------------------
# rebuilding from arrays
# ------------------------------------------------------------------------------------------
def mesh_arrays(mesh: Mesh) -> tuple[np.ndarray, dict[str, np.ndarray]]:
    return mesh.coord.copy(), {str(k.value if hasattr(k, "value") else k): g.connect.copy() for k, g in mesh.dict_groupElem.items()}


def build_mesh(coord: np.ndarray, connects: dict[str, np.ndarray]) -> Mesh:
    d = {}
    for name, con in connects.items():
        d[et(name)] = GroupElemFactory.Create(et(name), np.asarray(con, dtype=int), np.asarray(coord, float))
    return Mesh(d)


def rebuild(mesh: Mesh, coord: np.ndarray | None = None, perm: np.ndarray | None = None, extra_nodes: int = 0,
            keep_dims: tuple[int, ...] | None = None) -> Mesh:
    """New mesh from the arrays of ``mesh`` with optionally new coordinates, a node permutation
    (old node i becomes node perm[i]) and ``extra_nodes`` orphan coordinates appended."""
    c0, connects = mesh_arrays(mesh)
    if coord is not None:
        c0 = np.asarray(coord, float).copy()
    Nn = c0.shape[0]
    if extra_nodes:
        far = c0.mean(0) + np.arange(1, extra_nodes + 1)[:, None] * np.array([[0.37, 0.21, 0.0]])
        c0 = np.vstack([c0, far])
    if perm is not None:
        perm = np.asarray(perm, int)
        assert perm.size == c0.shape[0]
        newc = np.empty_like(c0)
        newc[perm] = c0
        c0 = newc
        connects = {k: perm[v] for k, v in connects.items()}
    if keep_dims is not None:
        dims = {g.elemType.value: g.dim for g in mesh.dict_groupElem.values()}
        connects = {k: v for k, v in connects.items() if dims[k] in keep_dims}
    return build_mesh(c0, connects)


def affine_map(rng: np.random.Generator, dim: int, reflect: bool | None = None) -> tuple[np.ndarray, np.ndarray]:
    """Random well-conditioned affine map x -> A x + t embedded in 3-D (identity outside the first ``dim`` axes)."""
    for _ in range(100):
        B = np.eye(dim) + rng.uniform(-0.45, 0.45, (dim, dim))
        d = np.linalg.det(B)
        if 0.35 < abs(d) < 2.5 and np.linalg.cond(B) < 6:
            break
    if reflect is None:
        reflect = bool(rng.integers(2))
    if (np.linalg.det(B) < 0) != reflect:
        B[:, 0] *= -1
    A = np.eye(3)
    A[:dim, :dim] = B
    t = np.zeros(3)
    t[:dim] = rng.uniform(-2, 2, dim)
    return A, t


def random_rotation(rng: np.random.Generator, dim: int, improper: bool = False) -> np.ndarray:
    """Random orthogonal 3x3 matrix acting on the first ``dim`` axes (generic angle)."""
    Q = np.eye(3)
    if dim == 2:
        th = rng.uniform(0.2, 2 * np.pi - 0.2)
        Q[:2, :2] = [[np.cos(th), -np.sin(th)], [np.sin(th), np.cos(th)]]
    else:
        M = rng.normal(size=(3, 3))
        q, r = np.linalg.qr(M)
        q = q * np.sign(np.diag(r))
        if np.linalg.det(q) < 0:
            q[:, 0] *= -1
        Q = q
    if improper:
        Q = Q @ np.diag([-1.0, 1.0, 1.0])
    return Q


def boundary_nodes(mesh: Mesh) -> np.ndarray:
    """Nodes used by the (dim-1)-dimensional groups of the mesh."""
    lst = [g.connect.ravel() for g in mesh.Get_list_groupElem(mesh.dim - 1)] if mesh.dim > 1 else []
    if mesh.dim == 1:
        lst = [g.connect.ravel() for g in mesh.Get_list_groupElem(0)]
    if not lst:
        return np.array([], dtype=int)
    return np.unique(np.concatenate(lst))


def used_nodes(mesh: Mesh) -> np.ndarray:
    return np.unique(np.concatenate([g.connect.ravel() for g in mesh.Get_list_groupElem(mesh.dim)]))


def structured_quad_grid(nx: int, ny: int, elemType: str, perturb: float, rng: np.random.Generator,
                         Lx: float = 1.0, Ly: float = 1.0) -> tuple[Mesh, np.ndarray]:
    """General (non-parallelogram) straight-sided quads: organised gmsh mesh of a rectangle whose vertex
    positions are then moved by a smooth bilinear-per-cell perturbation that keeps edges straight:
    new position = old + perturb * random displacement at cell *vertices*, interpolated bilinearly inside
    each cell (so mid-side / centre nodes stay on the straight edges / at the bilinear image)."""
    poly = np.array([[0, 0], [Lx, 0], [Lx, Ly], [0, Ly]], float)
    mesh = Points([(float(x), float(y)) for x, y in poly], Lx / nx).Mesh_2D([], et(elemType), isOrganised=True)
    return mesh, poly
