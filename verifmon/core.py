"""Monitoring context: the object every scenario driver reports its observations to.

A *check* is one evaluation of a deterministic oracle over an observation of the real code.
Checks carry a mechanism ``key`` (discrete configuration only: element type, simulation type,
operation, operand class ... never a seed or random value) used to classify failures against
``known_findings.json``.
"""

from __future__ import annotations

import contextlib
import io
import math
import os
import traceback
import warnings
from typing import Any, Optional

import numpy as np

REPO = os.path.realpath(os.environ.get("VERIF_REPO", "/repo"))


def jsonable(x: Any, depth: int = 0) -> Any:
    """Best-effort conversion to something json.dump accepts (arrays are summarised when large)."""
    if depth > 6:
        return str(x)[:200]
    if x is None or isinstance(x, (bool, int, str)):
        return x
    if isinstance(x, float):
        return x if math.isfinite(x) else repr(x)
    if isinstance(x, (np.integer,)):
        return int(x)
    if isinstance(x, (np.floating,)):
        return jsonable(float(x))
    if isinstance(x, (np.bool_,)):
        return bool(x)
    if isinstance(x, complex):
        return [x.real, x.imag]
    if isinstance(x, np.ndarray):
        if x.size <= 64:
            return jsonable(x.tolist(), depth + 1)
        with np.errstate(all="ignore"):
            return {
                "shape": list(x.shape),
                "dtype": str(x.dtype),
                "head": jsonable(x.ravel()[:8].tolist(), depth + 1),
            }
    if isinstance(x, dict):
        return {str(k): jsonable(v, depth + 1) for k, v in x.items()}
    if isinstance(x, (list, tuple, set, frozenset)):
        return [jsonable(v, depth + 1) for v in x]
    return str(x)[:300]


def relerr(a, b, scale: Optional[float] = None) -> float:
    """max|a-b| / max(scale, max|b|, tiny). NaN/Inf anywhere -> inf. Shape mismatch -> inf."""
    a = np.asarray(a)
    b = np.asarray(b)
    if a.dtype == bool:
        a = a.astype(float)
    if b.dtype == bool:
        b = b.astype(float)
    if a.shape != b.shape:
        try:
            a, b = np.broadcast_arrays(a, b)
        except ValueError:
            return math.inf
    if a.size == 0:
        return 0.0
    with np.errstate(all="ignore"):
        if not (np.all(np.isfinite(a)) and np.all(np.isfinite(b))):
            return math.inf
        s = float(np.max(np.abs(b)))
        if scale is not None:
            s = max(s, float(scale))
        if s == 0.0:
            s = 1.0
        return float(np.max(np.abs(a - b))) / s


def raised_in_repo(tb) -> bool:
    """True when the innermost frames of the traceback belong to EasyFEA (or a library it called),
    i.e. the exception did not originate in harness code after the last EasyFEA frame."""
    frames = traceback.extract_tb(tb)
    last_repo = -1
    last_verif = -1
    verif_root = os.path.realpath(os.path.join(os.path.dirname(__file__), ".."))
    for i, fr in enumerate(frames):
        fn = os.path.realpath(fr.filename)
        if fn.startswith(REPO + os.sep):
            last_repo = i
        elif fn.startswith(verif_root + os.sep) and os.sep + ".deps" + os.sep not in fn:
            last_verif = i
    return last_repo > last_verif


class HarnessError(Exception):
    """Raised by drivers when the harness itself cannot proceed (-> inconclusive, never a violation)."""


class Ctx:
    """Per-case recorder."""

    def __init__(self, prop: str, case: dict):
        self.prop = prop
        self.case = case
        self.checks: list[dict] = []
        self.events: dict[str, int] = {}
        self.sig: Optional[str] = None
        self.nontrivial: bool = False
        self.sample: dict = {}
        self.notes: list[str] = []
        self.warnings_seen: dict[str, int] = {}
        self.default_key: str = prop

    # -- events ---------------------------------------------------------------------------
    def event(self, name: str, n: int = 1) -> None:
        self.events[name] = self.events.get(name, 0) + n

    def note(self, text: str) -> None:
        if len(self.notes) < 20:
            self.notes.append(text[:500])

    def describe(self, sig: str, nontrivial: bool, **sample) -> None:
        """Configuration signature of the case (discrete), non-triviality by the property's rule,
        and what to print in the evidence sample."""
        self.sig = sig
        self.nontrivial = bool(nontrivial)
        self.sample.update(jsonable(sample))

    # -- checks ---------------------------------------------------------------------------
    def check(
        self,
        oracle: str,
        err: float,
        tol: float,
        key: Optional[str] = None,
        **detail,
    ) -> bool:
        """Numeric oracle: passes iff err <= tol (NaN fails)."""
        err = float(err)
        ok = bool(err <= tol)  # NaN -> False
        self._record(oracle, ok, err, tol, key, detail)
        return ok

    def require(self, oracle: str, ok: bool, key: Optional[str] = None, **detail) -> bool:
        """Boolean oracle."""
        ok = bool(ok)
        self._record(oracle, ok, 0.0 if ok else math.inf, 0.0, key, detail)
        return ok

    def finite(self, oracle: str, arr, key: Optional[str] = None, **detail) -> bool:
        """Numeric sanitizer: every entry finite."""
        a = np.asarray(arr)
        with np.errstate(all="ignore"):
            ok = bool(np.all(np.isfinite(a))) if a.dtype.kind in "fc" else True
        self._record(oracle, ok, 0.0 if ok else math.inf, 0.0, key, detail)
        return ok

    def _record(self, oracle, ok, err, tol, key, detail) -> None:
        self.event("check:" + oracle)
        rec = {
            "oracle": oracle,
            "ok": ok,
            "err": err if math.isfinite(err) else repr(err),
            "tol": tol,
            "key": key or self.default_key,
        }
        if not ok:
            rec["detail"] = jsonable(detail)
        self.checks.append(rec)

    @contextlib.contextmanager
    def monitored(self, oracle: str, key: Optional[str] = None, expect=()):
        """Runs real-code calls; an exception raised *inside EasyFEA* becomes a failed check
        ``<oracle>`` (the property says the operation works); exception types listed in ``expect``
        propagate (caller handles documented rejections); harness exceptions propagate."""
        try:
            yield
        except expect:
            raise
        except HarnessError:
            raise
        except Exception as e:  # noqa: BLE001
            if raised_in_repo(e.__traceback__):
                tb = traceback.format_exception(type(e), e, e.__traceback__)
                self._record(
                    oracle,
                    False,
                    math.inf,
                    0.0,
                    key,
                    {"raised": type(e).__name__, "message": str(e)[:300], "where": "".join(tb[-3:])[-600:]},
                )
                self.event("raised:" + type(e).__name__)
                raise MonitoredFailure(oracle) from e
            raise
        else:
            self.event("monitored-ok:" + oracle)

    @contextlib.contextmanager
    def capture_warnings(self):
        with warnings.catch_warnings(record=True) as w:
            warnings.simplefilter("always")
            yield w
        for x in w:
            n = x.category.__name__
            self.warnings_seen[n] = self.warnings_seen.get(n, 0) + 1

    def result(self, status: str = "ok", error: Optional[str] = None) -> dict:
        return {
            "case": self.case,
            "status": status,
            "error": error,
            "sig": self.sig,
            "nontrivial": self.nontrivial,
            "sample": self.sample,
            "checks": self.checks,
            "events": self.events,
            "notes": self.notes,
            "warnings": self.warnings_seen,
        }


class MonitoredFailure(Exception):
    """Control-flow exception: a monitored call raised inside EasyFEA; the failure is already recorded."""


@contextlib.contextmanager
def quiet():
    """Silences EasyFEA's terminal chatter."""
    buf = io.StringIO()
    with contextlib.redirect_stdout(buf):
        yield buf
