"""Global monitor at _Simu.Assembly exit: the assembled K, C, M, F must equal the dense reference
scatter-add of the very dictionary Construct_local_matrix_system returned during that call."""

from __future__ import annotations

import numpy as np

from ..core import relerr
from ..ref import scatter


class AssemblyMonitor:
    def __init__(self, limit_dofs: int = 1500, tol: float = 1e-11):
        self.limit = limit_dofs
        self.tol = tol
        self.calls = 0
        self.checked = 0
        self.skipped = 0
        self.records: list[dict] = []  # one per checked call
        self._orig = None

    def install(self):
        from EasyFEA.Simulations._simu import _Simu

        if self._orig is not None:
            return
        self._orig = _Simu.Assembly
        mon = self
        orig = self._orig

        def Assembly(simu, problemType):
            mon.calls += 1
            captured = []
            had = "Construct_local_matrix_system" in simu.__dict__
            prev = simu.__dict__.get("Construct_local_matrix_system")
            inner = simu.Construct_local_matrix_system

            def capture(pt):
                d = inner(pt)
                captured.append(d)
                return d

            simu.__dict__["Construct_local_matrix_system"] = capture
            try:
                out = orig(simu, problemType)
            finally:
                if had:
                    simu.__dict__["Construct_local_matrix_system"] = prev
                else:
                    simu.__dict__.pop("Construct_local_matrix_system", None)
            try:
                mon._compare(simu, problemType, captured, out)
            except Exception as e:  # noqa: BLE001  (monitor must never break the run)
                mon.records.append({"error": repr(e)})
            return out

        _Simu.Assembly = Assembly

    def uninstall(self):
        from EasyFEA.Simulations._simu import _Simu

        if self._orig is not None:
            _Simu.Assembly = self._orig
            self._orig = None

    def _compare(self, simu, problemType, captured, out):
        K = out[0]
        Ndof = K.shape[0]
        if len(captured) != 1 or Ndof > self.limit:
            self.skipped += 1
            return
        d = captured[0]
        dof_n = simu.Get_dof_n(problemType)
        rec = {"simu": type(simu).__name__, "problemType": str(problemType), "Ndof": Ndof, "dof_n": dof_n,
               "groups": [f"{g.elemType.value}:{g.Ne}" for g in d], "err": {}, "cache_size": _cache_size(simu)}
        for slot, name in enumerate("KCM"):
            ref = scatter.scatter_matrix({g: v[slot] for g, v in d.items()}, dof_n, Ndof)
            got = out[slot].toarray()
            rec["err"][name] = relerr(got, ref, scale=np.abs(ref).max() if ref.size else 1.0) if np.abs(ref).max() > 0 else float(np.abs(got).max())
            rec.setdefault("nnz", {})[name] = int(out[slot].nnz)
        ref = scatter.scatter_vector({g: v[3] for g, v in d.items()}, dof_n, Ndof)
        got = out[3].toarray().ravel()
        rec["err"]["F"] = relerr(got, ref) if np.abs(ref).max() > 0 else float(np.abs(got).max())
        rec["shape_ok"] = bool(out[0].shape == (Ndof, Ndof) and out[1].shape == (Ndof, Ndof) and out[2].shape == (Ndof, Ndof) and out[3].shape == (Ndof, 1))
        rec["complex"] = bool(any(np.iscomplexobj(x.data) for x in out))
        self.checked += 1
        self.records.append(rec)


def _cache_size(obj) -> int:
    c = getattr(obj, "__cachedComputedValues", None)
    return len(c) if isinstance(c, dict) else 0
