"""pytest plugin (-p verifmon.monitors.plugin): installs the global monitors named in VERIFMON_MONITORS before the
repository's tests are collected and writes what they observed to VERIFMON_OUT (one file per process: xdist workers
append their pid). The tests are not edited and their pass / fail status is not used."""

import os

from . import hooks

_names = [n for n in os.environ.get("VERIFMON_MONITORS", "").split(",") if n]
_out = os.environ.get("VERIFMON_OUT")
_dump = None
if _names and _out:
    _dump = hooks.install(_names, f"{_out}.{os.getpid()}.json")


def pytest_sessionfinish(session, exitstatus):
    if _dump is not None:
        _dump()
