"""python -m verifmon.monitors.runscript <script.py>: runs one of the repository's example scripts, unedited, headless,
with the global monitors named in VERIFMON_MONITORS installed; observations go to VERIFMON_OUT.<pid>.json (also when the
run is stopped by SIGTERM at its time cap)."""

import os
import runpy
import sys

os.environ.setdefault("MPLBACKEND", "Agg")

from . import hooks  # noqa: E402


def main():
    script = os.path.abspath(sys.argv[1])
    os.environ["VERIFMON_SCRIPT"] = script
    names = [n for n in os.environ.get("VERIFMON_MONITORS", "").split(",") if n]
    out = os.environ["VERIFMON_OUT"]
    dump = hooks.install(names, f"{out}.{os.getpid()}.json")
    try:
        import matplotlib

        matplotlib.use("Agg")
        import matplotlib.pyplot as plt

        plt.show = lambda *a, **k: None
        plt.pause = lambda *a, **k: None
    except Exception:  # noqa: BLE001
        pass
    # drawing is no part of any property and its optional packages are absent here: the plotting entry points of the library
    # become no-ops (returning an object that accepts anything), so that a script runs on to its next computation
    try:
        import inspect
        from unittest.mock import MagicMock

        from EasyFEA.Utilities import Matplotlib, PyVista

        for mod in (Matplotlib, PyVista):
            for nm, fn in list(vars(mod).items()):
                if inspect.isfunction(fn) and not nm.startswith("__") and fn.__module__ == mod.__name__:
                    setattr(mod, nm, (lambda *a, **k: MagicMock()))
    except Exception as e:  # noqa: BLE001
        hooks.LOG.monitor_error("stub-display", e)
    sys.argv = [script] + sys.argv[2:]
    sys.path.insert(0, os.path.dirname(script))
    status = "finished"
    try:
        runpy.run_path(script, run_name="__main__")
    except SystemExit:
        status = "sys-exit"
    except BaseException as e:  # noqa: BLE001 - an example that cannot run here (optional package, data file) is just less workload
        status = f"raised:{type(e).__name__}:{str(e)[:160]}"
    hooks.LOG.call("script-" + status.split(":")[0])
    hooks.LOG.errors.append("script-status: " + status)
    dump()


if __name__ == "__main__":
    main()
