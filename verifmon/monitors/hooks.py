"""Global monitors: invariants asserted at hooks of the real code while SOMEBODY ELSE's workload runs (the repository's
own tests, its example scripts). Nothing here knows the workload; every monitor decides from the arguments and the
result of one call, and from the object's own state at that moment.

A monitor never raises into the observed program and never changes what a call returns. Observations are aggregated
per (property, key): number of evaluations, worst error, tolerance, and the first few failing witnesses.

    law        C11  every freshly updated elastic law: C symmetric, positive definite, C.S = I
    assembly   C03  every _Simu.Assembly: K, C, M, F equal the scatter-add of the element arrays built during that call
               C02  ... and K of Elastic / Thermal / Beam simulations is symmetric
    bc         C04  after every solve of a problem type: the solution carries the prescribed values on the Dirichlet dofs
    stale      C14  Get_K_C_M_F served from the simulation's cache equals what a copy of the simulation assembles anew
    integrate  C19  Behavior.Integrate: arguments untouched, outputs finite where converged, p never decreases
    fearray    C12  FeArray @ / dot / ddot between two fields: the pointwise product at sampled (element, point) pairs
    timestep   C05  every solve under a time scheme: stored rates follow the documented scheme; equation of motion on free dofs (linear kinds)
    results    C16  displacement components / norm are those of the solution held; stress-like results come per node or per element as asked
    loads      C09  constant distributed loads on straight-sided linear elements: added nodal forces sum to intensity x measure (x thickness)
    location   C08  reference coordinates returned by the point location reproduce the query point through the element's own map
    phasefield C17  split parts finite and adding up to the undamaged stress / energy; history energy / damage monotone between saved steps
    history    C15  stored iterations keep the digest they were saved with; the entry just saved holds the live primary fields
"""

from __future__ import annotations

import atexit
import copy
import json
import os
import signal
import sys
import time

import numpy as np

MAX_WITNESS = 4


class Log:
    def __init__(self):
        self.rec: dict[str, dict] = {}
        self.calls: dict[str, int] = {}
        self.errors: list[str] = []
        self.t0 = time.time()

    def call(self, name: str, n: int = 1):
        self.calls[name] = self.calls.get(name, 0) + n

    def check(self, prop: str, oracle: str, key: str, err: float, tol: float, **detail):
        r = self.rec.setdefault(key, {"property": prop, "oracle": oracle, "n": 0, "failed": 0, "worst": 0.0, "tol": tol, "witness": []})
        r["n"] += 1
        try:
            err = float(err)
        except Exception:  # noqa: BLE001
            err = float("inf")
        bad = not (err <= tol)
        if err == err and err > r["worst"]:
            r["worst"] = err
        if bad:
            r["failed"] += 1
            if len(r["witness"]) < MAX_WITNESS:
                d = {k: _js(v) for k, v in detail.items()}
                d["err"] = err if err == err else "nan"
                d["where"] = os.environ.get("PYTEST_CURRENT_TEST", os.environ.get("VERIFMON_SCRIPT", ""))
                r["witness"].append(d)

    def monitor_error(self, name: str, e: BaseException):
        if len(self.errors) < 20:
            import traceback

            tb = traceback.extract_tb(e.__traceback__)
            where = f"{os.path.basename(tb[-1].filename)}:{tb[-1].lineno}" if tb else "?"
            self.errors.append(f"{name}: {type(e).__name__}: {str(e)[:200]} @ {where}")

    def dump(self, path: str):
        out = {"records": self.rec, "calls": self.calls, "monitor_errors": self.errors, "wall_s": round(time.time() - self.t0, 2),
               "where": os.environ.get("VERIFMON_SCRIPT", "")}
        tmp = path + ".tmp"
        with open(tmp, "w") as f:
            json.dump(out, f, default=_js)
        os.replace(tmp, path)


def _js(v):
    if isinstance(v, np.ndarray):
        return v.tolist() if v.size <= 12 else {"shape": list(v.shape), "absmax": float(np.abs(v).max()) if v.size else 0.0}
    if isinstance(v, (np.floating, np.integer)):
        return v.item()
    if isinstance(v, (list, tuple)):
        return [_js(x) for x in v]
    if isinstance(v, (str, int, float, bool)) or v is None:
        return v
    return str(v)[:120]


LOG = Log()
_inside = [0]  # re-entrancy guard: calls made BY a monitor are not observed


def guarded(name):
    """Decorator for monitor bodies: never raise into the program, never observe the monitor's own calls."""

    def deco(fn):
        def run(*a, **k):
            if _inside[0]:
                return
            _inside[0] += 1
            try:
                fn(*a, **k)
            except Exception as e:  # noqa: BLE001
                LOG.monitor_error(name, e)
            finally:
                _inside[0] -= 1

        return run

    return deco


# ------------------------------------------------------------------------------------------
def install_law():
    from EasyFEA.Models.Elastic._laws import _Elastic

    pc, ps = _Elastic.__dict__["C"], _Elastic.__dict__["S"]

    @guarded("law")
    def look(law, C):
        S = ps.fget(law)
        C = np.asarray(C, float)
        S = np.asarray(S, float)
        kind = type(law).__name__
        k = f"C11/suite/{kind}/{law.dim}D"
        sc = np.abs(C).max()
        LOG.check("C11", "C-symmetric", k + "/C-symmetric", np.abs(C - np.swapaxes(C, -1, -2)).max() / sc, 1e-12)
        lam = np.linalg.eigvalsh(0.5 * (C + np.swapaxes(C, -1, -2)))
        LOG.check("C11", "C-spd", k + "/C-spd", max(0.0, float(-(lam.min(-1) / lam.max(-1)).min()) + 1e-9), 1e-9, lam_min=float(lam.min()))
        LOG.check("C11", "C-times-S", k + "/C-times-S", np.abs(C @ S - np.eye(C.shape[-1])).max(), 1e-9, shape=list(C.shape))

    def getC(self):
        was = bool(self.needUpdate)
        out = pc.fget(self)
        if was:
            LOG.call("law-updates")
            look(self, out)
        return out

    _Elastic.C = property(getC, pc.fset, pc.fdel, pc.__doc__)


# ------------------------------------------------------------------------------------------
def install_assembly(limit_dofs=2500):
    from EasyFEA.Simulations._simu import _Simu

    from ..ref import scatter

    orig = _Simu.Assembly

    @guarded("assembly")
    def compare(simu, problemType, captured, out):
        K = out[0]
        Ndof = K.shape[0]
        if len(captured) != 1 or Ndof > limit_dofs:
            LOG.call("assembly-skipped")
            return
        d = captured[0]
        dof_n = simu.Get_dof_n(problemType)
        kind = type(simu).__name__
        k = f"C03/suite/{kind}"
        for slot, name in enumerate("KCM"):
            ref = scatter.scatter_matrix({g: v[slot] for g, v in d.items()}, dof_n, Ndof)
            got = out[slot].toarray()
            sc = np.abs(ref).max()
            err = np.abs(got - ref).max() / sc if sc > 0 else np.abs(got).max()
            LOG.check("C03", "assembly-equals-scatter", f"{k}/{name}", err, 1e-11, Ndof=Ndof, groups=[f"{g.elemType.value}:{g.Ne}" for g in d])
        ref = scatter.scatter_vector({g: v[3] for g, v in d.items()}, dof_n, Ndof)
        got = out[3].toarray().ravel()
        sc = np.abs(ref).max()
        LOG.check("C03", "assembly-equals-scatter", f"{k}/F", np.abs(got - ref).max() / sc if sc > 0 else np.abs(got).max(), 1e-11, Ndof=Ndof)
        if kind in ("Elastic", "Thermal", "Beam"):
            Kd = out[0].toarray()
            sc = np.abs(Kd).max()
            if sc > 0:
                LOG.check("C02", "K-symmetric", f"C02/suite/{kind}/K-symmetric", np.abs(Kd - Kd.T).max() / sc, 1e-10, Ndof=Ndof)

    def Assembly(simu, problemType):
        if _inside[0]:
            return orig(simu, problemType)
        LOG.call("assembly")
        captured = []
        had = "Construct_local_matrix_system" in simu.__dict__
        prev = simu.__dict__.get("Construct_local_matrix_system")
        inner = simu.Construct_local_matrix_system

        def capture(pt):
            d = inner(pt)
            captured.append(d)
            return d

        simu.__dict__["Construct_local_matrix_system"] = capture
        try:
            out = orig(simu, problemType)
        finally:
            if had:
                simu.__dict__["Construct_local_matrix_system"] = prev
            else:
                simu.__dict__.pop("Construct_local_matrix_system", None)
        compare(simu, problemType, captured, out)
        return out

    _Simu.Assembly = Assembly


# ------------------------------------------------------------------------------------------
def install_bc():
    from EasyFEA.Simulations._simu import _Simu

    orig = _Simu._Solver_Solve_problemType

    @guarded("bc")
    def look(simu, problemType):
        dofs = np.asarray(simu.Bc_dofs_Dirichlet(problemType), int)
        vals = np.asarray(simu.Bc_values_Dirichlet(problemType), float)
        if dofs.size == 0:
            return
        # a dof given several times: the entry given last is the one in force
        last = {}
        for d_, v_ in zip(dofs.tolist(), vals.tolist()):
            last[d_] = v_
        dd = np.fromiter(last.keys(), int)
        vv = np.fromiter(last.values(), float)
        u = np.asarray(simu._Get_u_n(problemType), float)
        sc = max(np.abs(u).max(), np.abs(vv).max(), 1e-300)
        kind = type(simu).__name__
        algo = str(getattr(simu.algo, "value", simu.algo))
        LOG.check("C04", "dirichlet-satisfied", f"C04/suite/{kind}/{algo}/dirichlet", np.abs(u[dd] - vv).max() / sc, 1e-9, ndofs=int(dd.size), Ndof=int(u.size),
                  nonlinear=bool(simu.isNonLinear))

    def solve(simu, problemType):
        out = orig(simu, problemType)
        if not _inside[0]:
            LOG.call("solves")
            look(simu, problemType)
        return out

    _Simu._Solver_Solve_problemType = solve


# ------------------------------------------------------------------------------------------
def install_stale(limit_dofs=1500, every=None):
    """Get_K_C_M_F answered without assembling (nothing flagged): the matrices handed out must be those a copy of the
    simulation, told that everything changed, assembles now from the same mesh, model, parameters and state."""
    from EasyFEA.Simulations._simu import _Simu

    orig = _Simu.Get_K_C_M_F
    orig_assembly = _Simu.Assembly
    hits = [0]
    if every is None:
        # with the hostile parameter changes switched on, every answer from the cache is examined
        every = 1 if "perturb" in os.environ.get("VERIFMON_MONITORS", "") else 3

    @guarded("stale")
    def look(simu, problemType, out):
        if out[0].shape[0] > limit_dofs:
            LOG.call("stale-skipped-size")
            return
        try:
            twin = copy.deepcopy(simu)
        except Exception:  # noqa: BLE001
            LOG.call("stale-skipped-uncopyable")
            return
        twin.Need_Update()
        m = getattr(twin, "model", None)
        if m is not None and hasattr(m, "Need_Update"):
            m.Need_Update()
        for obj in (twin,):
            c = obj.__dict__.get("__cachedComputedValues")
            if isinstance(c, dict):
                c.clear()
        ref = orig(twin, problemType) if problemType is not None else orig(twin)
        kind = type(simu).__name__
        for name, a, b in zip("KCMF", out, ref):
            if simu.isNonLinear and name != "M":
                # the tangent and the residual kept by a non-linear simulation are those of its last Newton iteration (assembled
                # from the iterate and the state at the start of the step), not a function of the state it holds now
                continue
            a, b = a.toarray(), b.toarray()
            if a.shape != b.shape:
                LOG.check("C14", "cache-equals-recomputed", f"C14/suite/{kind}/{name}", np.inf, 1e-10, shapes=[list(a.shape), list(b.shape)])
                continue
            sc = np.abs(b).max()
            err = np.abs(a - b).max() / sc if sc > 0 else np.abs(a).max()
            LOG.check("C14", "cache-equals-recomputed", f"C14/suite/{kind}/{name}", err, 1e-10, Ndof=int(a.shape[0]))

    def Get_K_C_M_F(simu, problemType=None):
        if _inside[0]:
            return orig(simu, problemType) if problemType is not None else orig(simu)
        n0 = LOG.calls.get("assembly-any", 0)
        out = orig(simu, problemType) if problemType is not None else orig(simu)
        served_from_cache = LOG.calls.get("assembly-any", 0) == n0
        if served_from_cache:
            hits[0] += 1
            LOG.call("cache-hits")
            if every == 1 or hits[0] % every == 1:
                look(simu, problemType, out)
        return out

    # count assemblies whatever other monitor wrapped Assembly
    cur = _Simu.Assembly

    def Assembly(simu, problemType):
        if not _inside[0]:
            LOG.call("assembly-any")
        return cur(simu, problemType)

    _Simu.Assembly = Assembly
    _Simu.Get_K_C_M_F = Get_K_C_M_F
    _ = orig_assembly


# ------------------------------------------------------------------------------------------
def install_integrate():
    from EasyFEA.Models.InElastic._behavior import Behavior

    orig = Behavior.Integrate

    def Integrate(self, *args, **kwargs):
        if _inside[0]:
            return orig(self, *args, **kwargs)
        snap = [np.array(a, copy=True) if isinstance(a, np.ndarray) else None for a in args]
        ksnap = {k: np.array(v, copy=True) for k, v in kwargs.items() if isinstance(v, np.ndarray)}
        out = orig(self, *args, **kwargs)
        LOG.call("integrate")
        look(self, args, kwargs, snap, ksnap, out)
        return out

    @guarded("integrate")
    def look(beh, args, kwargs, snap, ksnap, out):
        same = all(s is None or (np.asarray(a).shape == s.shape and np.array_equal(np.asarray(a), s, equal_nan=True)) for a, s in zip(args, snap))
        same = same and all(np.array_equal(np.asarray(kwargs[k]), s, equal_nan=True) for k, s in ksnap.items())
        k = f"C19/suite/{beh.dim}D"
        LOG.check("C19", "pure", k + "/arguments-untouched", 0.0 if same else np.inf, 0.0)
        sig, Ct, znew, conv = out
        sig, znew = np.asarray(sig, float), np.asarray(znew, float)
        conv = np.broadcast_to(np.asarray(conv, bool), znew.shape[:-1])
        if conv.any():
            fin = np.isfinite(sig[conv]).all() and np.isfinite(znew[conv]).all()
            if isinstance(Ct, np.ndarray) and Ct.ndim >= 4:
                fin = fin and np.isfinite(np.asarray(Ct, float)[conv]).all()
            LOG.check("C19", "finite", k + "/finite-where-converged", 0.0 if fin else np.inf, 0.0)
            sl = beh.layout.slots
            zold = args[1] if len(args) > 1 else kwargs.get("zOld_e_pg")
            if "p" in sl and zold is not None:
                dp = znew[..., sl["p"]][..., 0] - np.asarray(zold, float)[..., sl["p"]][..., 0]
                LOG.check("C19", "p-monotone", k + "/dp>=0", float(np.max(-dp[conv])), 1e-12)

    Behavior.Integrate = Integrate


# ------------------------------------------------------------------------------------------
def install_fearray(sample=3):
    from EasyFEA.FEM._linalg import FeArray

    rng = np.random.default_rng(0)

    def wrap(name, ref):
        orig = getattr(FeArray, name)

        @guarded("fearray")
        def look(a, b, out):
            if type(a) is not FeArray or type(b) is not FeArray:
                return
            A, B, O = np.asarray(a), np.asarray(b), np.asarray(out)
            if A.ndim < 3 or B.ndim < 3:
                return  # scalar fields: no contraction to compare
            if name == "__matmul__" and (A.ndim > 4 or B.ndim > 4):
                return  # @ is judged for vectors and matrices (the per-point meaning of higher ranks is dot's)
            Ne, nPg = np.broadcast_shapes(A.shape[:2], B.shape[:2])
            k = f"C12/suite/{name}/r{A.ndim - 2}r{B.ndim - 2}"
            if not isinstance(out, FeArray) or O.shape[:2] != (Ne, nPg):
                LOG.check("C12", "type-rule", k + "/type", np.inf, 0.0, got=type(out).__name__, shape=list(O.shape), want=[Ne, nPg])
                return
            LOG.check("C12", "type-rule", k + "/type", 0.0, 0.0)
            worst = 0.0
            for _ in range(sample):
                e, p = int(rng.integers(Ne)), int(rng.integers(nPg))
                x = A[e if A.shape[0] > 1 else 0, p if A.shape[1] > 1 else 0]
                y = B[e if B.shape[0] > 1 else 0, p if B.shape[1] > 1 else 0]
                try:
                    w = ref(x, y)
                except Exception:  # noqa: BLE001
                    return
                g = O[e, p]
                if np.shape(g) != np.shape(w):
                    worst = np.inf
                    break
                sc = max(float(np.linalg.norm(x) * np.linalg.norm(y)), 1e-300)   # (a contraction may cancel)
                with np.errstate(all="ignore"):
                    worst = max(worst, float(np.abs(g - w).max() / sc) if np.all(np.isfinite(w)) else 0.0)
            LOG.check("C12", "values", k + "/values", worst, 1e-10, shapes=[list(A.shape), list(B.shape)])

        def method(self, other, *a, **kw):
            out = orig(self, other, *a, **kw)
            if not _inside[0] and not a and not kw:
                LOG.call("fearray-" + name)
                look(self, other, out)
            return out

        setattr(FeArray, name, method)

    wrap("__matmul__", lambda x, y: x @ y)
    wrap("dot", lambda x, y: np.tensordot(x, y, axes=1))
    wrap("ddot", lambda x, y: np.tensordot(x, y, axes=2))


# ------------------------------------------------------------------------------------------
def install_timestep(limit_dofs=4000):
    """Every solve under a parabolic / hyperbolic scheme: the rates stored after the step are those the documented scheme
    derives from the previous state and the new solution (executable model verifmon.ref.time_schemes); for the linear
    simulations the discrete equation of motion holds on the free dofs at the scheme's evaluation point."""
    from EasyFEA.Simulations._simu import _Simu

    from ..ref import time_schemes as ts

    orig = _Simu._Solver_Solve_problemType

    def params(simu):
        algo = str(getattr(simu.algo, "value", simu.algo))
        if algo == "elliptic":
            return algo, None
        if algo == "parabolic":
            dt, alpha = simu._Simu__Solver_Get_Parabolic_Params()
            return algo, {"dt": float(dt), "alpha": float(alpha), "beta": 0.25, "gamma": 0.5}
        dt, beta, gamma, alpha = simu._Simu__Solver_Get_Hyperbolic_Params()
        return algo, {"dt": float(dt), "alpha": float(alpha), "beta": float(beta), "gamma": float(gamma)}

    @guarded("timestep")
    def look(simu, pt, algo, p, before):
        if algo not in ts.ALL:
            return
        un, vn, an = before
        u1, v1, a1 = (np.asarray(x, float) for x in (simu._Get_u_n(pt), simu._Get_v_n(pt), simu._Get_a_n(pt)))
        if u1.size > limit_dofs or un.shape != u1.shape:
            return
        x = a1 if algo == "euler_explicit" else u1
        ref = ts.step(algo, p, un, vn, an, x)
        pe = ts.effective_params(algo, p)
        dt = p["dt"]
        kind = type(simu).__name__
        k = f"C05/suite/{kind}/{algo}"
        sc_u = np.abs(u1).max() + np.abs(un).max() + dt * np.abs(vn).max() + dt**2 * np.abs(an).max() + 1e-300
        if algo == "euler_explicit":
            LOG.check("C05", "update-u", k + "/update-u", np.abs(u1 - ref["u1"]).max() / sc_u, 1e-12)
            LOG.check("C05", "update-v", k + "/update-v", np.abs(v1 - ref["v1"]).max() / (np.abs(vn).max() + dt * np.abs(a1).max() + 1e-300), 1e-12)
        elif algo == "parabolic":
            LOG.check("C05", "update-v", k + "/update-v", np.abs(v1 - ref["v1"]).max() / (sc_u / (pe["alpha"] * dt)), 1e-10, dt=dt, alpha=pe["alpha"])
        else:
            beta = pe["beta"] if algo != "euler_implicit" else 1.0
            sc_a = sc_u / (min(beta, 0.25) * dt**2)
            sc_v = sc_u / dt + dt * sc_a
            LOG.check("C05", "update-v", k + "/update-v", np.abs(v1 - ref["v1"]).max() / sc_v, 1e-10, dt=dt)
            LOG.check("C05", "update-a", k + "/update-a", np.abs(a1 - ref["a1"]).max() / sc_a, 1e-10, dt=dt)
        if simu.isNonLinear or len(simu.Bc_Lagrange) > 0:
            return
        K, C, M, F = simu.Get_K_C_M_F(pt)
        n = un.size
        K, C, M = K[:n, :n], C[:n, :n], M[:n, :n]
        b = F.toarray().ravel()[:n] + np.asarray(simu.Bc_vector_Neumann(pt), float)[:n]
        known = np.unique(np.asarray(simu.Bc_dofs_Dirichlet(pt), int))
        used = np.unique(np.concatenate([g.connect.ravel() for g in simu.mesh.Get_list_groupElem(simu.mesh.dim)]))
        dof_n = simu.Get_dof_n(pt)
        ud = (used[:, None] * dof_n + np.arange(dof_n)).ravel()
        free = np.setdiff1d(ud, known)
        if not len(free):
            return
        ut, vt, at = ref["ut"], ref["vt"], ref["at"]
        r = K @ ut + C @ vt - b
        rows = np.asarray(abs(K) @ np.abs(ut) + abs(C) @ np.abs(vt)).ravel() + np.abs(b)
        if at is not None:
            r = r + M @ at
            rows = rows + np.asarray(abs(M) @ np.abs(at)).ravel()
        wK, wC, wM = ts.weights(algo, p)
        rows = rows + np.asarray(abs(wK * K + wC * C + wM * M) @ np.abs(x)).ravel()
        LOG.check("C05", "equation-of-motion", k + "/equation", float(np.max(np.abs(r[free]) / np.maximum(rows[free], 1e-300))), 1e-9, dt=dt, n_free=int(len(free)))

    def solve(simu, problemType):
        if _inside[0]:
            return orig(simu, problemType)
        try:
            algo, p = params(simu)
            before = tuple(np.array(x, dtype=float, copy=True) for x in (simu._Get_u_n(problemType), simu._Get_v_n(problemType), simu._Get_a_n(problemType))) if p else None
        except Exception as e:  # noqa: BLE001
            LOG.monitor_error("timestep-pre", e)
            algo, p, before = "elliptic", None, None
        out = orig(simu, problemType)
        if p is not None:
            LOG.call("time-steps")
            look(simu, problemType, algo, p, before)
        return out

    _Simu._Solver_Solve_problemType = solve


# ------------------------------------------------------------------------------------------
def install_history(sample=2, limit=400_000):
    """Stored iterations never change: a digest of every iteration is taken when Save_Iter returns; at every later Save_Iter /
    Set_Iter on the same simulation a few earlier iterations are read back (Get_results) and must have the digest they were
    stored with. Right after Save_Iter the stored primary fields equal the live state."""
    import hashlib
    import weakref

    from EasyFEA.Simulations._simu import _Simu

    reg: "weakref.WeakKeyDictionary" = weakref.WeakKeyDictionary()
    rng = np.random.default_rng(1)
    o_save, o_set = _Simu.Save_Iter, _Simu.Set_Iter

    def digest(d):
        h = hashlib.sha1()
        size = 0

        def feed(v):
            nonlocal size
            if isinstance(v, dict):
                for k_ in sorted(v, key=str):
                    h.update(str(k_).encode())
                    feed(v[k_])
            elif isinstance(v, np.ndarray):
                size += v.size
                h.update(str(v.shape).encode())
                h.update(np.ascontiguousarray(v).tobytes())
            elif isinstance(v, (list, tuple)):
                for x_ in v:
                    feed(x_)
            else:
                h.update(repr(v).encode())

        feed(d)
        return h.hexdigest(), size

    @guarded("history")
    def after_save(simu):
        n = simu.Niter
        lst = reg.setdefault(simu, {})
        if lst and max(lst) >= n:
            lst.clear()  # the history was reset
        res = simu.Get_results(n - 1)
        dg, size = digest(res)
        if size <= limit:
            lst[n - 1] = dg
        kind = type(simu).__name__
        # the primary fields of the new entry are the live ones
        worst = 0.0
        for name in ("displacement", "thermal", "u", "damage"):
            if name in res and isinstance(res[name], np.ndarray) and hasattr(type(simu), name):
                live = np.asarray(getattr(simu, name))
                worst = max(worst, 0.0 if (live.shape == res[name].shape and np.array_equal(live, res[name])) else np.inf)
        LOG.check("C15", "saved-equals-live", f"C15/suite/{kind}/Save_Iter/primary-fields", worst, 0.0)

    @guarded("history")
    def verify(simu, via):
        lst = reg.get(simu)
        if not lst:
            return
        kind = type(simu).__name__
        keys = list(lst)
        for i in rng.choice(keys, size=min(sample, len(keys)), replace=False):
            i = int(i)
            if i >= simu.Niter:
                continue
            dg, _ = digest(simu.Get_results(i))
            LOG.check("C15", "stored-unchanged", f"C15/suite/{kind}/stored-iteration-unchanged@{via}", 0.0 if dg == lst[i] else np.inf, 0.0, iteration=i, Niter=int(simu.Niter))

    def Save_Iter(simu, *a, **k):
        if _inside[0]:
            return o_save(simu, *a, **k)
        verify(simu, "Save_Iter")
        out = o_save(simu, *a, **k)
        LOG.call("save-iter")
        after_save(simu)
        return out

    def Set_Iter(simu, *a, **k):
        if _inside[0]:
            return o_set(simu, *a, **k)
        out = o_set(simu, *a, **k)
        LOG.call("set-iter")
        verify(simu, "Set_Iter")
        return out

    _Simu.Save_Iter = Save_Iter
    _Simu.Set_Iter = Set_Iter


# ------------------------------------------------------------------------------------------
def install_phasefield(every=5, limit=60000):
    """Phase-field splits and irreversibility under any workload: the two parts returned by a split are finite and add up to
    the undamaged stress / energy of the strain they were given; from one Save_Iter to the next on the same simulation (no
    restore, no new mesh in between) the history energy (History solver) and the nodal damage (damage-based solvers) do
    not decrease."""
    import weakref

    from EasyFEA.Models._phasefield import PhaseField as Model
    from EasyFEA.Simulations._phasefield import PhaseField as Simu
    from EasyFEA.Simulations._simu import _Simu

    count = [0]

    def undamaged(model, eps):
        C = np.asarray(model.material.C, float)
        e = np.asarray(eps, float)
        if C.ndim == 3:
            C = C[:, None]
        sig = np.einsum("...ij,...j->...i", C, e)
        return sig, 0.5 * np.einsum("...i,...i->...", sig, e)

    def wrap(name, kind):
        orig = getattr(Model, name)

        @guarded("phasefield")
        def look(model, eps, out):
            e = np.asarray(eps, float)
            if e.size > limit or e.ndim != 3:
                return
            a, b = (np.asarray(x, float) for x in out)
            split = str(model.split)
            k = f"C17/suite/{split}/{model.dim}D/{kind}"
            fin = bool(np.isfinite(a).all() and np.isfinite(b).all())
            LOG.check("C17", "finite", k + "/finite", 0.0 if fin else np.inf, 0.0, n=int(e.shape[0] * e.shape[1]))
            if not fin:
                return
            Cn = np.abs(np.asarray(model.material.C)).max()
            if kind == "stiffness":
                C = np.asarray(model.material.C, float)
                if C.ndim == 3:
                    C = C[:, None]
                LOG.check("C17", "partition-stiffness", k + "/sum", np.abs(a + b - C).max() / Cn, 1e-9)
                return
            sig, psi = undamaged(model, e)
            want = sig if kind == "stress" else psi
            en = np.sqrt(np.einsum("...i,...i->...", e, e)).max()
            sc = (Cn * en if kind == "stress" else Cn * en * en) + 1e-300
            LOG.check("C17", "partition-" + kind, k + "/sum", np.abs(a + b - want).max() / sc, 1e-9)

        def method(self, eps, *a, **kw):
            out = orig(self, eps, *a, **kw)
            if not _inside[0]:
                count[0] += 1
                LOG.call("split-calls")
                if count[0] % every == 1:
                    look(self, eps, out)
            return out

        setattr(Model, name, method)

    wrap("Calc_psi_e_pg", "energy")
    wrap("Calc_Sigma_e_pg", "stress")
    wrap("Calc_C", "stiffness")

    prev: "weakref.WeakKeyDictionary" = weakref.WeakKeyDictionary()
    o_save, o_set = Simu.Save_Iter, Simu.Set_Iter
    o_mesh = _Simu.mesh

    @guarded("phasefield")
    def after_save(simu):
        res = simu.Get_results(simu.Niter - 1)
        solver = str(simu.phaseFieldModel.solver)
        regu = str(simu.phaseFieldModel.regularization)
        cur = {"mesh": id(simu.mesh), "Niter": simu.Niter, "d": np.array(res["damage"], float, copy=True),
               "H": {str(k_): np.array(v_, float, copy=True) for k_, v_ in (res.get("psiP_history") or {}).items()}}
        p = prev.get(simu)
        prev[simu] = cur
        if p is None or p.get("broken") or p["mesh"] != cur["mesh"] or p["Niter"] + 1 != cur["Niter"]:
            return
        k = f"C17/suite/{solver}/{regu}"
        if solver == "History":
            for g, H in cur["H"].items():
                H0 = p["H"].get(g)
                if H0 is None or H0.shape != H.shape:
                    continue
                LOG.check("C17", "history-monotone", k + "/history-field", float(np.max(H0 - H)) / (np.abs(H0).max() + 1e-300), 1e-12, Niter=cur["Niter"])
        else:
            if p["d"].shape == cur["d"].shape:
                LOG.check("C17", "damage-monotone", k + "/nodal-damage", float(np.max(p["d"] - cur["d"])), 1e-10, Niter=cur["Niter"])

    def Save_Iter(simu, *a, **k):
        out = o_save(simu, *a, **k)
        if not _inside[0]:
            LOG.call("phasefield-saves")
            after_save(simu)
        return out

    def Set_Iter(simu, *a, **k):
        out = o_set(simu, *a, **k)
        if not _inside[0] and simu in prev:
            prev[simu]["broken"] = True  # the next saved step does not follow the previous saved one
        return out

    Simu.Save_Iter = Save_Iter
    Simu.Set_Iter = Set_Iter
    _ = o_mesh


# ------------------------------------------------------------------------------------------
def install_location(max_elems=60):
    """Point location: the reference coordinates returned for a point, pushed through the element's own shape functions and
    node coordinates, give back the point that was asked for."""
    from EasyFEA.FEM._group_elem import _GroupElem

    orig = _GroupElem._Get_Mapping
    rng = np.random.default_rng(2)

    @guarded("location")
    def look(g, coordinates_n, out):
        detectedNodes, detectedElements_e, connect_e_n, xi_n = out
        if xi_n is None or g.dim != g.inDim or len(detectedElements_e) == 0:
            return
        X = np.asarray(g.coordGlob if hasattr(g, "coordGlob") else g.coord, float)
        pts = np.asarray(coordinates_n, float)
        Nt = g._N()
        # a point on a shared face is detected in several elements; the reference coordinates kept for it are those of the
        # element that detected it last (the elements are visited in the order of the returned list)
        owner = {}
        for kk in range(len(detectedElements_e)):
            for i_ in np.asarray(connect_e_n[kk], int).tolist():
                owner[i_] = kk
        pick = np.arange(len(detectedElements_e))
        if len(pick) > max_elems:
            pick = rng.choice(pick, max_elems, replace=False)
        worst = 0.0
        npts = 0
        for kk in pick:
            e = int(detectedElements_e[kk])
            idx = np.asarray([i_ for i_ in np.asarray(connect_e_n[kk], int).tolist() if owner[i_] == kk], int)
            if idx.size == 0:
                continue
            Xe = X[g.connect[e]][:, : g.dim]
            h = float(np.linalg.norm(Xe.max(0) - Xe.min(0))) + 1e-300
            N = np.asarray(_GroupElem._Eval_Functions(Nt, np.asarray(xi_n[idx], float).reshape(len(idx), -1)), float)  # (n, 1, nPe)
            xr = N[:, 0, :] @ Xe
            worst = max(worst, float(np.abs(xr - pts[idx][:, : g.dim]).max()) / h)
            npts += len(idx)
        LOG.call("located-points", npts)
        LOG.check("C08", "location-roundtrip", f"C08/suite/{g.elemType.value}/N(xi).X=x", worst, 1e-6, elements=int(len(pick)), points=npts)

    def _Get_Mapping(self, coordinates_n, elements_e, needCoordinates=False, *a, **k):
        out = orig(self, coordinates_n, elements_e, needCoordinates, *a, **k)
        if not _inside[0] and needCoordinates:
            LOG.call("mapping-calls")
            look(self, coordinates_n, out)
        return out

    _GroupElem._Get_Mapping = _Get_Mapping


# ------------------------------------------------------------------------------------------
def install_perturb(prob=0.5, rel=1e-6):
    """Not a monitor but a hostile variation of the workload, for the 'stale' monitor to judge: right before a solve, one
    numeric parameter of the simulation's model (or of the material / elastic law / beams it is built from, or the density)
    is re-assigned a value changed by a relative 1e-6 through its public attribute. The library must take the change into
    account by itself; whether it did is what 'cache equals recomputed' then observes."""
    from EasyFEA.Simulations._simu import _Simu
    from EasyFEA.Utilities import _params

    rng = np.random.default_rng(3)
    orig = _Simu._Solver_Solve_problemType
    NUMERIC = (_params.PositiveParameter, _params.PositiveScalarParameter, _params.ScalarParameter, _params.ScalarOrFieldParameter,
               _params.IntervalccParameter, _params.IntervalooParameter, _params.NegativeParameter)

    def candidates(simu):
        objs = []
        m = getattr(simu, "model", None)
        if m is not None:
            objs.append(m)
            for nm in ("material", "elastic"):
                try:
                    sub = getattr(m, nm, None)
                except Exception:  # noqa: BLE001
                    sub = None
                if sub is not None and not callable(sub):
                    objs.append(sub)
            try:
                objs += list(getattr(m, "beams", []) or [])
            except Exception:  # noqa: BLE001
                pass
        out = []
        for o in objs:
            for klass in type(o).__mro__:
                for nm, d in vars(klass).items():
                    if isinstance(d, NUMERIC):
                        out.append((o, nm))
        return out

    @guarded("perturb")
    def nudge(simu):
        cands = candidates(simu)
        if not cands:
            return
        o, nm = cands[int(rng.integers(len(cands)))]
        try:
            cur = getattr(o, nm)
        except Exception:  # noqa: BLE001
            return
        if isinstance(cur, bool) or not isinstance(cur, (int, float, np.ndarray)):
            return
        if isinstance(cur, np.ndarray) and cur.dtype.kind != "f":
            return
        new = cur * (1.0 + rel) if np.all(np.asarray(cur) != 0) else cur
        try:
            setattr(o, nm, new)
        except Exception:  # noqa: BLE001 - a value at the edge of its admissible interval: not a change the user could make either
            return
        LOG.call("perturbed")
        LOG.call("perturbed:" + type(o).__name__ + "." + nm)

    def solve(simu, problemType):
        if not _inside[0] and rng.random() < prob:
            nudge(simu)
        return orig(simu, problemType)

    _Simu._Solver_Solve_problemType = solve


# ------------------------------------------------------------------------------------------
def install_loads():
    """Distributed loads entered with CONSTANT intensities on straight-sided linear elements: the nodal forces the call adds
    sum, per unknown, to intensity x measure of the loaded region (x thickness where the call applies it); the measure is
    taken from the vertices of the elements whose nodes are all selected, with the harness' own geometry."""
    from EasyFEA.Simulations._simu import _Simu

    from ..ref import geometry as geo

    LINEAR = {"SEG2", "TRI3", "QUAD4", "TETRA4", "HEXA8", "PRISM6"}

    def wrap(name, ldim_of, factor_of):
        orig = getattr(_Simu, name)

        @guarded("loads")
        def look(simu, before, nodes, values, unknowns, problemType):
            kind = type(simu).__name__
            if kind == "Beam":
                return
            pt = problemType if problemType is not None else simu.problemType
            mesh = simu.mesh
            ldim = ldim_of(mesh.dim)
            nodes = np.unique(np.asarray(nodes, int))
            sel = np.zeros(mesh.Nn, bool)
            sel[nodes] = True
            measure = 0.0
            for g in mesh.Get_list_groupElem(ldim):
                if g.elemType.name not in LINEAR:
                    return
                el = np.where(sel[g.connect].all(axis=1))[0]
                if el.size == 0:
                    continue
                if g.elemType.name == "QUAD4":
                    V = mesh.coord[g.connect[el]]
                    nrm = np.cross(V[:, 1] - V[:, 0], V[:, 2] - V[:, 0])
                    off = np.abs(np.einsum("ei,ei->e", nrm, V[:, 3] - V[:, 0])) / (np.linalg.norm(nrm, axis=1) ** 1.5 + 1e-300)
                    if off.max() > 1e-9:
                        return  # warped faces: the vertex formula is not the area of the bilinear surface
                measure += float(geo.element_measures(g.elemType.name, mesh.coord, g.connect[el]).sum())
            after = np.asarray(simu.Bc_vector_Neumann(pt), float)
            d = after - before
            dof_n = simu.Get_dof_n(pt)
            all_un = list(simu.Get_unknowns(pt))
            th = float(getattr(simu.model, "thickness", 1.0))
            fac = factor_of(mesh.dim, th)
            for val, un in zip(values, unknowns):
                if not isinstance(val, (int, float)) or isinstance(val, bool):
                    continue
                tot = float(d[all_un.index(un)::dof_n].sum())
                want = float(val) * measure * fac
                sc = abs(float(val)) * max(measure, 1e-300) * fac + 1e-300
                LOG.check("C09", "resultant-force", f"C09/suite/{name}/{kind}/{mesh.dim}D", abs(tot - want) / sc, 1e-9, value=float(val), measure=measure, factor=fac,
                          got=tot, n_nodes=int(nodes.size))

        def method(simu, nodes, values, unknowns, problemType=None, description=""):
            if _inside[0]:
                return orig(simu, nodes, values, unknowns, problemType, description)
            before = None
            try:
                _inside[0] += 1
                pt = problemType if problemType is not None else simu.problemType
                before = np.asarray(simu.Bc_vector_Neumann(pt), float).copy()
            except Exception:  # noqa: BLE001
                before = None
            finally:
                _inside[0] -= 1
            out = orig(simu, nodes, values, unknowns, problemType, description)
            if before is not None and len(np.atleast_1d(nodes)) and len(values) == len(unknowns):
                LOG.call("loads-" + name)
                look(simu, before, nodes, values, unknowns, problemType)
            return out

        setattr(_Simu, name, method)

    wrap("add_lineLoad", lambda dim: 1, lambda dim, th: 1.0)
    wrap("add_surfLoad", lambda dim: 1 if dim == 2 else 2, lambda dim, th: th if dim == 2 else 1.0)
    wrap("add_volumeLoad", lambda dim: dim, lambda dim, th: th if dim == 2 else 1.0)


# ------------------------------------------------------------------------------------------
def install_results():
    """Named results as any caller gets them: a displacement component is the corresponding column of the solution the simulation
    holds, the displacement norm is its row norm, and a stress / strain component, an equivalent value or an element-wise energy
    comes as one value per node when asked at nodes and one per element when asked at elements."""
    import EasyFEA.Simulations as S

    classes = [getattr(S, n) for n in ("Elastic", "Thermal", "Beam", "WeakForms", "PhaseField", "HyperElastic", "InElastic") if hasattr(S, n)]
    comp = {"ux": 0, "uy": 1, "uz": 2}
    tensorlike = {"Svm", "Evm", "Wdef_e", "ZZ1_e"} | {a + b for a in "SE" for b in ("xx", "yy", "zz", "yz", "xz", "xy")}

    def wrap(cls):
        orig = cls.__dict__.get("Result")
        if orig is None:
            return

        @guarded("results")
        def look(simu, name, nodeValues, it, out):
            if out is None or it is not None:
                return
            kind = type(simu).__name__
            mesh = simu.mesh
            Nn, Ne = mesh.Nn, mesh.Ne
            arr = np.asarray(out)
            k = f"C16/suite/{kind}"
            if name in comp and nodeValues and kind != "WeakForms":
                pt = simu.ProblemTypes.elastic if kind == "PhaseField" else simu.problemType
                dof_n = simu.Get_dof_n(pt)
                U = np.asarray(simu._Get_u_n(pt), float).reshape(Nn, dof_n)
                if comp[name] < dof_n and arr.shape == (Nn,):
                    sc = np.abs(U).max() + 1e-300
                    LOG.check("C16", "component", k + "/displacement-component", float(np.abs(arr - U[:, comp[name]]).max() / sc), 1e-12, name=name)
            if name == "displacement_norm" and nodeValues and kind not in ("WeakForms", "Thermal", "Beam"):
                pt = simu.ProblemTypes.elastic if kind == "PhaseField" else simu.problemType
                dof_n = simu.Get_dof_n(pt)
                U = np.asarray(simu._Get_u_n(pt), float).reshape(Nn, dof_n)
                if arr.shape == (Nn,):
                    LOG.check("C16", "component", k + "/displacement-norm", float(np.abs(arr - np.linalg.norm(U, axis=1)).max() / (np.abs(U).max() + 1e-300)), 1e-12)
            if name in tensorlike and arr.ndim >= 1 and arr.size > 1:
                want = Nn if (nodeValues and not name.endswith("_e")) else Ne
                suffix = "@size-collision" if (Nn % Ne == 0 or Ne % Nn == 0) else ""
                LOG.check("C16", "conversion", k + "/values-per-node-or-element" + suffix, 0.0 if arr.shape[0] == want else np.inf, 0.0, name=name, nodeValues=bool(nodeValues),
                          shape=list(arr.shape), Nn=Nn, Ne=Ne)

        def Result(self, result, nodeValues=True, iter=None, *a, **kw):
            out = orig(self, result, nodeValues, iter, *a, **kw)
            if not _inside[0]:
                LOG.call("result-calls")
                look(self, result, nodeValues, iter, out)
            return out

        cls.Result = Result

    for c in classes:
        wrap(c)


INSTALLERS = {"law": install_law, "assembly": install_assembly, "bc": install_bc, "stale": install_stale, "integrate": install_integrate,
              "fearray": install_fearray, "timestep": install_timestep, "history": install_history, "phasefield": install_phasefield, "location": install_location, "perturb": install_perturb, "loads": install_loads, "results": install_results}


def install(names, out_path):
    # order matters: 'stale' counts assemblies through whatever wraps Assembly before it
    for n in ["perturb", "law", "assembly", "bc", "timestep", "integrate", "fearray", "phasefield", "location", "loads", "results", "history", "stale"]:
        if n in names:
            try:
                INSTALLERS[n]()
                LOG.call("installed-" + n)
            except Exception as e:  # noqa: BLE001
                LOG.monitor_error("install-" + n, e)

    def dump(*_):
        try:
            LOG.dump(out_path)
        except Exception:  # noqa: BLE001
            pass

    atexit.register(dump)

    def on_term(signum, frame):
        dump()
        os._exit(143)

    try:
        signal.signal(signal.SIGTERM, on_term)
    except Exception:  # noqa: BLE001
        pass
    return dump
