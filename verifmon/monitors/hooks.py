"""Global monitors: invariants asserted at hooks of the real code while SOMEBODY ELSE's workload runs (the repository's
own tests, its example scripts). Nothing here knows the workload; every monitor decides from the arguments and the
result of one call, and from the object's own state at that moment.

A monitor never raises into the observed program and never changes what a call returns. Observations are aggregated
per (property, key): number of evaluations, worst error, tolerance, and the first few failing witnesses.

    law        C11  every freshly updated elastic law: C symmetric, positive definite, C.S = I
    assembly   C03  every _Simu.Assembly: K, C, M, F equal the scatter-add of the element arrays built during that call
               C02  ... and K of Elastic / Thermal / Beam simulations is symmetric
    bc         C04  after every solve of a problem type: the solution carries the prescribed values on the Dirichlet dofs
    stale      C14  Get_K_C_M_F served from the simulation's cache equals what a copy of the simulation assembles anew
    integrate  C19  Behavior.Integrate: arguments untouched, outputs finite where converged, p never decreases
    fearray    C12  FeArray @ / dot / ddot between two fields: the pointwise product at sampled (element, point) pairs
"""

from __future__ import annotations

import atexit
import copy
import json
import os
import signal
import sys
import time

import numpy as np

MAX_WITNESS = 4


class Log:
    def __init__(self):
        self.rec: dict[str, dict] = {}
        self.calls: dict[str, int] = {}
        self.errors: list[str] = []
        self.t0 = time.time()

    def call(self, name: str, n: int = 1):
        self.calls[name] = self.calls.get(name, 0) + n

    def check(self, prop: str, oracle: str, key: str, err: float, tol: float, **detail):
        r = self.rec.setdefault(key, {"property": prop, "oracle": oracle, "n": 0, "failed": 0, "worst": 0.0, "tol": tol, "witness": []})
        r["n"] += 1
        try:
            err = float(err)
        except Exception:  # noqa: BLE001
            err = float("inf")
        bad = not (err <= tol)
        if err == err and err > r["worst"]:
            r["worst"] = err
        if bad:
            r["failed"] += 1
            if len(r["witness"]) < MAX_WITNESS:
                d = {k: _js(v) for k, v in detail.items()}
                d["err"] = err if err == err else "nan"
                d["where"] = os.environ.get("PYTEST_CURRENT_TEST", os.environ.get("VERIFMON_SCRIPT", ""))
                r["witness"].append(d)

    def monitor_error(self, name: str, e: BaseException):
        if len(self.errors) < 20:
            import traceback

            tb = traceback.extract_tb(e.__traceback__)
            where = f"{os.path.basename(tb[-1].filename)}:{tb[-1].lineno}" if tb else "?"
            self.errors.append(f"{name}: {type(e).__name__}: {str(e)[:200]} @ {where}")

    def dump(self, path: str):
        out = {"records": self.rec, "calls": self.calls, "monitor_errors": self.errors, "wall_s": round(time.time() - self.t0, 2),
               "where": os.environ.get("VERIFMON_SCRIPT", "")}
        tmp = path + ".tmp"
        with open(tmp, "w") as f:
            json.dump(out, f, default=_js)
        os.replace(tmp, path)


def _js(v):
    if isinstance(v, np.ndarray):
        return v.tolist() if v.size <= 12 else {"shape": list(v.shape), "absmax": float(np.abs(v).max()) if v.size else 0.0}
    if isinstance(v, (np.floating, np.integer)):
        return v.item()
    if isinstance(v, (list, tuple)):
        return [_js(x) for x in v]
    if isinstance(v, (str, int, float, bool)) or v is None:
        return v
    return str(v)[:120]


LOG = Log()
_inside = [0]  # re-entrancy guard: calls made BY a monitor are not observed


def guarded(name):
    """Decorator for monitor bodies: never raise into the program, never observe the monitor's own calls."""

    def deco(fn):
        def run(*a, **k):
            if _inside[0]:
                return
            _inside[0] += 1
            try:
                fn(*a, **k)
            except Exception as e:  # noqa: BLE001
                LOG.monitor_error(name, e)
            finally:
                _inside[0] -= 1

        return run

    return deco


# ------------------------------------------------------------------------------------------
def install_law():
    from EasyFEA.Models.Elastic._laws import _Elastic

    pc, ps = _Elastic.__dict__["C"], _Elastic.__dict__["S"]

    @guarded("law")
    def look(law, C):
        S = ps.fget(law)
        C = np.asarray(C, float)
        S = np.asarray(S, float)
        kind = type(law).__name__
        k = f"C11/suite/{kind}/{law.dim}D"
        sc = np.abs(C).max()
        LOG.check("C11", "C-symmetric", k + "/C-symmetric", np.abs(C - np.swapaxes(C, -1, -2)).max() / sc, 1e-12)
        lam = np.linalg.eigvalsh(0.5 * (C + np.swapaxes(C, -1, -2)))
        LOG.check("C11", "C-spd", k + "/C-spd", max(0.0, float(-(lam.min(-1) / lam.max(-1)).min()) + 1e-9), 1e-9, lam_min=float(lam.min()))
        LOG.check("C11", "C-times-S", k + "/C-times-S", np.abs(C @ S - np.eye(C.shape[-1])).max(), 1e-9, shape=list(C.shape))

    def getC(self):
        was = bool(self.needUpdate)
        out = pc.fget(self)
        if was:
            LOG.call("law-updates")
            look(self, out)
        return out

    _Elastic.C = property(getC, pc.fset, pc.fdel, pc.__doc__)


# ------------------------------------------------------------------------------------------
def install_assembly(limit_dofs=2500):
    from EasyFEA.Simulations._simu import _Simu

    from ..ref import scatter

    orig = _Simu.Assembly

    @guarded("assembly")
    def compare(simu, problemType, captured, out):
        K = out[0]
        Ndof = K.shape[0]
        if len(captured) != 1 or Ndof > limit_dofs:
            LOG.call("assembly-skipped")
            return
        d = captured[0]
        dof_n = simu.Get_dof_n(problemType)
        kind = type(simu).__name__
        k = f"C03/suite/{kind}"
        for slot, name in enumerate("KCM"):
            ref = scatter.scatter_matrix({g: v[slot] for g, v in d.items()}, dof_n, Ndof)
            got = out[slot].toarray()
            sc = np.abs(ref).max()
            err = np.abs(got - ref).max() / sc if sc > 0 else np.abs(got).max()
            LOG.check("C03", "assembly-equals-scatter", f"{k}/{name}", err, 1e-11, Ndof=Ndof, groups=[f"{g.elemType.value}:{g.Ne}" for g in d])
        ref = scatter.scatter_vector({g: v[3] for g, v in d.items()}, dof_n, Ndof)
        got = out[3].toarray().ravel()
        sc = np.abs(ref).max()
        LOG.check("C03", "assembly-equals-scatter", f"{k}/F", np.abs(got - ref).max() / sc if sc > 0 else np.abs(got).max(), 1e-11, Ndof=Ndof)
        if kind in ("Elastic", "Thermal", "Beam"):
            Kd = out[0].toarray()
            sc = np.abs(Kd).max()
            if sc > 0:
                LOG.check("C02", "K-symmetric", f"C02/suite/{kind}/K-symmetric", np.abs(Kd - Kd.T).max() / sc, 1e-10, Ndof=Ndof)

    def Assembly(simu, problemType):
        if _inside[0]:
            return orig(simu, problemType)
        LOG.call("assembly")
        captured = []
        had = "Construct_local_matrix_system" in simu.__dict__
        prev = simu.__dict__.get("Construct_local_matrix_system")
        inner = simu.Construct_local_matrix_system

        def capture(pt):
            d = inner(pt)
            captured.append(d)
            return d

        simu.__dict__["Construct_local_matrix_system"] = capture
        try:
            out = orig(simu, problemType)
        finally:
            if had:
                simu.__dict__["Construct_local_matrix_system"] = prev
            else:
                simu.__dict__.pop("Construct_local_matrix_system", None)
        compare(simu, problemType, captured, out)
        return out

    _Simu.Assembly = Assembly


# ------------------------------------------------------------------------------------------
def install_bc():
    from EasyFEA.Simulations._simu import _Simu

    orig = _Simu._Solver_Solve_problemType

    @guarded("bc")
    def look(simu, problemType):
        dofs = np.asarray(simu.Bc_dofs_Dirichlet(problemType), int)
        vals = np.asarray(simu.Bc_values_Dirichlet(problemType), float)
        if dofs.size == 0:
            return
        # a dof given several times: the entry given last is the one in force
        last = {}
        for d_, v_ in zip(dofs.tolist(), vals.tolist()):
            last[d_] = v_
        dd = np.fromiter(last.keys(), int)
        vv = np.fromiter(last.values(), float)
        u = np.asarray(simu._Get_u_n(problemType), float)
        sc = max(np.abs(u).max(), np.abs(vv).max(), 1e-300)
        kind = type(simu).__name__
        algo = str(getattr(simu.algo, "value", simu.algo))
        LOG.check("C04", "dirichlet-satisfied", f"C04/suite/{kind}/{algo}/dirichlet", np.abs(u[dd] - vv).max() / sc, 1e-9, ndofs=int(dd.size), Ndof=int(u.size),
                  nonlinear=bool(simu.isNonLinear))

    def solve(simu, problemType):
        out = orig(simu, problemType)
        if not _inside[0]:
            LOG.call("solves")
            look(simu, problemType)
        return out

    _Simu._Solver_Solve_problemType = solve


# ------------------------------------------------------------------------------------------
def install_stale(limit_dofs=1500, every=3):
    """Get_K_C_M_F answered without assembling (nothing flagged): the matrices handed out must be those a copy of the
    simulation, told that everything changed, assembles now from the same mesh, model, parameters and state."""
    from EasyFEA.Simulations._simu import _Simu

    orig = _Simu.Get_K_C_M_F
    orig_assembly = _Simu.Assembly
    hits = [0]

    @guarded("stale")
    def look(simu, problemType, out):
        if out[0].shape[0] > limit_dofs:
            LOG.call("stale-skipped-size")
            return
        try:
            twin = copy.deepcopy(simu)
        except Exception:  # noqa: BLE001
            LOG.call("stale-skipped-uncopyable")
            return
        twin.Need_Update()
        m = getattr(twin, "model", None)
        if m is not None and hasattr(m, "Need_Update"):
            m.Need_Update()
        for obj in (twin,):
            c = obj.__dict__.get("__cachedComputedValues")
            if isinstance(c, dict):
                c.clear()
        ref = orig(twin, problemType) if problemType is not None else orig(twin)
        kind = type(simu).__name__
        for name, a, b in zip("KCMF", out, ref):
            a, b = a.toarray(), b.toarray()
            if a.shape != b.shape:
                LOG.check("C14", "cache-equals-recomputed", f"C14/suite/{kind}/{name}", np.inf, 1e-10, shapes=[list(a.shape), list(b.shape)])
                continue
            sc = np.abs(b).max()
            err = np.abs(a - b).max() / sc if sc > 0 else np.abs(a).max()
            LOG.check("C14", "cache-equals-recomputed", f"C14/suite/{kind}/{name}", err, 1e-10, Ndof=int(a.shape[0]))

    def Get_K_C_M_F(simu, problemType=None):
        if _inside[0]:
            return orig(simu, problemType) if problemType is not None else orig(simu)
        n0 = LOG.calls.get("assembly-any", 0)
        out = orig(simu, problemType) if problemType is not None else orig(simu)
        served_from_cache = LOG.calls.get("assembly-any", 0) == n0
        if served_from_cache:
            hits[0] += 1
            LOG.call("cache-hits")
            if hits[0] % every == 1:
                look(simu, problemType, out)
        return out

    # count assemblies whatever other monitor wrapped Assembly
    cur = _Simu.Assembly

    def Assembly(simu, problemType):
        if not _inside[0]:
            LOG.call("assembly-any")
        return cur(simu, problemType)

    _Simu.Assembly = Assembly
    _Simu.Get_K_C_M_F = Get_K_C_M_F
    _ = orig_assembly


# ------------------------------------------------------------------------------------------
def install_integrate():
    from EasyFEA.Models.InElastic._behavior import Behavior

    orig = Behavior.Integrate

    def Integrate(self, *args, **kwargs):
        if _inside[0]:
            return orig(self, *args, **kwargs)
        snap = [np.array(a, copy=True) if isinstance(a, np.ndarray) else None for a in args]
        ksnap = {k: np.array(v, copy=True) for k, v in kwargs.items() if isinstance(v, np.ndarray)}
        out = orig(self, *args, **kwargs)
        LOG.call("integrate")
        look(self, args, kwargs, snap, ksnap, out)
        return out

    @guarded("integrate")
    def look(beh, args, kwargs, snap, ksnap, out):
        same = all(s is None or (np.asarray(a).shape == s.shape and np.array_equal(np.asarray(a), s, equal_nan=True)) for a, s in zip(args, snap))
        same = same and all(np.array_equal(np.asarray(kwargs[k]), s, equal_nan=True) for k, s in ksnap.items())
        k = f"C19/suite/{beh.dim}D"
        LOG.check("C19", "pure", k + "/arguments-untouched", 0.0 if same else np.inf, 0.0)
        sig, Ct, znew, conv = out
        sig, znew = np.asarray(sig, float), np.asarray(znew, float)
        conv = np.broadcast_to(np.asarray(conv, bool), znew.shape[:-1])
        if conv.any():
            fin = np.isfinite(sig[conv]).all() and np.isfinite(znew[conv]).all()
            if isinstance(Ct, np.ndarray) and Ct.ndim >= 4:
                fin = fin and np.isfinite(np.asarray(Ct, float)[conv]).all()
            LOG.check("C19", "finite", k + "/finite-where-converged", 0.0 if fin else np.inf, 0.0)
            sl = beh.layout.slots
            zold = args[1] if len(args) > 1 else kwargs.get("zOld_e_pg")
            if "p" in sl and zold is not None:
                dp = znew[..., sl["p"]][..., 0] - np.asarray(zold, float)[..., sl["p"]][..., 0]
                LOG.check("C19", "p-monotone", k + "/dp>=0", float(np.max(-dp[conv])), 1e-12)

    Behavior.Integrate = Integrate


# ------------------------------------------------------------------------------------------
def install_fearray(sample=3):
    from EasyFEA.FEM._linalg import FeArray

    rng = np.random.default_rng(0)

    def wrap(name, ref):
        orig = getattr(FeArray, name)

        @guarded("fearray")
        def look(a, b, out):
            if type(a) is not FeArray or type(b) is not FeArray:
                return
            A, B, O = np.asarray(a), np.asarray(b), np.asarray(out)
            if A.ndim < 3 or B.ndim < 3:
                return  # scalar fields: no contraction to compare
            if name == "__matmul__" and (A.ndim > 4 or B.ndim > 4):
                return  # @ is judged for vectors and matrices (the per-point meaning of higher ranks is dot's)
            Ne, nPg = np.broadcast_shapes(A.shape[:2], B.shape[:2])
            k = f"C12/suite/{name}/r{A.ndim - 2}r{B.ndim - 2}"
            if not isinstance(out, FeArray) or O.shape[:2] != (Ne, nPg):
                LOG.check("C12", "type-rule", k + "/type", np.inf, 0.0, got=type(out).__name__, shape=list(O.shape), want=[Ne, nPg])
                return
            LOG.check("C12", "type-rule", k + "/type", 0.0, 0.0)
            worst = 0.0
            for _ in range(sample):
                e, p = int(rng.integers(Ne)), int(rng.integers(nPg))
                x = A[e if A.shape[0] > 1 else 0, p if A.shape[1] > 1 else 0]
                y = B[e if B.shape[0] > 1 else 0, p if B.shape[1] > 1 else 0]
                try:
                    w = ref(x, y)
                except Exception:  # noqa: BLE001
                    return
                g = O[e, p]
                if np.shape(g) != np.shape(w):
                    worst = np.inf
                    break
                sc = max(float(np.linalg.norm(x) * np.linalg.norm(y)), 1e-300)   # (a contraction may cancel)
                with np.errstate(all="ignore"):
                    worst = max(worst, float(np.abs(g - w).max() / sc) if np.all(np.isfinite(w)) else 0.0)
            LOG.check("C12", "values", k + "/values", worst, 1e-10, shapes=[list(A.shape), list(B.shape)])

        def method(self, other, *a, **kw):
            out = orig(self, other, *a, **kw)
            if not _inside[0] and not a and not kw:
                LOG.call("fearray-" + name)
                look(self, other, out)
            return out

        setattr(FeArray, name, method)

    wrap("__matmul__", lambda x, y: x @ y)
    wrap("dot", lambda x, y: np.tensordot(x, y, axes=1))
    wrap("ddot", lambda x, y: np.tensordot(x, y, axes=2))


INSTALLERS = {"law": install_law, "assembly": install_assembly, "bc": install_bc, "stale": install_stale, "integrate": install_integrate,
              "fearray": install_fearray}


def install(names, out_path):
    # order matters: 'stale' counts assemblies through whatever wraps Assembly before it
    for n in ["law", "assembly", "bc", "integrate", "fearray", "stale"]:
        if n in names:
            try:
                INSTALLERS[n]()
                LOG.call("installed-" + n)
            except Exception as e:  # noqa: BLE001
                LOG.monitor_error("install-" + n, e)

    def dump(*_):
        try:
            LOG.dump(out_path)
        except Exception:  # noqa: BLE001
            pass

    atexit.register(dump)

    def on_term(signum, frame):
        dump()
        os._exit(143)

    try:
        signal.signal(signal.SIGTERM, on_term)
    except Exception:  # noqa: BLE001
        pass
    return dump
